# witness for deterministic instrumentation: several site-sensitive builtin calls inside one thunked operand
class P:
    def who(self):
        return "P"
class Q(P):
    def who(self):
        return super().who() + str(len(dir())) + str(len(locals())) + str(len(vars(self)) + len(globals()) * 0)
names = sorted(dir())[:1] + sorted(locals())[:1]
r = Q().who()
v = (len(dir()) + len(locals())) * 1 + (len(globals()) if len(vars()) else 0)
