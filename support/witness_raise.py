# witness program for uncaught_exception: an exception escapes the instrumented module
x = 1
raise ValueError("escapes")
