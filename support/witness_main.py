# witness program: executes every construct DynaPyt publishes a hook for (one construct per line where possible)
class CM:
    def __enter__(self):
        return self
    def __exit__(self, *a):
        return False
from vsupport import MM
def deco(f):
    return f
@deco
def decorated(a):
    return a
def fn(a, b=2):
    c = a
    return c
def fn_implicit(a):
    pass
def gen(n):
    yield n
    yield from [n]
class K:
    attr = 1
    def m(self):
        return self.attr
x_int = 1
x_float = 1.5
x_img = 2j
x_bool = True
x_none = None
x_str = "s"
x_dict = {1: 2}
x_list = [1, 2]
x_tuple = (1, 2)
x_set = {1, 2}
a = 6
b = 3
mm = MM()
r = a + b
r = a & b
r = a | b
r = a ^ b
r = a / b
r = a // b
r = a << b
r = mm @ mm
r = a % b
r = a * b
r = a ** b
r = a >> b
r = a - b
r = a and b
r = a or b
r = ~a
r = -a
r = not a
r = +a
r = a == b
r = a > b
r = a >= b
r = a in x_list
r = a is b
r = a < b
r = a <= b
r = a != b
r = a is not b
r = a not in x_list
a += b
a &= b
a |= b
a ^= b
a /= b
a = 6
a //= b
a <<= b
mm @= mm
a %= b
a *= b
a **= b
a >>= b
a -= b
a = 6
if a:
    pass
r = 1 if a else 2
for i in x_list:
    pass
for i in x_list:
    break
for i in x_list:
    continue
while a < 0:
    pass
n = 0
while n < 3:
    n += 1
    if n == 1:
        continue
    break
assert a
try:
    raise ValueError("x")
except ValueError as e:
    pass
try:
    pass
except Exception:
    pass
with CM() as c:
    pass
decorated(1)
fn(1)
fn_implicit(1)
list(gen(1))
K().m()
r = x_list[0]
r = a
del x_dict[1]
