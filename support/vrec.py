"""Recording analyses used by the /verif harness (NOT part of DynaPyt).

Rec      : catch-all recorder; every hook name resolves to a recording function.
RecOnly  : recorder that implements only the hook names given in `hooks` (comma separated).
Both append (tag, seqno, hook, args) to the process-global LOG and can return scripted values:
SCRIPT[(tag, hook)] = list of values popped per invocation (None = observe).
"""
import itertools

LOG = []
SEQ = itertools.count()
SCRIPT = {}
HOOK_CALLBACK = [None]  # optional callable(tag, hook, args) run inside every hook (scheduler for C15)
CONSTRUCTED = []
WANT_FRAMES = [False]   # C16: record, per delivery, the file of the interpreter frame that was executing
FRAMES = []


def reset():
    global SEQ
    LOG.clear()
    SCRIPT.clear()
    FRAMES.clear()
    SEQ = itertools.count()
    HOOK_CALLBACK[0] = None


def _mk(tag, name):
    def hook(*args):
        LOG.append((tag, next(SEQ), name, args))
        cb = HOOK_CALLBACK[0]
        if cb is not None:
            cb(tag, name, args)
        q = SCRIPT.get((tag, name))
        if q:
            return q.pop(0)
        return None

    hook.__name__ = name
    hook.__doc__ = None
    return hook


class Rec:
    def __init__(self, tag="A", **kw):
        self.tag = tag
        self.conf = kw
        self._cache = {}

    def __getattr__(self, name):
        if name.startswith("__") or name in ("tag", "conf", "_cache"):
            raise AttributeError(name)
        c = self.__dict__["_cache"]
        if name not in c:
            c[name] = _mk(self.tag, name)
        return c[name]


class RecOnly:
    """Implements exactly the hooks listed in `hooks` ('a,b,c'); docs can carry filter text:
    docs='hook=<docstring>' entries separated by '|'."""

    def __init__(self, tag="A", hooks="", **kw):
        self.tag = tag
        self.conf = kw
        for h in [x for x in hooks.split(",") if x]:
            setattr(self, h, _mk(tag, h))


class RecB(RecOnly):
    pass


class RecC(RecOnly):
    pass


class RecD(RecOnly):
    pass


# ---- record-time canonicalisation used by generated analysis modules (harness/runner.py)
def record(tag, hook, args):
    import vsupport

    head = list(args[:2])
    canon = [a if isinstance(a, (str, int)) and not isinstance(a, bool) else vsupport.cr(a) for a in head]
    canon += [vsupport.cr(a) for a in args[2:]]
    LOG.append((tag, next(SEQ), hook, canon))
    if WANT_FRAMES[0]:
        import sys

        f = sys._getframe(1)
        fn = None
        while f is not None:
            name = f.f_code.co_filename
            if not (name.endswith("dynapyt/runtime.py") or name.endswith("vrec.py") or "/vana_" in name or name.endswith("contextlib.py") or name.endswith("functools.py")):
                fn = name
                break
            f = f.f_back
        FRAMES.append(fn)
    cb = HOOK_CALLBACK[0]
    if cb is not None:
        cb(tag, hook, args)
    q = SCRIPT.get((tag, hook))
    if q:
        v = q.pop(0)
        if callable(v) and getattr(v, "_verif_lazy", False):
            return v(args)
        return v
    return None
