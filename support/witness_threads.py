# witness for interleaved activities: three worker functions and two generator functions (all instrumented)
class Acc:
    def __init__(self):
        self.total = 0
    def add(self, v):
        self.total += v
        return self.total
def helper(a, b=1):
    if a > b:
        return a - b
    return a + b
def w0(n):
    acc = Acc()
    for i in range(n):
        acc.add(helper(i, 2))
    return acc.total
def w1(n):
    out = []
    k = 0
    while k < n:
        k += 1
        try:
            if k % 2 == 0:
                raise ValueError(k)
            out.append(k * 2)
        except ValueError as e:
            out.append(-k)
    return out
def w2(n):
    d = {i: str(i) for i in range(n)}
    s = [d[i] + "x" for i in d if i != 1]
    return (len(s), s[0] if s else None)
def g0(n):
    for i in range(n):
        yield helper(i) * 2
def g1(n):
    t = 0
    while t < n:
        t += 1
        yield (t, t < 2)
class Res:
    def __init__(self, tag):
        self.tag = tag
        self.log = []
    def __enter__(self):
        self.log.append("enter")
        return self
    def __exit__(self, *a):
        self.log.append("exit")
        return False
def g2(n):
    out = []
    for i in range(n):
        with Res(("g2", i)) as res:
            yield (res.tag, len(res.log))
            out.append(res.log)
    yield out
def w3(n):
    acc = []
    for i in range(n):
        with Res(("w3", i)) as res:
            acc.append(helper(i, 1))
            acc.append(len(res.log))
    return acc
