"""Uninstrumented helper module imported by generated programs (NOT part of DynaPyt).

Everything observable a generated program does goes through here and is appended to LOG, so that
"program-visible side effects" can be compared between the original and the instrumented run.
Mirrored by coq/Concrete/CPrims.v.
"""
LOG = []
_NEXT = [0]


def reset():
    LOG.clear()
    _NEXT[0] = 0


def k(n):
    """logging identity"""
    LOG.append(("k", n))
    return n


def boom(n):
    LOG.append(("boom", n))
    raise E1(n)


class E1(Exception):
    pass


class E2(Exception):
    pass


def fresh(kind="r"):
    _NEXT[0] += 1
    return R(_NEXT[0], kind)


class R:
    """Recorder object: every operator logs (op, operand ids) and returns a fresh recorder."""

    __slots__ = ("i", "kind", "truth", "attrs")

    def __init__(self, i, kind="r", truth=True):
        self.i = i
        self.kind = kind
        self.truth = truth
        self.attrs = {}

    def __repr__(self):
        return "R%d" % self.i

    def __bool__(self):
        LOG.append(("bool", self.i))
        return self.truth

    def __hash__(self):
        return hash(("R", self.i))

    def __getattr__(self, name):
        if name.startswith("__"):
            raise AttributeError(name)
        LOG.append(("getattr", self.i, name))
        a = object.__getattribute__(self, "attrs")
        if name not in a:
            a[name] = fresh()
        return a[name]

    def __setattr__(self, name, v):
        if name in ("i", "kind", "truth", "attrs"):
            object.__setattr__(self, name, v)
        else:
            LOG.append(("setattr", self.i, name, cr(v)))
            object.__getattribute__(self, "attrs")[name] = v

    def __getitem__(self, key):
        LOG.append(("getitem", self.i, cr(key)))
        return fresh()

    def __setitem__(self, key, v):
        LOG.append(("setitem", self.i, cr(key), cr(v)))

    def __delitem__(self, key):
        LOG.append(("delitem", self.i, cr(key)))

    def __call__(self, *a, **kw):
        LOG.append(("call", self.i, tuple(cr(x) for x in a), tuple(sorted((k_, cr(v)) for k_, v in kw.items()))))
        return fresh()

    def __contains__(self, o):
        LOG.append(("contains", self.i, cr(o)))
        return True

    def __iter__(self):
        LOG.append(("iter", self.i))
        return iter([fresh(), fresh()])

    def __enter__(self):
        LOG.append(("enter", self.i))
        return fresh()

    def __exit__(self, t, v, tb):
        LOG.append(("exit", self.i, None if t is None else t.__name__))
        return self.kind == "suppress"


def _bin(name):
    def f(self, o):
        LOG.append((name, self.i, cr(o)))
        return fresh()

    return f


def _un(name):
    def f(self):
        LOG.append((name, self.i))
        return fresh()

    return f


for _n in ["add", "sub", "mul", "truediv", "floordiv", "mod", "pow", "lshift", "rshift", "and", "or", "xor", "matmul"]:
    setattr(R, "__%s__" % _n, _bin(_n))
    setattr(R, "__r%s__" % _n, _bin("r" + _n))
    setattr(R, "__i%s__" % _n, _bin("i" + _n))
for _n in ["eq", "ne", "lt", "le", "gt", "ge"]:
    setattr(R, "__%s__" % _n, _bin(_n))
for _n in ["neg", "pos", "invert"]:
    setattr(R, "__%s__" % _n, _un(_n))


def r(truth=True):
    """a fresh recorder"""
    x = fresh()
    truth = bool(truth)
    x.truth = truth
    LOG.append(("new", x.i, truth))
    return x


def cm(suppress=False):
    x = fresh("suppress" if suppress else "cm")
    LOG.append(("newcm", x.i, suppress))
    return x


def apply(f, *a):
    LOG.append(("apply",))
    return f(*a)


def twice(f, x):
    LOG.append(("twice",))
    return f(f(x))


def each(f, xs):
    LOG.append(("each",))
    return [f(x) for x in xs]


def cr(v, depth=0):
    """canonical, address-free rendering of a value"""
    if v is None or isinstance(v, (bool, int, str)):
        return repr(v)
    if isinstance(v, float):
        return "float:" + repr(v)
    if isinstance(v, complex):
        return "complex:" + repr(v)
    if isinstance(v, R):
        return "R%d" % v.i
    if depth > 4:
        return "..."
    if isinstance(v, tuple):
        return "(" + ",".join(cr(x, depth + 1) for x in v) + ")"
    if isinstance(v, list):
        return "[" + ",".join(cr(x, depth + 1) for x in v) + "]"
    if isinstance(v, dict):
        return "{" + ",".join(sorted(cr(a, depth + 1) + ":" + cr(b, depth + 1) for a, b in v.items())) + "}"
    if isinstance(v, (set, frozenset)):
        return "set{" + ",".join(sorted(cr(a, depth + 1) for a in v)) + "}"
    if isinstance(v, BaseException):
        return "%s(%s)" % (type(v).__name__, ",".join(cr(a, depth + 1) for a in v.args))
    if isinstance(v, type):
        return "<class %s>" % v.__name__
    if isinstance(v, slice):
        return "slice(%s,%s,%s)" % (cr(v.start), cr(v.stop), cr(v.step))
    n = getattr(v, "__name__", None)
    if callable(v) and n is not None:
        return "<fn %s>" % n
    return "<%s>" % type(v).__name__


class MM:
    """operand for the matrix-multiplication operators of the witness programs (kept here, uninstrumented)"""

    def __matmul__(self, o):
        return self

    def __imatmul__(self, o):
        return self
