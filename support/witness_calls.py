# witness program for call filters: call sites whose callee changes between executions
def foo(x):
    return x
def bar(x):
    return x
def apply(f, x):
    return f(x)
class Maker:
    def __init__(self, v):
        self.v = v
    def foo(self):
        return self.v
out = []
for f in [foo, bar, foo, bar]:
    out.append(apply(f, 1))
handlers = [bar, foo]
for i in [0, 1, 0]:
    out.append(handlers[i](i))
m = Maker(5)
out.append(m.foo())
out.append(foo(2))
out.append(bar(3))
n = 1
n = n + 2
flag = True
label = "s"
other = 'x'
