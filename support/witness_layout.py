# witness for source locations: one-line suites, multi-line expressions, parenthesised nodes, inline break/continue
def f(a, b): return a + b
x = (1 +
     2 *
     3)
y = [f(1,
       2), (x), ((x) + 1)]
if x: z = 1
else: z = 2
n = 0
while n < 5:
    n += 1
    if n == 2: continue
    if n == 4: break
t = f(n, 1) if n else f(
    0, 0)
for i in (1, 2): n -= i
w = {"a": [1, 2][0], "b": (3,)}
q = w["a"] + y[0]
