"""Analysis used by the C12 subprocess stream: logs every notification immediately to notes.log."""
import os
import itertools
from dynapyt.analyses.BaseAnalysis import BaseAnalysis

_INST = itertools.count()


class Life(BaseAnalysis):
    def __init__(self, **kw):
        super().__init__()
        self.k = next(_INST)

    def _w(self, what):
        with open("notes.log", "a") as f:
            f.write("%d %s\n" % (self.k, what))

    def begin_execution(self):
        self._w("begin")

    def end_execution(self):
        self._w("end")

    def uncaught_exception(self, exc, stack_trace):
        self._w("uncaught %s %s" % (type(exc).__name__, exc))

    def integer(self, dyn_ast, iid, val):
        self._w("ev")
        if val == 99:
            # an exception that starts INSIDE an analysis hook (the program may or may not handle it)
            raise ValueError("raised by the hook")
EXITCODE = 3
