"""Subprocess driver of the C12 stream (NOT part of DynaPyt).
argv: casedir mode(run_analysis|direct) coverage(0|1)
Instruments every module of the case with the hooks of vlife.Life, then executes module `main`.
The analysis vlife.Life appends one line per notification to <casedir>/notes.log."""
import os
import sys
import io
import contextlib
import runpy
from pathlib import Path

casedir, mode, cov = Path(sys.argv[1]), sys.argv[2], sys.argv[3] == "1"
sys.path.insert(0, str(casedir))
os.chdir(casedir)
from dynapyt.instrument.instrument import instrument_file
from dynapyt.utils.hooks import get_hooks_from_analysis

hooks = get_hooks_from_analysis(["vlife.Life"])
with contextlib.redirect_stdout(io.StringIO()):
    for f in sorted(casedir.glob("m*.py")):
        instrument_file(str(f), hooks)
if mode == "run_analysis":
    from dynapyt.run_analysis import run_analysis

    with contextlib.redirect_stderr(io.StringIO()):
        run_analysis("main", ["vlife.Life"], coverage=cov, coverage_dir=str(casedir) if cov else None)
else:
    import uuid

    sid = str(uuid.uuid4())
    os.environ["DYNAPYT_SESSION_ID"] = sid
    if cov:
        os.environ["DYNAPYT_COVERAGE"] = str(casedir / ("dynapyt_coverage-" + sid))
        (casedir / ("dynapyt_coverage-" + sid)).parent.mkdir(exist_ok=True)
    import tempfile

    (Path(tempfile.gettempdir()) / ("dynapyt_analyses-%s.txt" % sid)).write_text("vlife.Life")
    pass
    runpy.run_module("main", run_name="main")
