# second witness program: the same constructs in nested / unusual positions
def outer(n):
    total = 0
    i = 0
    while i < n:
        i += 1
        for j in [1, 2]:
            if j == 2:
                continue
            total += j
        if i == 2:
            break
    else:
        total = -1
    for a in [1, 2, 3]:
        k = 0
        while k < 2:
            k += 1
            if k == 1:
                continue
            break
        if a == 2:
            break
    return total
class Box:
    items = [1, 2]
    def size(self):
        def inner(x):
            return x + len(self.items)
        return inner(0)
    def gen(self):
        for it in self.items:
            try:
                if it == 1:
                    raise KeyError(it)
                yield it
            except KeyError as e:
                yield -it
            finally:
                pass
r1 = outer(3)
b = Box()
r2 = b.size()
r3 = list(b.gen())
r4 = [x * 2 for x in [1, 2] if x > 1]
r5 = {"k": (1, 2.5), "s": {3}}
r6 = (lambda q: q - 1)(r1) if r1 and not r2 == 0 else None
r7 = r5["k"][0]
class Ctx:
    def __enter__(self):
        return 8
    def __exit__(self, *a):
        return False
with Ctx() as fh:
    r8 = True
def make_cause(v):
    return ValueError(v)
try:
    raise KeyError(r1) from make_cause(r2)
except KeyError as ke:
    r9 = ke.__cause__.args
del r5["s"]
assert r7 == 1, "seven"
