# loops with break/continue/else (block and one-line forms), try/except/else/finally, with, raise from, assert
out = []
for i in range(4):
    if i % 2 == 0: continue
    elif i == 3: out.append(("odd3", i))
    else: out.append(("odd", i))
for i in range(6):
    if i == 4: break
    else: out.append(("noteq4", i))
else:
    out.append("not reached")
j = 0
while j < 5:
    j += 1
    if j == 2:
        continue
    if j == 4:
        break
    out.append(("w", j))
else:
    out.append("while-else not reached")
k = 0
while k < 2:
    k += 1
else:
    out.append(("while-else", k))
for x in []:
    out.append("never")
else:
    out.append("for-else on empty")
class CM:
    def __init__(self, name, swallow=False):
        self.name, self.swallow = name, swallow
    def __enter__(self):
        out.append(("enter", self.name))
        return self
    def __exit__(self, t, v, tb):
        out.append(("exit", self.name, None if t is None else t.__name__))
        return self.swallow
with CM("a") as a, CM("b") as b2:
    out.append((a.name, b2.name))
with CM("s", swallow=True):
    raise KeyError("swallowed")
def risky(n):
    try:
        if n == 0:
            raise ValueError("zero")
        if n == 1:
            return "one"
        out.append(("body", n))
    except ValueError as e:
        out.append(("caught", str(e)))
        return "handled"
    else:
        out.append(("else", n))
    finally:
        out.append(("finally", n))
    return "end"
out.append([risky(0), risky(1), risky(2)])
def chain():
    try:
        try:
            raise KeyError("inner")
        except KeyError as e:
            raise RuntimeError("outer") from e
    except RuntimeError as e:
        return (str(e), type(e.__cause__).__name__)
out.append(chain())
def loop_try():
    r = []
    for n in range(4):
        try:
            if n == 1:
                continue
            if n == 3:
                break
            r.append(n)
        finally:
            r.append(("f", n))
    return r
out.append(loop_try())
try:
    assert 1 + 1 == 2
    assert out is None
except AssertionError:
    out.append("assertion failed")
try:
    raise
except RuntimeError as e:
    out.append(type(e).__name__)
del k
out.append("k" in dir())
print(out)
raise IndexError("final uncaught %d" % len(out))
