# calls nested in positional, keyword and star arguments, methods, constructors, recursion, bare returns
# (no callbacks from builtins, no exceptions, no generators: every frame of a function of this file is entered by a
#  call expression of this file)
out = []
def inc(x):
    return x + 1
def mul(a, b):
    return a * b
def scale(x, factor=2):
    return mul(x, factor)
def fact(n, acc=1):
    if n <= 1:
        return acc
    return fact(n - 1, acc=mul(acc, n))
def noop(flag):
    if flag:
        return
    out.append("x")
def early(xs):
    for x in xs:
        if x > 1:
            return
    return
class Box:
    def __init__(self, v):
        self.v = inc(v)
    def get(self, d=0):
        return self.v + d
def varargs(*a, **k):
    return (len(a), sorted(k))
out.append(scale(2, factor=inc(3)))
out.append(fact(4))
noop(True)
noop(False)
early([0, 2])
early([])
b = Box(1)
out.append(b.get(d=inc(1)))
t = (1, 2)
kw = {"p": inc(0)}
out.append(varargs(*t, q=inc(5), **kw))
out.append(mul(inc(1), inc(inc(2))))
print(out)
