# functions with every parameter kind, closures, global/nonlocal, star-arguments, recursion, generators
out = []
def f(a, b=2, *args, c, d=4, **kw):
    return (a, b, args, c, d, sorted(kw.items()))
out.append(f(1, c=3))
out.append(f(1, 5, 6, 7, c=8, d=9, z=10))
t = (1, 2)
kw = {"c": 5, "y": 6}
out.append(f(*t, **kw))
def posonly(a, b, /, c):
    return a - b + c
out.append(posonly(5, 3, c=1))
def counter():
    n = 0
    def inc(step=1):
        nonlocal n
        n += step
        return n
    return inc
c1 = counter()
out.append((c1(), c1(2), c1()))
total = 0
def bump(x):
    global total
    total = total + x
    return total
out.append([bump(i) for i in range(3)])
def fact(n, acc=1):
    if n <= 1:
        return acc
    return fact(n - 1, acc=acc * n)
out.append(fact(5))
def gen(n):
    i = 0
    while i < n:
        got = yield i
        if got:
            out.append(("sent", got))
        i += 1
    return "done"
g = gen(3)
out.append(next(g))
out.append(g.send("x"))
out.append(list(g))
def early(xs):
    for x in xs:
        if x > 1:
            return x
    return None
out.append((early([0, 1, 2, 3]), early([])))
def bare(flag):
    if flag:
        return
    out.append("not returned")
bare(True)
bare(False)
lam = lambda x, y=2: x * y
out.append((lam(3), lam(3, 3)))
out.append(sorted([3, 1, 2], key=lambda v: -v))
out.append(list(map(lambda v: v + 1, [1, 2])))
print(out)
