# comprehensions, conditional and boolean expressions, slices, f-strings, unpacking, site-sensitive builtins
out = []
xs = [1, 2, 3, 4]
out.append([x * 2 for x in xs if x % 2])
out.append({x: y for x, y in zip("ab", xs)})
out.append(sorted({x % 3 for x in xs}))
out.append(list(x + y for x in range(2) for y in range(2) if x != y))
out.append([[r * c for c in range(2)] for r in range(2)])
a, (b, *c) = 1, (2, 3, 4)
out.append((a, b, c))
a, b = b, a
out.append((a, b))
out.append(xs[1:3] + xs[::-1][:1] + [xs[-1]])
d = {"k": [1, 2]}
d["k"][0] += 5
d.setdefault("z", []).append(1)
out.append(d)
out.append("yes" if xs else "no")
out.append(0 or "" or "last")
out.append(1 and [] and "never")
out.append(not xs)
out.append(f"{a}-{b!r}-{len(xs):03d}")
out.append((-a, +b, ~a, a ** 2, 7 // 2, 7 % 3, 1 << 3, 6 & 3, 6 | 1, 6 ^ 3, 7 / 2, 2 @ 1 if False else 0))
out.append((a is None, a is not None, 2 in xs, 9 not in xs, a == b, a != b, a <= b, a >= b))
out.append((1 < 5 < 3, 0 <= 2 < 3 <= 3, 5 > 1 < 2, [q for q in range(6) if 1 < q <= 4], 1 == 1 != 2 == 2))
def scope():
    inner = 5
    loc = sorted(locals())
    return loc, eval("inner + 1"), sorted(k for k in dir() if not k.startswith("_"))
out.append(scope())
out.append(sorted(k for k in globals() if k in ("xs", "d", "a")))
class K:
    attr = [i for i in range(2)]
    other = len(attr)
out.append((K.attr, K.other))
s = "text"
out.append((s.upper(), s[1:], len(s), s * 2, "%s!" % s))
n = None
out.append((n is None, True, False, 1.5, 2j.imag, b"x"[0], ...  is Ellipsis))
w = 0
w += 1; w -= 2; w *= 3; w //= 2; w **= 2; w %= 5; w <<= 1; w >>= 1; w |= 8; w &= 12; w ^= 5
out.append(w)
print(out)
