# classes, class-scope names, inheritance, super, properties, name-mangled attributes, decorators
out = []
def deco(fn):
    def wrapper(*a, **k):
        out.append(("call", fn.__name__))
        return fn(*a, **k)
    return wrapper
class Base:
    kind = "base"
    table = [kind, kind + "!"]
    def __init__(self, v):
        self.v = v
        self.__secret = v * 2
    def reveal(self):
        return self.__secret
    def double(self):
        return self.v * 2
    def __repr__(self):
        return "Base(%r)" % self.v
class Child(Base):
    kind = "child"
    def __init__(self, v, w):
        super().__init__(v)
        self.w = w
    def reveal(self):
        return (super().reveal(), self.w)
    @deco
    def hello(self, greeting="hi"):
        return greeting + str(self.v)
b = Base(3)
c = Child(4, 5)
out.append((b.reveal(), c.reveal(), b.double(), c.double()))
out.append((Base.kind, Child.kind, Base.table))
out.append(c.hello())
out.append(c.hello(greeting="yo"))
out.append(repr(Base(7)))
out.append(sorted(k for k in vars(c)))
c.w += 1
c.v = c.v + c.w
out.append((c.v, c.w))
class WithSlots:
    __slots__ = ("a",)
    def __init__(self):
        self.a = 1
ws = WithSlots()
ws.a += 2
out.append(ws.a)
print(out)
