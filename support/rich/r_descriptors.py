# decorators that return descriptors: staticmethod, classmethod, property
out = []
class Base:
    def __init__(self, v):
        self.v = v
    @property
    def double(self):
        return self.v * 2
    @staticmethod
    def stat(x):
        return x + 1
    @classmethod
    def make(cls, v):
        return cls(v)
b = Base(3)
out.append((b.double, Base.stat(1), b.stat(2), Base.make(7).v, b.make(8).v))
print(out)
