# a handler whose type is an expression with a side effect: Python evaluates it once, when an exception is matched
out = []
def pick(c):
    out.append(("pick", c.__name__))
    return c
try:
    raise KeyError("x")
except pick(KeyError) as e:
    out.append("handled")
try:
    out.append("no exception")
except pick(ValueError):
    out.append("not reached")
print(out)
