#!/bin/bash
# Build the framework offline from files on disk: translate the current /repo, then a full .vo build.
set -e
cd "$(dirname "$0")"
export PYTHONHASHSEED=0 PYTHONDONTWRITEBYTECODE=1
mkdir -p .work/setup-tmp evidence
TMPDIR=$PWD/.work/setup-tmp PYTHONPATH=${VERIF_REPO:-/repo}/src:$PWD/support /venv/bin/python tools/extract.py --repo ${VERIF_REPO:-/repo} --out coq/Gen 2>&1 | grep -v conda || true
rm -rf .work/setup-tmp
cd coq
find . -name '*.v' | sed 's|^\./||' | sort > .vfiles.tmp
coq_makefile -f _CoqProject -o Makefile $(cat .vfiles.tmp) > /dev/null
tr '\n' '\n' < .vfiles.tmp | sed '$!b' > /dev/null
/venv/bin/python - <<'PY'
from pathlib import Path
vs = sorted(str(p.relative_to('.')) for p in Path('.').rglob('*.v'))
Path('.vfiles').write_text("\n".join(vs))
PY
rm -f .vfiles.tmp
timeout 3000 make -k -j16 2>&1 | grep -v "^COQC\|^COQDEP\|^Closed under\|^$" | tail -20 || true
echo "setup done"
