(* C15 -- interleaved threads and generators each see their own sequential trace. *)
From Coq Require Import String List Bool Arith.
From DV Require Import Engine.Dispatch Engine.Interleave Hooks.Tables Hooks.TablesProofs Gen.Footprint.
Import ListNotations.
Open Scope string_scope.

(* for every schedule at hook-switch granularity, each activity contributes the deliveries of its solo run *)
Theorem C15_noninterference_events : forall S act deliv keyof (acts : list (list S)) m t,
  interleaving S act acts m ->
  filter (fun s => Nat.eqb (act s) t) (idels S (iexec S deliv keyof m)) = idels S (iexec S deliv keyof (nth t acts [])).
Proof. exact per_activity_trace. Qed.
Print Assumptions C15_noninterference_events.

Theorem C15_noninterference_coverage : forall S act deliv keyof (acts : list (list S)) m k,
  interleaving S act acts m ->
  cov_get k (icov S (iexec S deliv keyof m))
  = sum_upto (length acts) (fun t => cov_get k (icov S (iexec S deliv keyof (nth t acts [])))).
Proof. exact coverage_is_sum_of_solo. Qed.
Print Assumptions C15_noninterference_coverage.

(* the model's assumption "the runtime keeps no per-event state" is re-checked against the source:
   no entry point writes an attribute of the engine; call_if_exists writes only the coverage table and
   the current_file cache (static footprint regenerated from runtime.py on every run) *)
Theorem C15_footprint_entry_points : forall name reads writes calls decos,
  In (name, (reads, (writes, (calls, decos)))) footprint ->
  ~ In name engine_setup -> name <> "call_if_exists" -> writes = [].
Proof. exact entry_points_write_nothing. Qed.
Print Assumptions C15_footprint_entry_points.

Theorem C15_footprint_dispatch : forall reads writes calls decos,
  In ("call_if_exists", (reads, (writes, (calls, decos)))) footprint -> forall w, In w writes -> In w shared_ok.
Proof. exact dispatch_writes_only_coverage. Qed.
Print Assumptions C15_footprint_dispatch.
