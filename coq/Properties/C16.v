(* C16 -- partial, multi-module instrumentation: events come only from instrumented files, each carries the
   path of the file whose code executed, and what a file reports is independent of which other files are
   instrumented.  (Model: Engine/Modules.v; the step sequence of a run and the transparency half of the
   property are established on the implementation by the correspondence check, see DESIGN.md.) *)
From Coq Require Import List Arith Bool.
From DV Require Import Engine.Modules.
Import ListNotations.

Theorem C16_only_instrumented_files_report : forall S tr e,
  In e (delivered S tr) -> S (fst e) = true /\ In e tr.
Proof. exact only_instrumented. Qed.
Print Assumptions C16_only_instrumented_files_report.

Theorem C16_subset_is_projection_of_full : forall S tr,
  delivered S tr = filter (fun e => S (fst e)) (delivered all_files tr).
Proof. exact projection. Qed.
Print Assumptions C16_subset_is_projection_of_full.

Theorem C16_file_events_independent_of_other_files : forall S S' f0 tr, S f0 = S' f0 ->
  filter (fun e => Nat.eqb (fst e) f0) (delivered S tr) = filter (fun e => Nat.eqb (fst e) f0) (delivered S' tr).
Proof. exact independent. Qed.
Print Assumptions C16_file_events_independent_of_other_files.

Theorem C16_more_files_only_add_events : forall S S' tr, (forall f, S f = true -> S' f = true) ->
  delivered S tr = filter (fun e => S (fst e)) (delivered S' tr).
Proof. exact monotone. Qed.
Print Assumptions C16_more_files_only_add_events.

Theorem C16_nothing_instrumented_nothing_reported : forall tr, delivered no_file tr = [].
Proof. exact delivered_none. Qed.

(* the selections are not vacuous: a three-file program, files 0 and 2 instrumented *)
Example C16_example :
  delivered (fun f => existsb (Nat.eqb f) [0; 2]) [(0, 1); (1, 1); (2, 5); (1, 2); (0, 3)] = [(0, 1); (2, 5); (0, 3)].
Proof. reflexivity. Qed.
