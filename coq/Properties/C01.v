(* C01 -- execution transparency.
   Layering: (1) the instrumented program under the model of the runtime IS the reference semantics of the
   source program (all MiniPy programs, all hook selections, all analyses, all data semantics with pure truth
   tests that do not tell the two unbound-local exceptions apart, all fuel, all initial states), outside the guard clauses; (2) each guard clause is refuted by a
   concrete witness on which the implementation is run by every check; (3) names and operator codes of the
   models are the ones of the current source. *)
From Coq Require Import String List Bool.
From DV Require Import Engine.Dispatch Py.Syntax Py.Sem Py.Instr Py.Guard Py.Refine Py.Props Py.Codes
                       Concrete.Run Concrete.Instance Concrete.Tiny Concrete.Witness.
Import ListNotations.

(* the instrumented run and the reference run are the same computation: same outcome, same world, same
   globals, same frames, same deliveries *)
Theorem C01_instrumented_is_reference :
  forall (D : data) (analyses : list (analysis (Sem.earg (d_val D)))) (modpath : string)
         (H : list string) (p : program) (fuel : nat) (s : state D),
    pure_truth D -> unbound_reads_uniform D -> src_prog p = true -> ok_prog H p = true ->
    inst_run D analyses modpath H fuel p s = ref_run D analyses modpath H fuel p s.
Proof. exact instrumented_is_reference. Qed.
Print Assumptions C01_instrumented_is_reference.

Theorem C01_same_behaviour_as_reference :
  forall (D : data) (analyses : list (analysis (Sem.earg (d_val D)))) (modpath : string)
         (H : list string) (p : program) (fuel : nat) (s : state D),
    pure_truth D -> unbound_reads_uniform D -> src_prog p = true -> ok_prog H p = true ->
    behaviour D (inst_run D analyses modpath H fuel p s) = behaviour D (ref_run D analyses modpath H fuel p s).
Proof. exact same_behaviour. Qed.
Print Assumptions C01_same_behaviour_as_reference.

(* execution transparency proper: with analyses whose hooks return nothing, what the instrumented program does
   to the outcome, the world, the globals, the frames and the handled exceptions is what the original does *)
Theorem C01_transparency :
  forall (D : data) (analyses : list (analysis (Sem.earg (d_val D)))) (modpath : string)
         (H : list string) (p : program) (fuel : nat) (s : state D),
    observing_analyses D analyses -> pure_truth D -> unbound_reads_uniform D -> list_building_pure D ->
    src_prog p = true -> ok_prog H p = true -> tk_prog H p = true ->
    visible D (inst_run D analyses modpath H fuel p s) = visible D (orig_run D analyses modpath fuel p s).
Proof. exact instrumented_is_transparent. Qed.
Print Assumptions C01_transparency.

(* the reference semantics is transparent for every data semantics, pure truth tests or not *)
Theorem C01_reference_is_transparent :
  forall (D : data) (analyses : list (analysis (Sem.earg (d_val D)))) (modpath : string)
         (H : list string) (p : program) (fuel : nat) (s : state D),
    observing_analyses D analyses -> list_building_pure D -> bool_truth D ->
    src_prog p = true -> tk_prog H p = true ->
    visible D (ref_run D analyses modpath H fuel p s) = visible D (orig_run D analyses modpath fuel p s).
Proof. exact reference_is_transparent. Qed.
Print Assumptions C01_reference_is_transparent.

(* the hypotheses are satisfiable: a data semantics with pure truth tests and pure list building exists, and the
   concrete data semantics of the correspondence check meets the hypotheses of the second theorem *)
Example C01_pure_truth_inhabited : pure_truth tdata /\ unbound_reads_uniform tdata /\ list_building_pure tdata.
Proof. exact (conj tdata_pure_truth (conj tdata_unbound_uniform tdata_list_pure)). Qed.
Example C01_concrete_data_meets_reference_hypotheses : forall fn, list_building_pure (cdata fn) /\ bool_truth (cdata fn).
Proof. intros fn. exact (conj (cdata_list_pure fn) (cdata_bool_truth fn)). Qed.

(* the full statement (no guard) is false of the faithful model: one witness per guard clause, on the concrete
   data semantics that mirrors the support library of the generated programs *)
Theorem C01_refuted_chain_eager :
  behaviour_eqb (run_inst 40 h_chain_eager a_chain_eager false w_chain_eager) (run_orig 40 w_chain_eager) = false.
Proof. exact w_chain_eager_not_transparent. Qed.
Theorem C01_refuted_assert_msg_eager :
  behaviour_eqb (run_inst 40 h_assert_msg_eager a_assert_msg_eager false w_assert_msg_eager) (run_orig 40 w_assert_msg_eager) = false.
Proof. exact w_assert_msg_eager_not_transparent. Qed.
Theorem C01_refuted_aug_assign :
  behaviour_eqb (run_inst 40 h_aug_assign a_aug_assign false w_aug_assign) (run_orig 40 w_aug_assign) = false.
Proof. exact w_aug_assign_not_transparent. Qed.
Theorem C01_refuted_truth_retest :
  behaviour_eqb (run_inst 40 h_truth_retest a_truth_retest false w_truth_retest) (run_orig 40 w_truth_retest) = false.
Proof. exact w_truth_retest_not_transparent. Qed.
(* the premise unbound_reads_uniform is needed: on the concrete data semantics (which, like CPython, tells the NameError
   of a read through `lambda: u` from UnboundLocalError) the instrumented program is not transparent, and the
   concrete data semantics does not meet the premise *)
Theorem C01_refuted_unbound_local_thunk :
  behaviour_eqb (run_inst 40 h_unbound_local_thunk a_unbound_local_thunk false w_unbound_local_thunk) (run_orig 40 w_unbound_local_thunk) = false
  /\ src_prog w_unbound_local_thunk = true /\ ok_prog h_unbound_local_thunk w_unbound_local_thunk = true
  /\ ~ unbound_reads_uniform (cdata (fnames_of w_unbound_local_thunk)).
Proof.
  split; [exact w_unbound_local_thunk_not_transparent|]. split; [exact w_unbound_local_thunk_is_source|].
  split; [vm_compute; reflexivity|]. intros Hu. specialize (Hu "u" (DV.Concrete.CPrims.w0 [])). vm_compute in Hu. discriminate Hu.
Qed.
Print Assumptions C01_refuted_truth_retest.
Print Assumptions C01_refuted_unbound_local_thunk.

(* the reference semantics itself is transparent on the witnesses *)
Theorem C01_reference_transparent_on_witnesses :
  behaviour_eqb (run_ref 40 h_chain_eager a_chain_eager false w_chain_eager) (run_orig 40 w_chain_eager) = true
  /\ behaviour_eqb (run_ref 40 h_assert_msg_eager a_assert_msg_eager false w_assert_msg_eager) (run_orig 40 w_assert_msg_eager) = true
  /\ behaviour_eqb (run_ref 40 h_aug_assign a_aug_assign false w_aug_assign) (run_orig 40 w_aug_assign) = true
  /\ behaviour_eqb (run_ref 40 h_truth_retest a_truth_retest false w_truth_retest) (run_orig 40 w_truth_retest) = true
  /\ behaviour_eqb (run_ref 40 h_unbound_local_thunk a_unbound_local_thunk false w_unbound_local_thunk) (run_orig 40 w_unbound_local_thunk) = true.
Proof.
  exact (conj w_chain_eager_reference_transparent (conj w_assert_msg_eager_reference_transparent
        (conj w_aug_assign_reference_transparent (conj w_truth_retest_reference_transparent w_unbound_local_thunk_reference_transparent)))).
Qed.

(* the runs compared with the implementation by the correspondence check are these runs, instantiated *)
Theorem C01_checked_runs_are_instances : forall fuel H anas cov p,
  run_inst fuel H anas cov p = observe (fnames_of p) (inst_run (cdata (fnames_of p)) (map mk_pana anas) "M" H fuel p (st0 (fnames_of p) cov))
  /\ run_ref fuel H anas cov p = observe (fnames_of p) (ref_run (cdata (fnames_of p)) (map mk_pana anas) "M" H fuel p (st0 (fnames_of p) cov)).
Proof. intros. exact (conj (run_inst_is_inst_run fuel H anas cov p) (run_ref_is_ref_run fuel H anas cov p)). Qed.

Theorem C01_codes_match_source : codes_ok = true.
Proof. exact codes_ok_true. Qed.
Print Assumptions C01_codes_match_source.
Theorem C01_dispatch_sequences_match_source : dispatch_model_ok = true.
Proof. exact dispatch_model_ok_true. Qed.
Print Assumptions C01_dispatch_sequences_match_source.
