(* C08 -- what a hook receives does not depend on which other hooks were instrumented (hierarchy part). *)
From Coq Require Import String List Bool Arith.
From DV Require Import Hooks.Tree Hooks.Tables Hooks.TablesProofs.
Import ListNotations.

(* selecting a generic hook = selecting every specific hook beneath it (all 98 names, on the regenerated tree) *)
Theorem C08_generic_is_leaves : forall g, In g hook_names -> generic_is_leaves_at g = true.
Proof. exact generic_equals_its_leaves. Qed.
Print Assumptions C08_generic_is_leaves.

(* ---- end-to-end part (MiniPy): for a construct hook h and two selections that both contain it -- in particular
   h alone and any selection containing h -- analyses whose hooks return nothing receive the same sequence of
   events through h, and the program behaves the same; first for the reference semantics, then for the
   instrumented program through the refinement theorem *)
From DV Require Import Engine.Dispatch Py.Syntax Py.Sem Py.Instr Py.Refine.
Theorem C08_reference_hook_independent :
  forall (D : data) (analyses : list (analysis (Sem.earg (d_val D)))) (modpath : String.string)
         (H1 H2 : list String.string) (h : String.string) (p : program) (fuel : nat) (s : state D),
    observing_analyses D analyses -> list_building_pure D -> bool_truth D ->
    construct_hook h = true -> Base.Util.mem_str h H1 = true -> Base.Util.mem_str h H2 = true ->
    src_prog p = true -> g8_prog H1 H2 p = true ->
    deliveries_to D h (ref_run D analyses modpath H1 fuel p s) = deliveries_to D h (ref_run D analyses modpath H2 fuel p s)
    /\ visible D (ref_run D analyses modpath H1 fuel p s) = visible D (ref_run D analyses modpath H2 fuel p s).
Proof. exact reference_hook_independent. Qed.
Print Assumptions C08_reference_hook_independent.

Theorem C08_instrumented_hook_independent :
  forall (D : data) (analyses : list (analysis (Sem.earg (d_val D)))) (modpath : String.string)
         (H1 H2 : list String.string) (h : String.string) (p : program) (fuel : nat) (s : state D),
    observing_analyses D analyses -> pure_truth D -> unbound_reads_uniform D -> list_building_pure D ->
    construct_hook h = true -> Base.Util.mem_str h H1 = true -> Base.Util.mem_str h H2 = true ->
    src_prog p = true -> ok_prog H1 p = true -> ok_prog H2 p = true -> g8_prog H1 H2 p = true ->
    deliveries_to D h (inst_run D analyses modpath H1 fuel p s) = deliveries_to D h (inst_run D analyses modpath H2 fuel p s).
Proof. exact instrumented_hook_independent. Qed.
Print Assumptions C08_instrumented_hook_independent.

(* the premises are satisfiable: `add` is a construct hook (a generic name is not); a program whose handler type is a
   class name meets the guard for any two selections, one whose handler type is a call only when both selections agree
   on the exception hook *)
Example C08_premises_inhabited :
  construct_hook "add" = true /\ construct_hook "runtime_event" = false
  /\ g8_prog ["add"] ["add"; "exception"; "write"]
       {| p_funs := []; p_main := Scons (STry 1 (Scons SPass Snil) (Hcons (Some (EName 2 "E1" NNone)) (Some "e") (Scons SPass Snil) Hnil) Snil Snil) Snil |} = true
  /\ g8_prog ["add"; "exception"] ["add"; "exception"; "write"]
       {| p_funs := []; p_main := Scons (STry 1 (Scons SPass Snil) (Hcons (Some (ECall 2 (EName 3 "pick" NNone) Enil)) None (Scons SPass Snil) Hnil) Snil Snil) Snil |} = true
  /\ g8_prog ["add"] ["add"; "exception"]
       {| p_funs := []; p_main := Scons (STry 1 (Scons SPass Snil) (Hcons (Some (ECall 2 (EName 3 "pick" NNone) Enil)) None (Scons SPass Snil) Hnil) Snil Snil) Snil |} = false.
Proof. vm_compute. repeat split; reflexivity. Qed.
