(* C08 -- what a hook receives does not depend on which other hooks were instrumented (hierarchy part). *)
From Coq Require Import String List Bool Arith.
From DV Require Import Hooks.Tree Hooks.Tables Hooks.TablesProofs.
Import ListNotations.

(* selecting a generic hook = selecting every specific hook beneath it (all 98 names, on the regenerated tree) *)
Theorem C08_generic_is_leaves : forall g, In g hook_names -> generic_is_leaves_at g = true.
Proof. exact generic_equals_its_leaves. Qed.
Print Assumptions C08_generic_is_leaves.
