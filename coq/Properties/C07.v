(* C07 -- a hook's return value replaces exactly the targeted value.
   The analyses are arbitrary here (their reactions may return values): the instrumented run equals the
   reference run, in which the answer of the specific hook, else of the generic hook, else the original value
   continues the evaluation ([sel3]/[sel2]), every other evaluation being untouched. *)
From Coq Require Import String List Bool.
From DV Require Import Engine.Dispatch Py.Syntax Py.Sem Py.Instr Py.Guard Py.Refine Py.Props Py.Codes
                       Concrete.Run Concrete.Witness.
Import ListNotations.
Open Scope string_scope.

Theorem C07_overrides_as_reference :
  forall (D : data) (analyses : list (analysis (Sem.earg (d_val D)))) (modpath : string)
         (H : list string) (p : program) (fuel : nat) (s : state D),
    pure_truth D -> unbound_reads_uniform D -> src_prog p = true -> ok_prog H p = true ->
    inst_run D analyses modpath H fuel p s = ref_run D analyses modpath H fuel p s.
Proof. exact instrumented_is_reference. Qed.
Print Assumptions C07_overrides_as_reference.

(* "specific wins, else generic, else the original; None never changes anything" *)
Theorem C07_selection_rule : forall (D : data) (lo hi : option (Sem.earg (d_val D))) (orig : d_val D),
  sel3 (d_val D) (d_const D) lo hi orig =
  match lo, hi with
  | Some a, _ => arg_val (d_val D) (d_const D) a
  | None, Some a => arg_val (d_val D) (d_const D) a
  | None, None => orig
  end.
Proof. intros D [a|] [b|] orig; reflexivity. Qed.
Theorem C07_none_changes_nothing : forall (D : data) (orig : d_val D),
  sel3 (d_val D) (d_const D) None None orig = orig /\ sel2 (d_val D) (d_const D) None orig = orig.
Proof. intros; split; reflexivity. Qed.
Print Assumptions C07_none_changes_nothing.

Theorem C07_refuted_chain_eager :
  obs_same (run_inst 40 h_chain_eager a_chain_eager false w_chain_eager) (run_ref 40 h_chain_eager a_chain_eager false w_chain_eager) = false.
Proof. exact w_chain_eager_deviates. Qed.

Theorem C07_codes_match_source : codes_ok = true.
Proof. exact codes_ok_true. Qed.
Theorem C07_dispatch_sequences_match_source : dispatch_model_ok = true.
Proof. exact dispatch_model_ok_true. Qed.
Print Assumptions C07_dispatch_sequences_match_source.
