(* C12 -- execution lifecycle: begin once first, end once last, on every way out. *)
From Coq Require Import List Bool.
From DV Require Import Engine.Lifecycle.
Import ListNotations.

Theorem C12_single_module : forall l body, no_import body = true ->
  notes (run_process l body) = NBegin 0 :: repeat (NEv 0) (fst (prefix body)) ++ tail_of (snd (prefix body)).
Proof. exact single_module_grammar. Qed.
Print Assumptions C12_single_module.

Theorem C12_multi_module_partial : forall l body, no_raise body = true ->
  notes (run_process l body) = NBegin 0 :: repeat (NEv 0) (fst (evs body)) ++ [NEnd 0; NDump 0].
Proof. exact multi_module_grammar_partial. Qed.
Print Assumptions C12_multi_module_partial.
