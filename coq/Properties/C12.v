(* C12 -- execution lifecycle: begin once first, end once last, on every way out. *)
From Coq Require Import List Bool.
From DV Require Import Engine.Lifecycle.
Import ListNotations.

(* one instrumented module; every launch mode; normal end, exception or exit at any index; coverage on or off *)
Theorem C12_single_module : forall cov l body, no_import body = true ->
  notes (snd (run_process_cov cov l body)) = NBegin 0 :: repeat (NEv 0) (fst (prefix body)) ++ tail_of (snd (prefix body)).
Proof. exact single_module_grammar_cov. Qed.
Print Assumptions C12_single_module.

(* what leaves the process is the program's own outcome (its own exception re-raised), coverage on or off *)
Theorem C12_single_module_outcome : forall cov l body, no_import body = true ->
  fst (run_process_cov cov l body) = snd (prefix body).
Proof. exact single_module_outcome. Qed.
Print Assumptions C12_single_module_outcome.

(* several instrumented modules, any import structure, as long as no exception crosses a module boundary *)
Theorem C12_multi_module_partial : forall cov l body, no_raise body = true ->
  notes (snd (run_process_cov cov l body)) = NBegin 0 :: repeat (NEv 0) (fst (evs body)) ++ [NEnd 0; NDump 0].
Proof. exact multi_module_grammar_partial. Qed.
Print Assumptions C12_multi_module_partial.
