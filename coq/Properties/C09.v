(* C09 -- every published hook is live under its published name and signature. *)
From Coq Require Import String List Bool.
From DV Require Import Hooks.Tree Hooks.Tables Hooks.TablesProofs Gen.Missing.
Import ListNotations.

(* the 98 names of the regenerated hierarchy, exhaustively; [live] is defined in Hooks/Tables.v over the
   regenerated Gates / Dispatch / OpTables / Published tables *)
Theorem C09_names_bound : length hook_names = 98.
Proof. exact hook_names_count. Qed.
Print Assumptions C09_names_bound.

Theorem C09_all_live : forall h, In h hook_names -> live h = true.
Proof. intros h H. apply live_partial; [exact H|intros []]. Qed.
Print Assumptions C09_all_live.

Theorem C09_translator_complete : missing = [].
Proof. exact translator_complete. Qed.
Print Assumptions C09_translator_complete.
