(* C12 -- witnesses that the full multi-module statement is false of the unchanged code. *)
From Coq Require Import List.
From DV Require Import Engine.Lifecycle.
Import ListNotations.
Theorem C12_multi_module_refuted_handled :
  notes (run_process LRunAnalysis w_handled) = [NBegin 0; NEv 0; NEv 0; NRe 0; NUncaught 0; NEnd 0; NDump 0; NEv 0].
Proof. exact multi_module_refuted_handled. Qed.
Theorem C12_multi_module_refuted_twice :
  notes (run_process LRunAnalysis w_twice) = [NBegin 0; NRe 0; NUncaught 0; NEnd 0; NDump 0; NRe 0; NUncaught 0].
Proof. exact multi_module_refuted_twice. Qed.
