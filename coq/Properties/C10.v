(* C10 -- analyses in one session are all served, in order, and do not disturb each other. *)
From Coq Require Import String List Bool Arith Sorted.
From DV Require Import Engine.Dispatch Engine.DispatchProofs Engine.Lifecycle.
Import ListNotations.

(* within one event the analyses are invoked in the order listed *)
Theorem C10_order : forall V filt_str (l : list (analysis V)) i f args, StronglySorted lt (sel V filt_str i l f args).
Proof. exact sel_sorted. Qed.
Print Assumptions C10_order.

Theorem C10_deliveries_of_a_run : forall V filt_str as_path is_iid line_of (l : list (analysis V)) es st,
  dels (run_events V filt_str as_path is_iid line_of l es st) = dels st ++ flat_map (ev_dels V filt_str l) es.
Proof. intros V fs ap ii lo l es st. exact (proj1 (run_events_dels V fs ap ii lo l es st)). Qed.
Print Assumptions C10_deliveries_of_a_run.

(* every analysis receives exactly the sequence it receives when it is the only analysis
   (for ANY analyses: the engine never lets one analysis' answers influence what another receives) *)
Theorem C10_isolation : forall V filt_str as_path is_iid line_of (l : list (analysis V)) es i a coverage,
  nth_error l i = Some a ->
  own V i (dels (run_events V filt_str as_path is_iid line_of l es (init_state V coverage)))
  = map (set_idx V i) (dels (run_events V filt_str as_path is_iid line_of [a] es (init_state V coverage))).
Proof. exact isolation. Qed.
Print Assumptions C10_isolation.

(* begin / end notifications: see C12 (Engine/Lifecycle.v); restated here for one module *)
Theorem C10_begin_end : forall l body, no_import body = true ->
  notes (run_process l body) = NBegin 0 :: repeat (NEv 0) (fst (prefix body)) ++ tail_of (snd (prefix body)).
Proof. exact single_module_grammar. Qed.
Print Assumptions C10_begin_end.
