(* C14 -- instrumentation is deterministic, idempotent, reversible and order-independent (file-level part). *)
From Coq Require Import String List Bool Arith Permutation.
From DV Require Import Engine.Files Gen.SetIter.
Import ListNotations.

Theorem C14_idempotent : forall decodable transform f b src f',
  f (b, KPy) = Some src -> instrument_file decodable transform f b = (f', RNone) ->
  (forall s, decodable s = true) -> instrument_ops decodable transform f' b = ([], R0).
Proof. exact idempotent. Qed.
Print Assumptions C14_idempotent.

Theorem C14_restore : forall decodable transform f b src f',
  f (b, KPy) = Some src -> instrument_file decodable transform f b = (f', RNone) -> restore f' b (b, KPy) = Some src.
Proof. exact restore_roundtrip. Qed.
Print Assumptions C14_restore.

Theorem C14_dir_is_pointwise : forall decodable transform bs, NoDup bs -> forall f b kd, In b bs ->
  instrument_seq decodable transform bs f (b, kd) = fst (instrument_file decodable transform f b) (b, kd).
Proof. exact seq_is_pointwise. Qed.
Print Assumptions C14_dir_is_pointwise.

Theorem C14_dir_order : forall decodable transform bs1 bs2 f, NoDup bs1 -> Permutation bs1 bs2 ->
  forall k, instrument_seq decodable transform bs1 f k = instrument_seq decodable transform bs2 f k.
Proof. exact dir_order_independent. Qed.
Print Assumptions C14_dir_order.

(* determinism of the transformation itself: the instrumenter iterates over no hash-ordered set
   (static table regenerated from instrument/*.py and utils/hooks.py on every run) *)
Theorem C14_no_hash_ordered_iteration : set_iter_sites = [].
Proof. reflexivity. Qed.
Print Assumptions C14_no_hash_ordered_iteration.
