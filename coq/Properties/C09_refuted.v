(* C09 -- witnesses that the FULL statement (all 98 names live) is false of the unchanged code. *)
From Coq Require Import String List Bool.
From DV Require Import Hooks.Tables.
Open Scope string_scope.
Theorem C09_refuted_float : live "_float" = false. Proof. vm_compute. reflexivity. Qed.
Theorem C09_refuted_implicit_return : live "implicit_return" = false. Proof. vm_compute. reflexivity. Qed.
Theorem C09_refuted_normal_exit_for : live "normal_exit_for" = false. Proof. vm_compute. reflexivity. Qed.
Theorem C09_refuted_normal_exit_while : live "normal_exit_while" = false. Proof. vm_compute. reflexivity. Qed.
Theorem C09_refuted_enter_decorator : live "enter_decorator" = false. Proof. vm_compute. reflexivity. Qed.
Theorem C09_refuted_exit_decorator : live "exit_decorator" = false. Proof. vm_compute. reflexivity. Qed.
