(* C13 -- coverage counts equal hook deliveries and merging loses nothing. *)
From Coq Require Import String List Bool Arith Permutation.
From DV Require Import Engine.Dispatch Engine.DispatchProofs Engine.Coverage.
Import ListNotations.

(* the recorded count of every (file, line, analysis class) key = number of location-carrying deliveries with that key *)
Theorem C13_counts : forall V filt_str as_path line_of (l : list (analysis V)) es st m,
  crashed st = false -> cov st = Some m -> all_ok V as_path es ->
  exists m', cov (run_events V filt_str as_path line_of l es st) = Some m' /\
    forall k, cov_get k m' = cov_get k m + count_key V as_path line_of l k (flat_map (ev_dels V filt_str l) es).
Proof. exact coverage_counts. Qed.
Print Assumptions C13_counts.

(* enabling coverage changes neither what is delivered nor turns the run into a crash -- when every
   delivered event with two or more arguments starts with a str path (hypothesis all_ok) *)
Theorem C13_no_crash_partial : forall V filt_str as_path line_of (l : list (analysis V)) es,
  all_ok V as_path es ->
  crashed (run_events V filt_str as_path line_of l es (init_state V true)) = false /\
  dels (run_events V filt_str as_path line_of l es (init_state V true))
  = dels (run_events V filt_str as_path line_of l es (init_state V false)).
Proof.
  intros V fs ap lo l es H.
  destruct (run_events_dels V fs ap lo l es (init_state V true) eq_refl (or_intror H)) as [A [B _]].
  destruct (run_events_dels V fs ap lo l es (init_state V false) eq_refl (or_introl eq_refl)) as [C _].
  split; [exact B|]. rewrite A, C. reflexivity.
Qed.
Print Assumptions C13_no_crash_partial.

Theorem C13_merge_sum : forall k base new, keys_distinct new = true -> cget k (merge base new) = cget k base + cget k new.
Proof. exact merge_sum. Qed.
Print Assumptions C13_merge_sum.

Theorem C13_gather_sum : forall k files, cget k (gather files) = total k files.
Proof. exact gather_sum. Qed.
Print Assumptions C13_gather_sum.

Theorem C13_merge_order_independent : forall files1 files2,
  Permutation files1 files2 -> forall k, cget k (gather files1) = cget k (gather files2).
Proof. exact gather_order_independent. Qed.
Print Assumptions C13_merge_order_independent.

Theorem C13_merge_comm : forall a b k, cget k (merge (merge [] a) b) = cget k (merge (merge [] b) a).
Proof. exact merge_comm. Qed.
Theorem C13_merge_assoc : forall a b c k,
  cget k (merge (merge (merge [] a) b) c) = cget k (merge (merge [] a) (merge (merge [] b) c)).
Proof. exact merge_assoc. Qed.
Print Assumptions C13_merge_assoc.
