(* C13 -- coverage counts equal hook deliveries and merging loses nothing. *)
From Coq Require Import String List Bool Arith Permutation.
From DV Require Import Engine.Dispatch Engine.DispatchProofs Engine.Coverage.
Import ListNotations.

(* the recorded count of every (file, line, analysis class) key = number of location-carrying deliveries with that key
   (location-carrying: at least two arguments, the first a non-empty str, the second an int) *)
Theorem C13_counts : forall V filt_str as_path is_iid line_of (l : list (analysis V)) es st m,
  cov st = Some m ->
  exists m', cov (run_events V filt_str as_path is_iid line_of l es st) = Some m' /\
    forall k, cov_get k m' = cov_get k m + count_key V as_path is_iid line_of l k (flat_map (ev_dels V filt_str l) es).
Proof. exact coverage_counts. Qed.
Print Assumptions C13_counts.

(* enabling coverage never changes what is delivered (and the engine model has no failure state at all) *)
Theorem C13_coverage_transparent : forall V filt_str as_path is_iid line_of (l : list (analysis V)) es,
  dels (run_events V filt_str as_path is_iid line_of l es (init_state V true))
  = dels (run_events V filt_str as_path is_iid line_of l es (init_state V false)).
Proof.
  intros V fs ap ii lo l es.
  destruct (run_events_dels V fs ap ii lo l es (init_state V true)) as [A _].
  destruct (run_events_dels V fs ap ii lo l es (init_state V false)) as [C _].
  rewrite A, C. reflexivity.
Qed.
Print Assumptions C13_coverage_transparent.

Theorem C13_merge_sum : forall k base new, keys_distinct new = true -> cget k (merge base new) = cget k base + cget k new.
Proof. exact merge_sum. Qed.
Print Assumptions C13_merge_sum.

Theorem C13_gather_sum : forall k files, cget k (gather files) = total k files.
Proof. exact gather_sum. Qed.
Print Assumptions C13_gather_sum.

Theorem C13_merge_order_independent : forall files1 files2,
  Permutation files1 files2 -> forall k, cget k (gather files1) = cget k (gather files2).
Proof. exact gather_order_independent. Qed.
Print Assumptions C13_merge_order_independent.

Theorem C13_merge_comm : forall a b k, cget k (merge (merge [] a) b) = cget k (merge (merge [] b) a).
Proof. exact merge_comm. Qed.
Theorem C13_merge_assoc : forall a b c k,
  cget k (merge (merge (merge [] a) b) c) = cget k (merge (merge [] a) (merge (merge [] b) c)).
Proof. exact merge_assoc. Qed.
Print Assumptions C13_merge_assoc.
