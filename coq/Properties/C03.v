(* C03 -- expression events are faithful (operator-table part: the 42 operator classes exhaustively). *)
From Coq Require Import String List Bool Arith.
From DV Require Import Hooks.Names Hooks.Tables Hooks.TablesProofs Gen.OpTables.
Import ListNotations.

Theorem C03_operator_bound : length all_ops = 42.
Proof. exact all_ops_count. Qed.

(* for every operator class of the language: the (entry point, code) the instrumenter emits is executed
   by the runtime as that same operator, the leaf hook dispatched is get_name(snake(class)), it is a leaf
   of the hierarchy, selecting it enables the rewrite, and every hook dispatched has its published arity.
   (op_ok's first argument switches the executed-semantics clause off for `and`/`or`, see C03_refuted) *)
Theorem C03_op_tables_partial : forall cat cls, In (cat, cls) all_ops ->
  op_ok (negb (Base.Util.mem_str cls sem_deviating)) cat cls = true.
Proof. exact op_tables_partial. Qed.
Print Assumptions C03_op_tables_partial.

(* full statement: executed semantics included, for all 42 operators *)
Theorem C03_op_tables : forall cat cls, In (cat, cls) all_ops -> op_ok true cat cls = true.
Proof. intros cat cls H. exact (op_tables_partial cat cls H). Qed.
Print Assumptions C03_op_tables.

Theorem C03_no_unknown_operator : forall r, In r ins_ops -> In (fst r) (map snd all_ops).
Proof. exact instrumenter_ops_are_language_ops. Qed.
Print Assumptions C03_no_unknown_operator.

(* ---- end-to-end part (MiniPy): the deliveries of the instrumented program are the deliveries of the
   reference semantics, where every evaluated expression reports itself once, after its operands, with the
   operands and the result the program computed, and unevaluated operands report nothing *)
From DV Require Import Engine.Dispatch Py.Syntax Py.Sem Py.Instr Py.Refine Py.Props Concrete.Run Concrete.Witness.
Theorem C03_deliveries_are_reference_deliveries :
  forall (D : data) (analyses : list (analysis (Sem.earg (d_val D)))) (modpath : string)
         (H : list string) (p : program) (fuel : nat) (s : state D),
    pure_truth D -> unbound_reads_uniform D -> src_prog p = true -> ok_prog H p = true ->
    deliveries D (inst_run D analyses modpath H fuel p s) = deliveries D (ref_run D analyses modpath H fuel p s).
Proof. exact same_deliveries. Qed.
Print Assumptions C03_deliveries_are_reference_deliveries.

Theorem C03_refuted_chain_eager :
  obs_same (run_inst 40 h_chain_eager a_chain_eager false w_chain_eager) (run_ref 40 h_chain_eager a_chain_eager false w_chain_eager) = false.
Proof. exact w_chain_eager_deviates. Qed.
Theorem C03_refuted_unbound_local_thunk :
  obs_same (run_inst 40 h_unbound_local_thunk a_unbound_local_thunk false w_unbound_local_thunk)
           (run_ref 40 h_unbound_local_thunk a_unbound_local_thunk false w_unbound_local_thunk) = false.
Proof. exact w_unbound_local_thunk_deviates. Qed.
Print Assumptions C03_refuted_chain_eager.
