(* C05 -- call and function events mirror the real call stack.
   The events the instrumented program delivers (analysis index, hook, arguments, in order) are exactly the
   events of the reference semantics of the source program, in which every construct reports itself once per
   dynamic occurrence, after its operands and in execution order (Py/Sem.v, Section Ref). *)
From Coq Require Import String List Bool.
From DV Require Import Engine.Dispatch Py.Syntax Py.Sem Py.Instr Py.Guard Py.Refine Py.Props Py.Codes
                       Concrete.Run Concrete.Witness.
Import ListNotations.
Open Scope string_scope.

Theorem C05_deliveries_are_reference_deliveries :
  forall (D : data) (analyses : list (analysis (Sem.earg (d_val D)))) (modpath : string)
         (H : list string) (p : program) (fuel : nat) (s : state D),
    pure_truth D -> unbound_reads_uniform D -> src_prog p = true -> ok_prog H p = true ->
    deliveries D (inst_run D analyses modpath H fuel p s) = deliveries D (ref_run D analyses modpath H fuel p s).
Proof. exact same_deliveries. Qed.
Print Assumptions C05_deliveries_are_reference_deliveries.

(* in particular the deliveries of the hooks of this property's family *)
Theorem C05_family_deliveries :
  forall (D : data) (analyses : list (analysis (Sem.earg (d_val D)))) (modpath : string)
         (H : list string) (p : program) (fuel : nat) (s : state D) (hooks : list string),
    pure_truth D -> unbound_reads_uniform D -> src_prog p = true -> ok_prog H p = true ->
    deliveries_of D hooks (inst_run D analyses modpath H fuel p s) = deliveries_of D hooks (ref_run D analyses modpath H fuel p s).
Proof. intros D a m H p f s hooks Hp Hu Hs Ho. exact (same_deliveries_of D a m H p f s Hp Hu Hs Ho hooks). Qed.
Print Assumptions C05_family_deliveries.

Theorem C05_codes_match_source : codes_ok = true.
Proof. exact codes_ok_true. Qed.
Theorem C05_dispatch_sequences_match_source : dispatch_model_ok = true.
Proof. exact dispatch_model_ok_true. Qed.
Print Assumptions C05_dispatch_sequences_match_source.

(* events are reported in execution order and what was reported is never dropped, rewritten or reordered: a run only
   appends to the log of deliveries (for arbitrary analyses; reference semantics, and the instrumented program) *)
Theorem C05_delivery_log_only_grows :
  forall (D : data) (analyses : list (analysis (Sem.earg (d_val D)))) (modpath : string)
         (H : list string) (p : program) (fuel : nat) (s : state D),
    src_prog p = true ->
    exists d, deliveries D (ref_run D analyses modpath H fuel p s) = (dels (eng s) ++ d)%list.
Proof. exact reference_log_grows. Qed.
Print Assumptions C05_delivery_log_only_grows.

(* every covered call that returns is bracketed: operands, announcement, pre_call with the callee and the arguments as
   evaluated, everything the callee reports, post_call with the returned value -- in this order, nothing in between *)
Theorem C05_covered_call_brackets :
  forall (D : data) (analyses : list (analysis (Sem.earg (d_val D)))) (modpath : string)
         (H : list string) (funs : list fundef) (fuel : nat) c n f args (s s' : state D) v,
    forallb (fun fd => src_ss (f_body fd)) funs = true -> src_e f = true -> src_es args = true ->
    (Base.Util.mem_str "pre_call" H || Base.Util.mem_str "post_call" H) = true ->
    ref_eval D analyses modpath H funs fuel c (ECall n f args) s = (Ok v, s') ->
    exists fv vs rv d_ops d_ann d_pre d_callee d_post,
      dels (eng s') = (dels (eng s) ++ d_ops ++ d_ann ++ d_pre ++ d_callee ++ d_post)%list
      /\ Forall (fun d => d_hook d = "runtime_event" \/ d_hook d = "control_flow_event") d_ann
      /\ Forall (fun d => d_hook d = "pre_call" /\ d_args d = [AS modpath; AI (BinInt.Z.of_nat n); AV fv; AL (map AV vs); AD]) d_pre
      /\ Forall (fun d => d_hook d = "post_call" /\ d_args d = [AS modpath; AI (BinInt.Z.of_nat n); AV rv; AV fv; AT (map AV vs); AD]) d_post.
Proof. exact covered_call_brackets. Qed.
Print Assumptions C05_covered_call_brackets.

(* frames: a covered function reports its entry first; function_exit and implicit_return last when control reaches the end
   of its body; nothing after the body's own reports when an exception leaves it (no exit is invented); [rb] is the outcome
   of the body *)
Theorem C05_covered_function_frames :
  forall (D : data) (analyses : list (analysis (Sem.earg (d_val D)))) (modpath : string)
         (H : list string) (funs : list fundef) (f fid : nat) (args : list (d_val D)) fd (s s' : state D) r,
    forallb (fun fd => src_ss (f_body fd)) funs = true ->
    nth_error funs fid = Some fd -> length args = length (f_params fd) ->
    (Base.Util.mem_str "function_enter" H || Base.Util.mem_str "implicit_return" H) = true ->
    ref_call D analyses modpath H funs (S f) fid args s = (r, s') ->
    exists (rb : res (d_val D) unit) d_ann d_enter d_body d_tail,
      dels (eng s') = (dels (eng s) ++ d_ann ++ d_enter ++ d_body ++ d_tail)%list
      /\ Forall (fun d => d_hook d = "runtime_event" \/ d_hook d = "control_flow_event") d_ann
      /\ Forall (fun d => d_hook d = "function_enter") d_enter
      /\ match rb with
         | Ok _ => (exists a x i, d_tail = (a ++ x ++ i)%list
                                 /\ Forall (fun d => d_hook d = "runtime_event" \/ d_hook d = "control_flow_event") a
                                 /\ Forall (fun d => d_hook d = "function_exit") x /\ Forall (fun d => d_hook d = "implicit_return") i)
                   /\ r = Ok (d_const D KNone)
         | Exc e => d_tail = nil /\ r = Exc e
         | Ret v => d_tail = nil /\ r = Ok v
         | _ => d_tail = nil
         end.
Proof. exact covered_function_frames. Qed.
Print Assumptions C05_covered_function_frames.
