(* C05 -- call and function events mirror the real call stack.
   The events the instrumented program delivers (analysis index, hook, arguments, in order) are exactly the
   events of the reference semantics of the source program, in which every construct reports itself once per
   dynamic occurrence, after its operands and in execution order (Py/Sem.v, Section Ref). *)
From Coq Require Import String List Bool.
From DV Require Import Engine.Dispatch Py.Syntax Py.Sem Py.Instr Py.Guard Py.Refine Py.Props Py.Codes
                       Concrete.Run Concrete.Witness.
Import ListNotations.
Open Scope string_scope.

Theorem C05_deliveries_are_reference_deliveries :
  forall (D : data) (analyses : list (analysis (Sem.earg (d_val D)))) (modpath : string)
         (H : list string) (p : program) (fuel : nat) (s : state D),
    pure_truth D -> src_prog p = true -> ok_prog H p = true ->
    deliveries D (inst_run D analyses modpath H fuel p s) = deliveries D (ref_run D analyses modpath H fuel p s).
Proof. exact same_deliveries. Qed.
Print Assumptions C05_deliveries_are_reference_deliveries.

(* in particular the deliveries of the hooks of this property's family *)
Theorem C05_family_deliveries :
  forall (D : data) (analyses : list (analysis (Sem.earg (d_val D)))) (modpath : string)
         (H : list string) (p : program) (fuel : nat) (s : state D) (hooks : list string),
    pure_truth D -> src_prog p = true -> ok_prog H p = true ->
    deliveries_of D hooks (inst_run D analyses modpath H fuel p s) = deliveries_of D hooks (ref_run D analyses modpath H fuel p s).
Proof. intros D a m H p f s hooks Hp Hs Ho. exact (same_deliveries_of D a m H p f s Hp Hs Ho hooks). Qed.
Print Assumptions C05_family_deliveries.

Theorem C05_codes_match_source : codes_ok = true.
Proof. exact codes_ok_true. Qed.
Theorem C05_dispatch_sequences_match_source : dispatch_model_ok = true.
Proof. exact dispatch_model_ok_true. Qed.
Print Assumptions C05_dispatch_sequences_match_source.

(* events are reported in execution order and what was reported is never dropped, rewritten or reordered: a run only
   appends to the log of deliveries (for arbitrary analyses; reference semantics, and the instrumented program) *)
Theorem C05_delivery_log_only_grows :
  forall (D : data) (analyses : list (analysis (Sem.earg (d_val D)))) (modpath : string)
         (H : list string) (p : program) (fuel : nat) (s : state D),
    src_prog p = true ->
    exists d, deliveries D (ref_run D analyses modpath H fuel p s) = (dels (eng s) ++ d)%list.
Proof. exact reference_log_grows. Qed.
Print Assumptions C05_delivery_log_only_grows.
