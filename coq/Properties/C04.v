(* C04 -- statement and control-flow events report what the program did.
   The events the instrumented program delivers (analysis index, hook, arguments, in order) are exactly the
   events of the reference semantics of the source program, in which every construct reports itself once per
   dynamic occurrence, after its operands and in execution order (Py/Sem.v, Section Ref). *)
From Coq Require Import String List Bool.
From DV Require Import Engine.Dispatch Py.Syntax Py.Sem Py.Instr Py.Guard Py.Refine Py.Props Py.Codes
                       Concrete.Run Concrete.Witness.
Import ListNotations.
Open Scope string_scope.

Theorem C04_deliveries_are_reference_deliveries :
  forall (D : data) (analyses : list (analysis (Sem.earg (d_val D)))) (modpath : string)
         (H : list string) (p : program) (fuel : nat) (s : state D),
    pure_truth D -> unbound_reads_uniform D -> src_prog p = true -> ok_prog H p = true ->
    deliveries D (inst_run D analyses modpath H fuel p s) = deliveries D (ref_run D analyses modpath H fuel p s).
Proof. exact same_deliveries. Qed.
Print Assumptions C04_deliveries_are_reference_deliveries.

(* in particular the deliveries of the hooks of this property's family *)
Theorem C04_family_deliveries :
  forall (D : data) (analyses : list (analysis (Sem.earg (d_val D)))) (modpath : string)
         (H : list string) (p : program) (fuel : nat) (s : state D) (hooks : list string),
    pure_truth D -> unbound_reads_uniform D -> src_prog p = true -> ok_prog H p = true ->
    deliveries_of D hooks (inst_run D analyses modpath H fuel p s) = deliveries_of D hooks (ref_run D analyses modpath H fuel p s).
Proof. intros D a m H p f s hooks Hp Hu Hs Ho. exact (same_deliveries_of D a m H p f s Hp Hu Hs Ho hooks). Qed.
Print Assumptions C04_family_deliveries.

Theorem C04_codes_match_source : codes_ok = true.
Proof. exact codes_ok_true. Qed.
Theorem C04_dispatch_sequences_match_source : dispatch_model_ok = true.
Proof. exact dispatch_model_ok_true. Qed.
Print Assumptions C04_dispatch_sequences_match_source.

(* without the guard the statement is false of the faithful model *)
Theorem C04_refuted_assert_msg_eager :
  obs_same (run_inst 40 h_assert_msg_eager a_assert_msg_eager false w_assert_msg_eager) (run_ref 40 h_assert_msg_eager a_assert_msg_eager false w_assert_msg_eager) = false.
Proof. exact w_assert_msg_eager_deviates. Qed.
Theorem C04_refuted_aug_assign :
  obs_same (run_inst 40 h_aug_assign a_aug_assign false w_aug_assign) (run_ref 40 h_aug_assign a_aug_assign false w_aug_assign) = false.
Proof. exact w_aug_assign_deviates. Qed.
Theorem C04_refuted_truth_retest :
  obs_same (run_inst 40 h_truth_retest a_truth_retest false w_truth_retest) (run_ref 40 h_truth_retest a_truth_retest false w_truth_retest) = false.
Proof. exact w_truth_retest_deviates. Qed.
Print Assumptions C04_refuted_truth_retest.

(* events are reported in execution order and what was reported is never dropped, rewritten or reordered: a run only
   appends to the log of deliveries (for arbitrary analyses; reference semantics, and the instrumented program) *)
Theorem C04_delivery_log_only_grows :
  forall (D : data) (analyses : list (analysis (Sem.earg (d_val D)))) (modpath : string)
         (H : list string) (p : program) (fuel : nat) (s : state D),
    src_prog p = true ->
    exists d, deliveries D (ref_run D analyses modpath H fuel p s) = (dels (eng s) ++ d)%list.
Proof. exact reference_log_grows. Qed.
Print Assumptions C04_delivery_log_only_grows.
