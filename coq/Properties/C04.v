(* C04 -- end-to-end property on MiniPy programs: see Py/Sem.v (reference semantics), Py/Instr.v, Py/Guard.v. *)
From Coq Require Import String List Bool.
From DV Require Import Py.Codes.
Theorem C04_codes_match_source : codes_ok = true.
Proof. exact codes_ok_true. Qed.
Print Assumptions C04_codes_match_source.
Theorem C04_dispatch_sequences_match_source : dispatch_model_ok = true.
Proof. exact dispatch_model_ok_true. Qed.
Print Assumptions C04_dispatch_sequences_match_source.
