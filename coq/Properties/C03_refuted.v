From Coq Require Import String List Bool.
From DV Require Import Hooks.Tables.
Open Scope string_scope.
(* `left and right` / `left or right` test the truth of the left operand twice (runtime.py:300-320) *)
Theorem C03_refuted_and : op_ok true "boolean" "And" = false. Proof. vm_compute. reflexivity. Qed.
Theorem C03_refuted_or : op_ok true "boolean" "Or" = false. Proof. vm_compute. reflexivity. Qed.
