(* C02 -- instrumentation is total: valid Python out, or the file is left untouched (file-level and call-shape parts). *)
From Coq Require Import String List Bool Arith.
From DV Require Import Engine.Files Hooks.Bind Hooks.Tables Hooks.TablesProofs Gen.Shapes Gen.RtSigs.
Import ListNotations.

Theorem C02_declined_untouched : forall decodable transform f b src r f',
  f (b, KPy) = Some src -> instrument_file decodable transform f b = (f', r) -> r <> RNone ->
  f' (b, KPy) = Some src /\ f' (b, KOrig) = f (b, KOrig).
Proof. exact declined_untouched. Qed.
Print Assumptions C02_declined_untouched.

Theorem C02_accepted_shape : forall decodable transform f b src f',
  f (b, KPy) = Some src -> instrument_file decodable transform f b = (f', RNone) ->
  exists code idmap, transform b src = Some (code, idmap) /\
    f' (b, KPy) = Some (marker ++ code)%string /\ f' (b, KOrig) = Some src /\ f' (b, KJson) = Some idmap.
Proof. exact accepted_shape. Qed.
Print Assumptions C02_accepted_shape.

(* at every crash point the original source is still on disk *)
Theorem C02_original_never_lost : forall decodable transform f b src ops r n,
  f (b, KPy) = Some src -> instrument_ops decodable transform f b = (ops, r) ->
  let g := apply_ops (firstn n ops) f in g (b, KPy) = Some src \/ g (b, KOrig) = Some src.
Proof. exact original_never_lost. Qed.
Print Assumptions C02_original_never_lost.

(* every call shape the instrumenter emits names an existing runtime entry point and binds to its signature
   (both tables regenerated from the current source) *)
Theorem C02_calls_bind : forall c, In c shapes ->
  exists s, lookup_sig (fst c) rt_sigs = Some s /\ binds s (fst (snd c)) (snd (snd c)) = true.
Proof. exact every_shape_binds. Qed.
Print Assumptions C02_calls_bind.
