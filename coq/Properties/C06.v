(* C06 -- every event's file and id resolve to the exact original source construct (id-map part). *)
From Coq Require Import String List Bool Arith.
From DV Require Import Engine.IIDs Engine.Files.
Import ListNotations.

(* ids stored next to the file keep their meaning under every history of new / store / re-load *)
Theorem C06_ids_stable : forall ops st i l,
  Inv2 st -> dget i (snd st) = Some l -> dget i (snd (run ops st)) = Some l.
Proof. exact ids_stable_on_disk. Qed.
Print Assumptions C06_ids_stable.

Theorem C06_reachable_states_are_wf : forall ops, Inv2 (run ops (load None)).
Proof. intros ops. apply run_inv, init_inv. Qed.
Print Assumptions C06_reachable_states_are_wf.

Theorem C06_new_maps_to_location : forall s d l, Inv2 (s, d) -> let '(i, s') := new s l in nget i (i2l s') = Some l.
Proof. exact new_maps_to_location. Qed.
Print Assumptions C06_new_maps_to_location.

Theorem C06_new_keeps_old_ids : forall s d l, Inv2 (s, d) ->
  let '(i, s') := new s l in forall j l', nget j (i2l s) = Some l' -> nget j (i2l s') = Some l'.
Proof. exact new_fresh_or_same. Qed.
Print Assumptions C06_new_keeps_old_ids.

(* the preserved original is byte-identical to the file before instrumentation *)
Theorem C06_orig_preserved : forall decodable transform f b src f',
  f (b, KPy) = Some src -> instrument_file decodable transform f b = (f', RNone) -> f' (b, KOrig) = Some src.
Proof.
  intros d t f b src f' H1 H2. destruct (accepted_shape d t f b src f' H1 H2) as [c [m [_ [_ [O _]]]]]. exact O.
Qed.
Print Assumptions C06_orig_preserved.
