(* C11 -- filters only restrict the decorated hook. *)
From Coq Require Import String List Bool.
From DV Require Import Hooks.Filters Engine.Dispatch Engine.DispatchProofs.
Import ListNotations.

(* the filtered stream is the unfiltered stream with whole events removed: same arguments, same order *)
Theorem C11_subsequence : forall V filt_str (a : analysis V) es,
  flat_map (ev_dels V filt_str [a]) es
  = flat_map (ev_dels V filt_str [unfilter V a]) (filter (fun e => delivered V filt_str a (fst e) (snd e)) es).
Proof. exact filter_subsequence. Qed.
Print Assumptions C11_subsequence.

Theorem C11_only_exact : forall pats args p, In p pats -> In p args ->
  filtered_b [ {| bk := FOnly; bpats := pats |} ] args false = false.
Proof. exact only_exact. Qed.
Print Assumptions C11_only_exact.

Theorem C11_only_unrelated : forall pats args, (forall a, In a args -> ~ In a pats) ->
  filtered_b [ {| bk := FOnly; bpats := pats |} ] args false = true.
Proof. exact only_unrelated. Qed.
Print Assumptions C11_only_unrelated.

Theorem C11_ignore_exact : forall pats args p, In p pats -> In p args ->
  filtered_b [ {| bk := FIgnore; bpats := pats |} ] args false = true.
Proof. exact ignore_exact. Qed.
Print Assumptions C11_ignore_exact.

Theorem C11_ignore_unrelated : forall pats args, (forall a, In a args -> ~ In a pats) ->
  filtered_b [ {| bk := FIgnore; bpats := pats |} ] args false = false.
Proof. exact ignore_unrelated. Qed.
Print Assumptions C11_ignore_unrelated.

(* other analyses are untouched by a filter on one of them *)
Theorem C11_others_untouched : forall V filt_str as_path is_iid line_of (l : list (analysis V)) es i a coverage,
  nth_error l i = Some a ->
  own V i (dels (run_events V filt_str as_path is_iid line_of l es (init_state V coverage)))
  = map (set_idx V i) (dels (run_events V filt_str as_path is_iid line_of [a] es (init_state V coverage))).
Proof. exact isolation. Qed.
Print Assumptions C11_others_untouched.
