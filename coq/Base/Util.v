(* Base/Util.v -- small executable helpers on strings and association lists (stdlib only). *)
From Coq Require Import String Ascii List Bool Arith ZArith Lia.
Import ListNotations.
Open Scope string_scope.
Open Scope list_scope.

(* ------------------------------------------------------------------ strings *)
Definition str_eqb := String.eqb.

Fixpoint mem_str (x : string) (l : list string) : bool :=
  match l with [] => false | y :: r => if String.eqb x y then true else mem_str x r end.

Lemma mem_str_In x l : mem_str x l = true <-> In x l.
Proof.
  induction l as [|y r IH]; simpl; [split; [discriminate|tauto]|].
  destruct (String.eqb_spec x y) as [->|N]; [tauto|].
  rewrite IH. split; [tauto|]. intros [E|I]; [congruence|exact I].
Qed.

Fixpoint slen (s : string) : nat := match s with EmptyString => 0 | String _ r => S (slen r) end.

Fixpoint prefixb (p s : string) : bool :=
  match p, s with
  | EmptyString, _ => true
  | String a p', String b s' => if Ascii.eqb a b then prefixb p' s' else false
  | String _ _, EmptyString => false
  end.

Fixpoint sdrop (n : nat) (s : string) : string :=
  match n, s with 0, _ => s | S n', String _ r => sdrop n' r | S _, EmptyString => EmptyString end.

Fixpoint stake (n : nat) (s : string) : string :=
  match n, s with 0, _ => EmptyString | S n', String c r => String c (stake n' r) | S _, EmptyString => EmptyString end.

(* index of the first occurrence of [p] in [s] (Python str.find), None = -1 *)
Fixpoint sfind (p s : string) : option nat :=
  if prefixb p s then Some 0
  else match s with
       | EmptyString => None
       | String _ r => match sfind p r with Some k => Some (S k) | None => None end
       end.

Definition scontains (p s : string) : bool := match sfind p s with Some _ => true | None => false end.

Fixpoint suffixb_aux (fuel : nat) (p s : string) : bool :=
  match fuel with
  | 0 => String.eqb p s
  | S f => if String.eqb p s then true else match s with EmptyString => false | String _ r => suffixb_aux f p r end
  end.
Definition suffixb (p s : string) : bool :=
  let lp := slen p in let ls := slen s in
  if Nat.ltb ls lp then false else String.eqb p (sdrop (ls - lp) s).

Definition is_space (c : ascii) : bool :=
  let n := nat_of_ascii c in Nat.eqb n 32 || Nat.eqb n 9 || Nat.eqb n 10 || Nat.eqb n 13 || Nat.eqb n 11 || Nat.eqb n 12.

Fixpoint lstrip (s : string) : string :=
  match s with String c r => if is_space c then lstrip r else s | EmptyString => EmptyString end.

Fixpoint srev_acc (s acc : string) : string :=
  match s with EmptyString => acc | String c r => srev_acc r (String c acc) end.
Definition srev (s : string) : string := srev_acc s EmptyString.
Definition rstrip (s : string) : string := srev (lstrip (srev s)).
Definition strip (s : string) : string := rstrip (lstrip s).

(* Python s.split(sep) for a non-empty separator; fuel = length of s + 1 *)
Fixpoint split_aux (fuel : nat) (sep : string) (cur : string) (s : string) : list string :=
  match fuel with
  | 0 => [srev cur]
  | S f =>
    match s with
    | EmptyString => [srev cur]
    | String c r =>
      if prefixb sep s then srev cur :: split_aux f sep EmptyString (sdrop (slen sep) s)
      else split_aux f sep (String c cur) r
    end
  end.
Definition ssplit (sep s : string) : list string := split_aux (S (slen s)) sep EmptyString s.

Fixpoint sjoin (sep : string) (l : list string) : string :=
  match l with [] => "" | [x] => x | x :: r => (x ++ sep ++ sjoin sep r)%string end.

(* ------------------------------------------------------------------ association lists keyed by strings *)
Section Assoc.
  Context {V : Type}.
  Fixpoint alookup (k : string) (m : list (string * V)) : option V :=
    match m with [] => None | (k', v) :: r => if String.eqb k k' then Some v else alookup k r end.
  (* dict update: replace in place if present, else append (insertion order as in Python) *)
  Fixpoint aupdate (k : string) (v : V) (m : list (string * V)) : list (string * V) :=
    match m with
    | [] => [(k, v)]
    | (k', v') :: r => if String.eqb k k' then (k', v) :: r else (k', v') :: aupdate k v r
    end.
  Lemma alookup_aupdate_same k v m : alookup k (aupdate k v m) = Some v.
  Proof.
    induction m as [|[k' v'] r IH]; simpl; [rewrite String.eqb_refl; reflexivity|].
    destruct (String.eqb k k') eqn:E; simpl; rewrite E; [reflexivity|exact IH].
  Qed.
  Lemma alookup_aupdate_other k k2 v m : k2 <> k -> alookup k2 (aupdate k v m) = alookup k2 m.
  Proof.
    intros N. induction m as [|[k' v'] r IH]; simpl.
    - destruct (String.eqb_spec k2 k); [congruence|reflexivity].
    - destruct (String.eqb_spec k k') as [->|N2]; simpl.
      + destruct (String.eqb_spec k2 k'); [congruence|reflexivity].
      + destruct (String.eqb k2 k'); [reflexivity|exact IH].
  Qed.
End Assoc.

Fixpoint count_occ_b {A} (p : A -> bool) (l : list A) : nat :=
  match l with [] => 0 | x :: r => (if p x then 1 else 0) + count_occ_b p r end.

Lemma count_occ_b_app {A} (p : A -> bool) l1 l2 :
  count_occ_b p (l1 ++ l2) = count_occ_b p l1 + count_occ_b p l2.
Proof. induction l1 as [|x r IH]; simpl; [reflexivity|rewrite IH; lia]. Qed.
