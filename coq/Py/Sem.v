(* Py/Sem.v -- executable semantics of MiniPy over uninterpreted primitive operations, including the model
   of every runtime entry point (runtime.py) that instrumented code calls.  Everything is parametrised by
   Section variables (values, world, primitive operations): the theorems hold for every data semantics.

   Shape: [eval]/[exec] are structural recursions on syntax; program-function calls go through the
   parameter [call] (open recursion) and loops use an explicit iteration bound, both fed from the fuel of
   [run_fun] at the end of the file.  Fuel is consumed ONLY by loop iterations and program-function calls,
   so an instrumented program and its original consume identical fuel. *)
From Coq Require Import String List ZArith Bool Arith Setoid Morphisms.
From DV Require Import Base.Util Hooks.Names Engine.Dispatch Engine.DispatchProofs Py.Syntax Py.Ops Py.Instr.
Import ListNotations.
Open Scope string_scope.
Open Scope list_scope.

Section Sem.
  (* ---------------------------------------------------------------- the uninterpreted data semantics *)
  Variable val : Type.
  Variable world : Type.

  Inductive pres (A : Type) := POk (a : A) | PRaise (exc : val).
  Arguments POk {A}. Arguments PRaise {A}.

  Variable p_const : const -> val.
  Variable p_un : unop -> val -> world -> pres val * world.
  Variable p_bin : binop -> val -> val -> world -> pres val * world.
  Variable p_inplace : binop -> val -> val -> world -> pres val * world.
  Variable p_cmp : cmpop -> val -> val -> world -> pres val * world.
  Variable p_truth : val -> world -> pres bool * world.
  Variable p_getattr : val -> string -> world -> pres val * world.
  Variable p_setattr : val -> string -> val -> world -> pres unit * world.
  Variable p_getitem : val -> val -> world -> pres val * world.
  Variable p_setitem : val -> val -> val -> world -> pres unit * world.
  Variable p_call : val -> list val -> world -> pres val * world.     (* a callee that is not a program function *)
  Variable p_mklist : list val -> world -> val * world.
  Variable p_mktuple : list val -> world -> val * world.
  Variable p_tuple_of_list : val -> world -> val * world.          (* tuple(a_list): what _tuple_ does with its argument *)
  Variable p_iter : val -> world -> pres val * world.
  Variable p_next : val -> world -> pres (option val) * world.        (* None = StopIteration *)
  Variable p_exc_match : val -> val -> world -> pres bool * world.
  Variable p_exc : string -> string -> world -> val * world.          (* the interpreter's own exceptions: class, message *)
  Variable p_assertion : option val -> world -> val * world.          (* AssertionError(msg) *)
  Variable p_with_cause : val -> val -> world -> val * world.         (* raise e from c *)
  Variable p_as_exc : val -> world -> val * world.                    (* what `raise v` raises: v, an instance of the class v, or a TypeError *)
  Variable p_is_exception : val -> bool.                              (* isinstance(e, Exception): what the module wrapper catches *)
  Variable as_fun : val -> option nat.                                (* program-defined function values *)
  Variable mk_fun : nat -> val.

  (* ---------------------------------------------------------------- hook arguments and the engine *)
  Inductive earg :=
  | AV (v : val) | AS (s : string) | AI (z : Z) | AB (b : bool) | ANone
  | AL (l : list earg) | AT (l : list earg) | AThunk
  | AD                                   (* an empty dict (keyword arguments of a call without keywords) *)
  | AO (tag : string).                   (* an opaque object of the named type (traceback, ...) *)

  Variable v_filt_str : val -> option string.
  Variable v_is_int : val -> bool.

  Definition e_filt_str (a : earg) : option string :=
    match a with
    | AV v => v_filt_str v | AS s => Some s | AB true => Some "True" | AB false => Some "False" | _ => None
    end.
  Definition e_as_path (a : earg) : option string := match a with AS s => if String.eqb s "" then None else Some s | _ => None end.
  Definition e_is_iid (a : earg) : bool := match a with AI _ => true | AB _ => true | AV v => v_is_int v | _ => false end.

  Variable line_of : string -> earg -> nat.
  Variable analyses : list (analysis earg).
  Variable modpath : string.                                          (* _dynapyt_ast_ : path of the preserved original *)

  Definition arg_val (a : earg) : val :=
    match a with
    | AV v => v | AS s => p_const (KStr s) | AI z => p_const (KInt z) | AB b => p_const (KBool b) | _ => p_const KNone
    end.

  (* ---------------------------------------------------------------- state and monad *)
  Record frame := { locals : list (string * val); lnames : list string }.
  Record st := {
    w : world;
    genv : list (string * val);
    frames : list frame;
    excs : list val;                                                  (* exceptions being handled (for bare raise) *)
    eng : state earg
  }.

  Inductive res (A : Type) := Ok (a : A) | Exc (e : val) | Brk | Cnt | Ret (v : val) | Fuel | Stuck (why : string).
  Arguments Ok {A}. Arguments Exc {A}. Arguments Brk {A}. Arguments Cnt {A}. Arguments Ret {A}. Arguments Fuel {A}. Arguments Stuck {A}.

  Definition M (A : Type) := st -> res A * st.
  Definition ret {A} (a : A) : M A := fun s => (Ok a, s).
  Definition bind {A B} (m : M A) (k : A -> M B) : M B :=
    fun s => let '(r, s') := m s in
             match r with
             | Ok a => k a s'
             | Exc e => (Exc e, s') | Brk => (Brk, s') | Cnt => (Cnt, s') | Ret v => (Ret v, s')
             | Fuel => (Fuel, s') | Stuck y => (Stuck y, s')
             end.
  Notation "'do' x <- m ; k" := (bind m (fun x => k)) (at level 200, x name, m at level 100, k at level 200).
  Notation "m ;; k" := (bind m (fun _ => k)) (at level 199, right associativity).

  Definition raise {A} (e : val) : M A := fun s => (Exc e, s).
  Definition stuck {A} (y : string) : M A := fun s => (Stuck y, s).

  Definition set_w (s : st) (w' : world) : st :=
    {| w := w'; genv := genv s; frames := frames s; excs := excs s; eng := eng s |}.

  (* lift a raising primitive *)
  Definition prim {A} (p : world -> pres A * world) : M A :=
    fun s => let '(r, w') := p (w s) in
             match r with POk a => (Ok a, set_w s w') | PRaise e => (Exc e, set_w s w') end.
  Definition prim_total {A} (p : world -> A * world) : M A :=
    fun s => let '(a, w') := p (w s) in (Ok a, set_w s w').

  Definition raise_builtin {A} (cls msg : string) : M A :=
    do e <- prim_total (p_exc cls msg); raise e.

  (* ---------------------------------------------------------------- events *)
  Definition notify (f : string) (args : list earg) : M (option earg) :=
    fun s => let '(r, e') := call_if_exists earg e_filt_str e_as_path e_is_iid line_of analyses f args (eng s) in
             (Ok r, {| w := w s; genv := genv s; frames := frames s; excs := excs s; eng := e' |}).

  Definition loc (n : nid) : list earg := [AS modpath; AI (Z.of_nat n)].
  Definition ev (f : string) (n : nid) (rest : list earg) : M (option earg) := notify f (loc n ++ rest).

  (* "specific, else generic, else original" *)
  Definition sel3 (low high : option earg) (orig : val) : val :=
    match low, high with
    | Some a, _ => arg_val a
    | None, Some a => arg_val a
    | None, None => orig
    end.
  Definition sel2 (r : option earg) (orig : val) : val := match r with Some a => arg_val a | None => orig end.

  (* ---------------------------------------------------------------- names *)
  Definition lookup (x : string) : M val :=
    fun s =>
      let glob := match alookup x (genv s) with
                  | Some v => (Ok v, s)
                  | None => raise_builtin "NameError" x s
                  end in
      match frames s with
      | fr :: _ =>
        if mem_str x (lnames fr) then
          match alookup x (locals fr) with
          | Some v => (Ok v, s)
          | None => raise_builtin "UnboundLocalError" x s
          end
        else glob
      | [] => glob
      end.

  (* the instrumented read evaluates the name inside `lambda: x` (_read_(iid, lambda: x)): a function local that is
     not bound yet is a free variable of that lambda, and CPython reports the failure as a NameError ("cannot
     access free variable ..."), not as the UnboundLocalError of the original program *)
  Definition lookup_thunk (x : string) : M val :=
    fun s =>
      match frames s with
      | fr :: _ =>
        if mem_str x (lnames fr) then
          match alookup x (locals fr) with
          | Some v => (Ok v, s)
          | None => raise_builtin "NameError:free" x s
          end
        else lookup x s
      | [] => lookup x s
      end.

  Definition assign (x : string) (v : val) : M unit :=
    fun s =>
      match frames s with
      | fr :: rest =>
        if mem_str x (lnames fr) then
          (Ok tt, {| w := w s; genv := genv s; frames := {| locals := aupdate x v (locals fr); lnames := lnames fr |} :: rest; excs := excs s; eng := eng s |})
        else (Ok tt, {| w := w s; genv := aupdate x v (genv s); frames := frames s; excs := excs s; eng := eng s |})
      | [] => (Ok tt, {| w := w s; genv := aupdate x v (genv s); frames := frames s; excs := excs s; eng := eng s |})
      end.

  Fixpoint aremove {V} (k : string) (m : list (string * V)) : list (string * V) :=
    match m with [] => [] | (k', v) :: r => if String.eqb k k' then r else (k', v) :: aremove k r end.

  Definition unbind (x : string) : M unit :=
    fun s =>
      match frames s with
      | fr :: rest =>
        if mem_str x (lnames fr) then
          (Ok tt, {| w := w s; genv := genv s; frames := {| locals := aremove x (locals fr); lnames := lnames fr |} :: rest; excs := excs s; eng := eng s |})
        else (Ok tt, {| w := w s; genv := aremove x (genv s); frames := frames s; excs := excs s; eng := eng s |})
      | [] => (Ok tt, {| w := w s; genv := aremove x (genv s); frames := frames s; excs := excs s; eng := eng s |})
      end.

  Definition push_exc (e : val) : M unit :=
    fun s => (Ok tt, {| w := w s; genv := genv s; frames := frames s; excs := e :: excs s; eng := eng s |}).
  Definition pop_exc : M unit :=
    fun s => (Ok tt, {| w := w s; genv := genv s; frames := frames s; excs := tl (excs s); eng := eng s |}).
  Definition cur_exc : M (option val) := fun s => (Ok (hd_error (excs s)), s).

  Definition truth (v : val) : M bool := prim (p_truth v).

  (* catch the exceptional outcome of a computation (used by try and by the runtime's own try blocks) *)
  Definition catch {A} (m : M A) : M (res A) :=
    fun s => let '(r, s') := m s in
             match r with
             | Fuel => (Fuel, s') | Stuck y => (Stuck y, s')
             | _ => (Ok r, s')
             end.
  Definition reraise {A} (r : res A) : M A := fun s => (r, s).

  (* ================================================================ equational toolkit *)
  Section Toolkit.
    Definition meq {A} (m1 m2 : M A) : Prop := forall s, m1 s = m2 s.

    Lemma meq_refl {A} (m : M A) : meq m m. Proof. intros s; reflexivity. Qed.
    Lemma meq_sym {A} (m n : M A) : meq m n -> meq n m. Proof. intros H s; symmetry; apply H. Qed.
    Lemma meq_trans {A} (m n o : M A) : meq m n -> meq n o -> meq m o.
    Proof. intros H1 H2 s; rewrite H1; apply H2. Qed.

    Lemma bind_cong {A B} (m m' : M A) (k k' : A -> M B) :
      meq m m' -> (forall a, meq (k a) (k' a)) -> meq (bind m k) (bind m' k').
    Proof. intros H1 H2 s. unfold bind. rewrite H1. destruct (m' s) as [r s']. destruct r; try reflexivity. apply H2. Qed.

    Lemma bind_assoc {A B C} (m : M A) (k : A -> M B) (h : B -> M C) :
      meq (bind (bind m k) h) (bind m (fun a => bind (k a) h)).
    Proof. intros s. unfold bind. destruct (m s) as [r s']. destruct r; reflexivity. Qed.

    Lemma bind_ret_l {A B} (a : A) (k : A -> M B) : meq (bind (ret a) k) (k a).
    Proof. intros s; reflexivity. Qed.

    Lemma bind_ret_r {A} (m : M A) : meq (bind m ret) m.
    Proof. intros s. unfold bind, ret. destruct (m s) as [r s']. destruct r; reflexivity. Qed.

    Lemma catch_cong {A} (m m' : M A) : meq m m' -> meq (catch m) (catch m').
    Proof. intros H s. unfold catch. rewrite H. reflexivity. Qed.

    Global Instance meq_equiv {A} : Equivalence (@meq A).
    Proof. split; [exact meq_refl|exact meq_sym|exact meq_trans]. Qed.
    Global Instance bind_proper {A B} : Proper (meq ==> pointwise_relation A meq ==> meq) (@bind A B).
    Proof. intros m m' Hm k k' Hk. apply bind_cong; [exact Hm|exact Hk]. Qed.
    Global Instance catch_proper {A} : Proper (meq ==> meq) (@catch A).
    Proof. intros m m' Hm. apply catch_cong. exact Hm. Qed.
  End Toolkit.


  (* ---------------------------------------------------------------- runtime entry points (runtime.py) *)
  Definition RE (n : nid) : M unit := ev "runtime_event" n [] ;; ret tt.
  Definition CF (n : nid) : M unit := ev "control_flow_event" n [] ;; ret tt.

  Definition lit_hook (k : litk) : string :=
    match k with
    | LBool => "boolean" | LInt => "integer" | LFloat => "_float" | LStr => "string" | LImg => "imaginary" | LNone => "none"
    | LList => "_list" | LTuple => "_tuple"
    end.

  (* _bool_ _int_ _float_ _str_ _img_ _none_ _list_ (runtime.py:438-541): RE, literal, leaf; sel3.
     _tuple_: the literal result is ignored and the leaf gets (items, value) *)
  Definition rt_lit (k : litk) (n : nid) (v : val) : M val :=
    RE n ;;
    match k with
    | LTuple =>
      do tv <- prim_total (p_tuple_of_list v);
      ev "literal" n [AV tv] ;;
      do r <- ev "_tuple" n [AV v; AV tv];
      ret (sel2 r tv)
    | _ =>
      do hi <- ev "literal" n [AV v];
      do lo <- ev (lit_hook k) n [AV v];
      ret (sel3 lo hi v)
    end.

  (* _read_ (643-649) *)
  Definition rt_read (n : nid) (thunk : M val) : M val :=
    RE n ;;
    do v <- thunk;
    ev "memory_access" n [AV v] ;;
    ev "read" n [AV v] ;;
    do r <- ev "read_identifier" n [AV v];
    ret (sel2 r v).

  (* _unary_op_ (336-358) *)
  Definition rt_unary (n : nid) (code : Z) (v : val) : M val :=
    RE n ;;
    match decode unop_code all_unops code with
    | None => raise_builtin "UnboundLocalError" "result"
    | Some o =>
      do r <- (match o with
               | UNot => do b <- truth v; ret (p_const (KBool (negb b)))
               | _ => prim (p_un o v)
               end);
      ev "operation" n [AS (unop_cls o); AL [AV v]; AV r] ;;
      do hi <- ev "unary_operation" n [AS (unop_cls o); AV v; AV r];
      do lo <- ev (snake (unop_cls o)) n [AV v; AV r];
      ret (sel3 lo hi r)
    end.

  (* _binary_op_ (244-334): thunks evaluated by the runtime; and/or decide on the truth of the left operand *)
  Definition rt_binary (n : nid) (code : Z) (lt rt_ : M val) : M val :=
    RE n ;;
    match decode binop_code all_binops code with
    | Some o =>
      do l <- lt; do r <- rt_;
      do v <- prim (p_bin o l r);
      ev "operation" n [AS (binop_cls o); AL [AV l; AV r]; AV v] ;;
      do hi <- ev "binary_operation" n [AS (binop_cls o); AV l; AV r; AV v];
      do lo <- ev (snake (binop_cls o)) n [AV l; AV r; AV v];
      ret (sel3 lo hi v)
    | None =>
      match decode boolop_code all_boolops code with
      | None => raise_builtin "UnboundLocalError" "result"
      | Some o =>
        do l <- lt;
        do b <- truth l;
        (* and: right only if left is true; or: right only if left is false *)
        if (match o with BAnd => b | BOr => negb b end) then
          do r <- rt_;
          ev "operation" n [AS (boolop_cls o); AL [AV l; AV r]; AV r] ;;
          do hi <- ev "binary_operation" n [AS (boolop_cls o); AV l; AV r; AV r];
          do lo <- ev (snake (boolop_cls o)) n [AV l; AV r; AV r];
          ret (sel3 lo hi r)
        else
          (* the right THUNK itself is what the hooks see as right operand *)
          ev "operation" n [AS (boolop_cls o); AL [AV l; AThunk]; AV l] ;;
          do hi <- ev "binary_operation" n [AS (boolop_cls o); AV l; AThunk; AV l];
          do lo <- ev (snake (boolop_cls o)) n [AV l; AThunk; AV l];
          ret (sel3 lo hi l)
      end
    end.

  (* _comp_op_ (360-410): comparators already evaluated; every link computed; `result = result and tmp` *)
  Fixpoint rt_comp_links (n : nid) (left : val) (l : val) (links : list (Z * val)) (result : option val) : M val :=
    match links with
    | [] => ret (match result with Some v => v | None => p_const (KBool true) end)
    | (code, r) :: rest =>
      match decode cmpop_code all_cmpops code with
      | None => raise_builtin "UnboundLocalError" "tmp"
      | Some o =>
        do tmp <- prim (p_cmp o l r);
        ev "operation" n [AS (cmpop_cls o); AL [AV left; AV r]; AV tmp] ;;
        do hi <- ev "comparison" n [AV l; AS (cmpop_cls o); AV r; AV tmp];
        do lo <- ev (snake (cmpop_cls o)) n [AV l; AV r; AV tmp];
        let tmp' := sel3 lo hi tmp in
        (* result = result and tmp : the first time result is the constant True *)
        do res' <- (match result with
                    | None => ret tmp'
                    | Some prev => do b <- truth prev; ret (if b then tmp' else prev)
                    end);
        rt_comp_links n left r rest (Some res')
      end
    end.
  Definition rt_comp (n : nid) (left : val) (links : list (Z * val)) : M val :=
    RE n ;; rt_comp_links n left left links None.

  (* _if_expr_ (651-669) *)
  Definition rt_ifexp (n : nid) (c : val) (a b : M val) : M val :=
    RE n ;; CF n ;;
    do hi <- ev "enter_control_flow" n [AV c];
    do lo <- ev "enter_if" n [AV c];
    do t <- truth (sel3 lo hi c);
    do v <- (if t then a else b);
    RE n ;; CF n ;;
    ev "exit_control_flow" n [] ;;
    ev "exit_if" n [] ;;
    ret v.

  (* _attr_ (565-594) for names that are not private (no leading "__"); _sub_ (596-605) with one index *)
  Definition rt_attr (n : nid) (base : val) (x : string) : M val :=
    RE n ;;
    do v <- prim (p_getattr base x);
    ev "memory_access" n [AV v] ;;
    ev "read" n [AV v] ;;
    do r <- ev "read_attribute" n [AV base; AS x; AV v];
    ret (sel2 r v).
  Definition rt_sub (n : nid) (base i : val) : M val :=
    RE n ;;
    do v <- prim (p_getitem base i);
    ev "memory_access" n [AV v] ;;
    ev "read" n [AV v] ;;
    do r <- ev "read_subscript" n [AV base; AL [AV i]; AV v];
    ret (sel2 r v).

  (* _write_ (167-174) *)
  Definition rt_write (n : nid) (v : val) (ntargets : nat) : M val :=
    RE n ;;
    ev "memory_access" n [AV v] ;;
    do r <- ev "write" n [AL (repeat AThunk ntargets); AV v];
    ret (sel2 r v).

  (* _enter_if_ / _enter_while_ (749-776), _assert_ (712-716) *)
  Definition rt_enter (leaf : string) (n : nid) (c : val) : M val :=
    RE n ;; CF n ;;
    do hi <- ev "enter_control_flow" n [AV c];
    do lo <- ev leaf n [AV c];
    ret (sel3 lo hi c).
  Definition rt_assert (n : nid) (c : val) (msg : val) : M val :=
    RE n ;; CF n ;;
    do r <- ev "_assert" n [AV c; AV msg];
    ret (sel2 r c).

  (* operand-free entry points: _try_ _end_try_ _exit_if_ _exit_while_ _exit_for_ (607-615, 761-765, 778-783, 799-804) *)
  Definition rt_event (ep : string) (n : nid) : M val :=
    RE n ;; CF n ;;
    (match ep with
     | "_try_" => ev "enter_try" n [] ;; ret tt
     | "_end_try_" => ev "clean_exit_try" n [] ;; ret tt
     | "_exit_if_" => ev "exit_control_flow" n [] ;; ev "exit_if" n [] ;; ret tt
     | "_exit_while_" => ev "exit_control_flow" n [] ;; ev "exit_while" n [] ;; ev "normal_exit_while" n [] ;; ret tt
     | "_exit_for_" => ev "exit_control_flow" n [] ;; ev "exit_for" n [] ;; ev "normal_exit_for" n [] ;; ret tt
     | _ => stuck "unknown entry point"
     end) ;;
    ret (p_const KNone).

  (* _break_ / _continue_ (723-747) *)
  Definition rt_brk (isbreak : bool) (n loop : nid) (ltype : Z) : M val :=
    RE n ;; CF n ;;
    ev "exit_control_flow" loop [] ;;
    (if Z.eqb ltype 0 then ev "exit_while" loop [] ;; ret tt
     else if Z.eqb ltype 1 then ev "exit_for" loop [] ;; ret tt
     else raise_builtin "Exception" "Invalid loop type") ;;
    do r <- ev (if isbreak then "_break" else "_continue") n [AI (Z.of_nat loop)];
    ret (sel2 r (p_const (KBool true))).

  (* _return_ (682-695), _func_entry_ / _func_exit_ (671-680) *)
  Definition rt_return (n fn : nid) (name : string) (v : val) : M val :=
    RE n ;; CF n ;;
    do hi <- notify "function_exit" (loc fn ++ [AS name; AV v]);
    do lo <- ev "_return" n [AI (Z.of_nat fn); AS name; AV v];
    ret (sel3 lo hi v).
  Definition rt_func_entry (n : nid) (nparams : nat) (name : string) : M val :=
    RE n ;; CF n ;;
    ev "function_enter" n [AL (repeat AThunk nparams); AS name; AB false] ;;
    ret (p_const KNone).
  Definition rt_func_exit (n : nid) (name : string) : M val :=
    RE n ;; CF n ;;
    ev "function_exit" n [AS name; ANone] ;;
    ev "implicit_return" n [AI (Z.of_nat n); AS name; ANone] ;;
    ret (p_const KNone).

  (* _exc_ (617-620) *)
  Definition rt_exc (n : nid) (ty : earg) (name : earg) : M val :=
    RE n ;; CF n ;;
    ev "exception" n [ty; name] ;;
    ret (p_const KNone).

  (* _raise_ (622-634): the hook may substitute the (exc, cause) pair; bare raise re-raises the current exception *)
  Definition rt_raise (n : nid) (exc cause : option val) : M val :=
    RE n ;; CF n ;;
    do r <- ev "_raise" n [match exc with Some v => AV v | None => ANone end; match cause with Some v => AV v | None => ANone end];
    match r with
    | Some _ => stuck "_raise override (a pair is expected): outside the model"
    | None =>
      match exc with
      | None => do c <- cur_exc;
                match c with Some e => raise e | None => raise_builtin "RuntimeError" "No active exception to reraise" end
      | Some e0 =>
        do e <- prim_total (p_as_exc e0);
        match cause with
        | None => raise e
        | Some c => do e' <- prim_total (p_with_cause e c); raise e'
        end
      end
    end.

  (* _call_ (412-436) with positional arguments only *)
  Definition rt_call (n : nid) (callee : val) (args : list val) (do_call : val -> list val -> M val) : M val :=
    RE n ;; CF n ;;
    ev "pre_call" n [AV callee; AL (map AV args); AD] ;;
    do v <- do_call callee args;
    do r <- ev "post_call" n [AV v; AV callee; AT (map AV args); AD];
    ret (sel2 r v).

  (* _aug_assign_ (176-242): the left THUNK is evaluated by the runtime (a second evaluation of the target),
     the plain operator is computed for the event payload with every exception swallowed, and the value
     returned is the (possibly substituted) RIGHT operand *)
  Definition rt_aug (n : nid) (code : Z) (left : M val) (right : val) : M val :=
    RE n ;;
    match decode binop_code all_binops code with
    | None => raise_builtin "IndexError" "list index out of range"
    | Some o =>
      let nm := binop_cls o in
      ev "operation" n [AS nm; AL [AThunk; AV right]; ANone] ;;
      ev "binary_operation" n [AS nm; AThunk; AV right; ANone] ;;
      ev (snake nm) n [AThunk; AV right; ANone] ;;
      do nv <- (do r <- catch (do l <- left; prim (p_bin o l right));
                match r with Ok v => ret (AV v) | _ => ret ANone end);
      ev "memory_access" n [nv] ;;
      ev "write" n [AL [AThunk]; nv] ;;
      do hi <- ev "augmented_assignment" n [AThunk; AS (nm ++ "Assign"); AV right];
      do lo <- ev (get_name (snake (nm ++ "Assign"))) n [AThunk; AV right];
      ret (sel3 lo hi right)
    end.

  (* _enter_for_ (793-807): the specific hook may replace the element; a falsy answer of the generic hook to an
     element raises StopIteration (EStop), which _gen_ handles like the exhaustion of the iterator; a falsy answer
     to the report of the exhaustion itself changes nothing *)
  Inductive efr := EVal (v : option val) | EStop.
  Definition rt_enter_for (n : nid) (next : option val) (iterable : val) : M efr :=
    RE n ;; CF n ;;
    do hi <- ev "enter_control_flow" n [AB (match next with Some _ => true | None => false end)];
    do lo <- ev "enter_for" n [match next with Some v => AV v | None => AO "StopIteration()" end; AV iterable];
    match lo, hi with
    | Some a, _ => ret (EVal (Some (arg_val a)))
    | None, Some a => do t <- truth (arg_val a);
                      if t then ret (EVal next) else ret (match next with Some _ => EStop | None => EVal next end)
    | None, None => ret (EVal next)
    end.

  (* ---------------------------------------------------------------- the interpreter *)
  Section Interp.
    Variable call : nat -> list val -> M val.      (* program-function call (open recursion) *)
    Variable bound : nat.                          (* iteration bound of every loop *)

    Definition do_call (f : val) (args : list val) : M val :=
      match as_fun f with
      | Some fid => call fid args
      | None => prim (p_call f args)
      end.

    (* one unfolding of the evaluator; the recursive occurrences are parameters so that [eval_test] can fall back
       to the ordinary evaluation of the SAME expression without breaking structural recursion *)
    Definition eval_body (EV : expr -> M val) (evt_ : expr -> M bool) (evl_ : exprs -> M (list val))
               (evc_ : val -> cmps -> M val) (evr_ : rcmps -> M (list (Z * val))) (e : expr) : M val :=
      match e with
      | EConst _ c => ret (p_const c)
      | EName _ x _ => lookup x
      | EUn _ o a =>
        (match o with
         | UNot => do b <- evt_ a; ret (p_const (KBool (negb b)))
         | _ => do v <- EV a; prim (p_un o v)
         end)
      | EBin _ o a b => do l <- EV a; do r <- EV b; prim (p_bin o l r)
      | EBool _ o a b =>
        do l <- EV a; do t <- truth l;
        if (match o with BAnd => t | BOr => negb t end) then EV b else ret l
      | ECmp _ a r => do l <- EV a; evc_ l r
      | EIfExp _ c a b => do t <- evt_ c; if t then EV a else EV b
      | EAttr _ a x => do v <- EV a; prim (p_getattr v x)
      | ESub _ a i => do v <- EV a; do iv <- EV i; prim (p_getitem v iv)
      | ECall _ f args => do fv <- EV f; do vs <- evl_ args; do_call fv vs
      | EList _ es => do vs <- evl_ es; prim_total (p_mklist vs)
      | ETuple _ es => do vs <- evl_ es; prim_total (p_mktuple vs)
      (* ---- runtime calls *)
      | RLit k n a => do v <- EV a; rt_lit k n v
      | RRead n x _ => rt_read n (lookup_thunk x)
      | RUnOp n code a => do v <- EV a; rt_unary n code v
      | RBinOp n code a b => rt_binary n code (EV a) (EV b)
      | RCmpOp n a r => do l <- EV a; do links <- evr_ r; rt_comp n l links
      | RIfExp n c a b => do cv <- EV c; rt_ifexp n cv (EV a) (EV b)
      | RAttr n a x => do v <- EV a; rt_attr n v x
      | RSubs n a i => do v <- EV a; do iv <- EV i; do l <- prim_total (p_mklist [iv]); rt_sub n v iv
      | RCall n f args => do fv <- EV f; do vs <- evl_ args; rt_call n fv vs do_call
      | RWrite n a k => do v <- EV a; rt_write n v k
      | RAug n code t a => do v <- EV a; rt_aug n code (EV t) v
      | REnterIf n c => do v <- EV c; rt_enter "enter_if" n v
      | REnterWhile n c => do v <- EV c; rt_enter "enter_while" n v
      | RAssertT n c m =>
        do v <- EV c;
        do mv <- (match m with Some me => EV me | None => ret (p_const KNone) end);
        rt_assert n v mv
      | RBrk b n l t => rt_brk b n l t
      | RRet n fn name a =>
        do v <- (match a with Some ae => EV ae | None => ret (p_const KNone) end);
        rt_return n fn name v
      | REvent ep n => rt_event ep n
      | RFuncEntry n ps name => rt_func_entry n (length ps) name
      | RFuncExit n name => rt_func_exit n name
      | RExc n ty name =>
        do tv <- (match ty with Some te => do v <- EV te; ret (AV v) | None => ret ANone end);
        do nv <- (match name with Some x => do v <- lookup x; ret (AV v) | None => ret ANone end);
        rt_exc n tv nv
      | RRaise n ex ca =>
        do ev_ <- (match ex with Some a => do v <- EV a; ret (Some v) | None => ret None end);
        do cv <- (match ca with Some a => do v <- EV a; ret (Some v) | None => ret None end);
        rt_raise n ev_ cv
      | RGen n it => EV it      (* only meaningful as the iterable of a for statement, see exec *)
      end.

    Fixpoint eval (e : expr) : M val := eval_body eval eval_test eval_list eval_cmps eval_rcmps e
    (* an expression in a boolean context (test of if / while / assert / conditional expression, operand of not):
       CPython compiles and / or / not / conditional expressions there into jumps, so each operand's truth is
       tested once and the value of the boolean operation is never materialised *)
    with eval_test (e : expr) : M bool :=
      match e with
      | EBool _ BAnd a b => do t <- eval_test a; if t then eval_test b else ret false
      | EBool _ BOr a b => do t <- eval_test a; if t then ret true else eval_test b
      | EUn _ UNot a => do t <- eval_test a; ret (negb t)
      | EIfExp _ c a b => do t <- eval_test c; if t then eval_test a else eval_test b
      | _ => do v <- eval_body eval eval_test eval_list eval_cmps eval_rcmps e; truth v
      end
    with eval_list (es : exprs) : M (list val) :=
      match es with
      | Enil => ret []
      | Econs e r => do v <- eval e; do vs <- eval_list r; ret (v :: vs)
      end
    with eval_cmps (l : val) (r : cmps) : M val :=
      (* a op1 b op2 c: each comparator evaluated once, later links only if the earlier ones are true *)
      match r with
      | Cnil => ret l
      | Ccons o e Cnil => do rv <- eval e; prim (p_cmp o l rv)
      | Ccons o e rest =>
        do rv <- eval e;
        do v <- prim (p_cmp o l rv);
        do t <- truth v;
        if t then eval_cmps rv rest else ret v
      end
    with eval_rcmps (r : rcmps) : M (list (Z * val)) :=
      match r with
      | RCnil => ret []
      | RCcons code e rest => do v <- eval e; do vs <- eval_rcmps rest; ret ((code, v) :: vs)
      end.

    Definition eval_opt (o : option expr) : M (option val) :=
      match o with Some e => do v <- eval e; ret (Some v) | None => ret None end.

    Definition store (t : target) (v : val) : M unit :=
      match t with
      | TName x => assign x v
      | TAttr _ e x => do b <- eval e; prim (p_setattr b x v)
      | TSub _ e i => do b <- eval e; do iv <- eval i; prim (p_setitem b iv v)
      end.

    Fixpoint store_all (ts : list target) (v : val) : M unit :=
      match ts with [] => ret tt | t :: r => store t v ;; store_all r v end.

    (* a for loop over an iterator value: plain (gen = None) or wrapped by _gen_ (gen = Some iid) *)
    (* _gen_ (815-831): StopIteration -- of the iterator or raised by _enter_for_ -- is answered by
       _enter_for_(StopIteration) and _exit_for_; a StopIteration raised by that second _enter_for_ escapes the
       generator, which Python turns into a RuntimeError *)
    Definition gen_exhausted (n : nid) (iterable : val) : M (option val) :=
      do r2 <- rt_enter_for n None iterable;
      match r2 with
      | EVal _ => rt_event "_exit_for_" n ;; ret None
      | EStop => raise_builtin "RuntimeError" "generator raised StopIteration"
      end.
    Definition for_next (gen : option nid) (itv iterable : val) : M (option val) :=
      match gen with
      | None => prim (p_next itv)
      | Some n =>
        do nx <- prim (p_next itv);
        match nx with
        | Some v => do r <- rt_enter_for n (Some v) iterable;
                    match r with EVal x => ret x | EStop => gen_exhausted n iterable end
        | None => gen_exhausted n iterable
        end
      end.

    Fixpoint exec (s : stmt) : M unit :=
      match s with
      | SExpr e => eval e ;; ret tt
      | SAssign _ ts e => do v <- eval e; store_all ts v
      | SAug _ t o e =>
        (* target operand first, then the value, in-place operator, store *)
        match t with
        | TName x => do l <- lookup x; do r <- eval e; do v <- prim (p_inplace o l r); assign x v
        | TAttr _ be x => do b <- eval be; do l <- prim (p_getattr b x); do r <- eval e;
                          do v <- prim (p_inplace o l r); prim (p_setattr b x v)
        | TSub _ be ie => do b <- eval be; do i <- eval ie; do l <- prim (p_getitem b i); do r <- eval e;
                          do v <- prim (p_inplace o l r); prim (p_setitem b i v)
        end
      | SIf _ c body orelse => do t <- eval_test c; if t then exec_list body else exec_list orelse
      | SWhile _ c body orelse =>
        (fix loop (k : nat) : M unit :=
           match k with
           | 0 => fun s => (Fuel, s)
           | S k' =>
             do t <- eval_test c;
             if t then
               do r <- catch (exec_list body);
               match r with
               | Ok _ | Cnt => loop k'
               | Brk => ret tt
               | other => reraise other
               end
             else exec_list orelse
           end) bound
      | SFor _ x it body orelse =>
        do iterable <- eval (match it with RGen _ inner => inner | _ => it end);
        let gen := match it with RGen n _ => Some n | _ => None end in
        (* _gen_(None) returns an empty generator without iterating *)
        do itv <- prim (p_iter iterable);
        (fix loop (k : nat) : M unit :=
           match k with
           | 0 => fun s => (Fuel, s)
           | S k' =>
             do nx <- for_next gen itv iterable;
             match nx with
             | None => exec_list orelse
             | Some v =>
               assign x v ;;
               do r <- catch (exec_list body);
               match r with
               | Ok _ | Cnt => loop k'
               | Brk => ret tt
               | other => reraise other
               end
             end
           end) bound
      | SBreak _ => fun s => (Brk, s)
      | SContinue _ => fun s => (Cnt, s)
      | SPass => ret tt
      | SAssert _ c m =>
        do t <- eval_test c;
        if t then ret tt
        else do mv <- eval_opt m; do e <- prim_total (p_assertion mv); raise e
      | SRaise _ ex ca =>
        do ev_ <- eval_opt ex;
        do cv <- eval_opt ca;
        match ev_ with
        | None => do c <- cur_exc;
                  match c with Some e => raise e | None => raise_builtin "RuntimeError" "No active exception to reraise" end
        | Some e0 =>
          do e <- prim_total (p_as_exc e0);
          match cv with None => raise e | Some c => do e' <- prim_total (p_with_cause e c); raise e' end
        end
      | STry _ body hs orelse final =>
        do r <- catch (exec_list body);
        do r' <- catch (match r with
                        | Ok _ => exec_list orelse
                        | Exc e => exec_handlers e hs
                        | other => reraise other
                        end);
        do rf <- catch (exec_list final);
        match rf with Ok _ => reraise r' | other => reraise other end
      | SReturn _ e => do v <- (match e with Some a => eval a | None => ret (p_const KNone) end); fun s => (Ret v, s)
      | SDef _ fid name => assign name (mk_fun fid)
      end
    with exec_list (ss : stmts) : M unit :=
      match ss with Snil => ret tt | Scons s r => exec s ;; exec_list r end
    with exec_handlers (e : val) (hs : handlers) : M unit :=
      match hs with
      | Hnil => raise e
      | Hcons ty name body rest =>
        do m <- (match ty with None => ret true | Some te => do cls <- eval te; prim (p_exc_match e cls) end);
        if m then
          (match name with Some x => assign x e | None => ret tt end) ;;
          push_exc e ;;
          do r <- catch (exec_list body);
          pop_exc ;;
          (match name with Some x => unbind x | None => ret tt end) ;;
          reraise r
        else exec_handlers e rest
      end.
  End Interp.

  (* ================================================================ the reference semantics (specification)
     An interpreter of SOURCE programs: the language semantics of every construct, plus -- when the construct
     is covered by the selected hooks [H] -- its notifications: the generic announcement when the evaluation
     starts, then, after the operands and the operation itself, the published hooks of its kind from generic
     to specific, whose answers may replace the value ("specific, else generic, else original").
     Runtime-call constructors have no meaning here (Stuck).  *)
  Section Ref.
    Variable H : list string.
    Variable call : nat -> list val -> M val.
    Variable bound : nat.

    Definition cov (h : string) : bool := mem_str h H.
    Definition cov_us (h : string) : bool := cov h || cov ("_" ++ h)%string.
    Definition announce (on cf : bool) (n : nid) : M unit :=
      if on then RE n ;; (if cf then CF n else ret tt) else ret tt.

    Definition r_do_call (f : val) (args : list val) : M val :=
      match as_fun f with Some fid => call fid args | None => prim (p_call f args) end.

    Fixpoint cmps_cov (r : cmps) : bool :=
      match r with Cnil => false | Ccons o _ rest => cov (snake (cmpop_cls o)) || cmps_cov rest end.

    (* is this construct covered?  (the implementation's coverage policy, written over source contexts) *)
    Record rctx := { r_str : bool; r_tgt : bool }.
    Definition rc0 : rctx := {| r_str := false; r_tgt := false |}.
    Definition rc_str (c : rctx) : rctx := {| r_str := true; r_tgt := r_tgt c |}.
    Definition rc_tgt : rctx := {| r_str := true; r_tgt := true |}.

    Definition const_hook (k : const) : litk :=
      match k with KBool _ => LBool | KNone => LNone | KInt _ => LInt | KFloat _ => LFloat | KImag _ => LImg | KStr _ => LStr end.
    Definition const_cov (c : rctx) (k : const) : bool :=
      match k with
      | KBool _ => cov "boolean" && negb (r_tgt c)
      | KNone => cov "none" && negb (r_tgt c)
      | KInt _ => cov "integer" | KFloat _ => cov "_float" | KImag _ => cov "imaginary"
      | KStr _ => cov "string" && r_str c
      end.
    Definition name_cov (c : rctx) (x : string) (s : nsrc) : bool :=
      negb (mem_str x ["__file__"; "__name__"; "__doc__"; "__package__"; "__class__"; "__module__"; "__builtins__"; "__loader__"; "__spec__";
                       "__cached__"; "__annotations__"; "__all__"; "__path__"; "__docformat__"; "__version__"; "__author__"; "__email__"; "__license__"])
      && negb (r_tgt c) && cov "read_identifier" && (match s with NLocal => true | _ => false end).

    Definition rnot_events (n : nid) (v : val) (t : bool) : M (val * bool) :=
      let on := cov_us (snake (unop_cls UNot)) in
      announce on false n ;;
      let r := p_const (KBool (negb t)) in
      if on then
        ev "operation" n [AS (unop_cls UNot); AL [AV v]; AV r] ;;
        do hi <- ev "unary_operation" n [AS (unop_cls UNot); AV v; AV r];
        do lo <- ev (snake (unop_cls UNot)) n [AV v; AV r];
        match lo, hi with
        | None, None => ret (r, negb t)
        | _, _ => let v' := sel3 lo hi r in do tv <- truth v'; ret (v', tv)
        end
      else ret (r, negb t).

    Definition reval_body (rv_ : rctx -> expr -> M val) (rvt_ : rctx -> expr -> M (val * bool)) (rvl_ : rctx -> exprs -> M (list val))
               (rvc_ : rctx -> nid -> bool -> bool -> val -> val -> cmps -> M val) (c : rctx) (e : expr) : M val :=
      match e with
      | EConst n k =>
        let v := p_const k in
        if const_cov c k then
          announce true false n ;;
          do hi <- ev "literal" n [AV v];
          do lo <- ev (lit_hook (const_hook k)) n [AV v];
          ret (sel3 lo hi v)
        else ret v
      | EName n x s =>
        if name_cov c x s then
          announce true false n ;;
          do v <- lookup x;
          ev "memory_access" n [AV v] ;; ev "read" n [AV v] ;;
          do r <- ev "read_identifier" n [AV v];
          ret (sel2 r v)
        else lookup x
      | EUn n o a =>
        let on := cov_us (snake (unop_cls o)) in
        (match o with
         | UNot => do vt <- rvt_ c a; do rt_ <- rnot_events n (fst vt) (snd vt); ret (fst rt_)
         | _ =>
           do v <- rv_ c a;
           announce on false n ;;
           do r <- prim (p_un o v);
           if on then
             ev "operation" n [AS (unop_cls o); AL [AV v]; AV r] ;;
             do hi <- ev "unary_operation" n [AS (unop_cls o); AV v; AV r];
             do lo <- ev (snake (unop_cls o)) n [AV v; AV r];
             ret (sel3 lo hi r)
           else ret r
         end)
      | EBin n o a b =>
        let on := cov (snake (binop_cls o)) in
        announce on false n ;;
        do l <- rv_ (rc_str c) a; do r <- rv_ (rc_str c) b;
        do v <- prim (p_bin o l r);
        if on then
          ev "operation" n [AS (binop_cls o); AL [AV l; AV r]; AV v] ;;
          do hi <- ev "binary_operation" n [AS (binop_cls o); AV l; AV r; AV v];
          do lo <- ev (snake (binop_cls o)) n [AV l; AV r; AV v];
          ret (sel3 lo hi v)
        else ret v
      | EBool n o a b =>
        let on := cov_us (snake (boolop_cls o)) in
        announce on false n ;;
        do l <- rv_ c a; do t <- truth l;
        if (match o with BAnd => t | BOr => negb t end) then
          do r <- rv_ c b;
          if on then
            ev "operation" n [AS (boolop_cls o); AL [AV l; AV r]; AV r] ;;
            do hi <- ev "binary_operation" n [AS (boolop_cls o); AV l; AV r; AV r];
            do lo <- ev (snake (boolop_cls o)) n [AV l; AV r; AV r];
            ret (sel3 lo hi r)
          else ret r
        else
          if on then
            (* the unevaluated operand is reported as such (an opaque thunk), never evaluated *)
            ev "operation" n [AS (boolop_cls o); AL [AV l; AThunk]; AV l] ;;
            do hi <- ev "binary_operation" n [AS (boolop_cls o); AV l; AThunk; AV l];
            do lo <- ev (snake (boolop_cls o)) n [AV l; AThunk; AV l];
            ret (sel3 lo hi l)
          else ret l
      | ECmp n a r =>
        let on := cmps_cov r in
        do l <- rv_ c a;
        rvc_ c n on true l l r
      | EIfExp n t a b =>
        let on := cov "enter_if" || cov "exit_if" in
        if on then
          do vt <- (if jumpy t then do x <- rvt_ c t; ret (fst x, Some (snd x)) else do v <- rv_ c t; ret (v, None));
          announce true true n ;;
          do hi <- ev "enter_control_flow" n [AV (fst vt)];
          do lo <- ev "enter_if" n [AV (fst vt)];
          do tt_ <- (match lo, hi, snd vt with None, None, Some b_ => ret b_ | _, _, _ => truth (sel3 lo hi (fst vt)) end);
          do v <- (if tt_ then rv_ c a else rv_ c b);
          announce true true n ;;
          ev "exit_control_flow" n [] ;; ev "exit_if" n [] ;;
          ret v
        else do ct <- rvt_ c t; if snd ct then rv_ c a else rv_ c b
      | EAttr n a x =>
        do b <- rv_ c a;
        let on := cov "read_attribute" && negb (r_tgt c) in
        announce on false n ;;
        do v <- prim (p_getattr b x);
        if on then
          ev "memory_access" n [AV v] ;; ev "read" n [AV v] ;;
          do r <- ev "read_attribute" n [AV b; AS x; AV v];
          ret (sel2 r v)
        else ret v
      | ESub n a i =>
        do b <- rv_ c a; do iv <- rv_ c i;
        let on := cov "read_subscript" && negb (r_tgt c) in
        (if on then prim_total (p_mklist [iv]) ;; ret tt else ret tt) ;;
        announce on false n ;;
        do v <- prim (p_getitem b iv);
        if on then
          ev "memory_access" n [AV v] ;; ev "read" n [AV v] ;;
          do r <- ev "read_subscript" n [AV b; AL [AV iv]; AV v];
          ret (sel2 r v)
        else ret v
      | ECall n f args =>
        do fv <- rv_ c f; do vs <- rvl_ (rc_str c) args;
        let on := cov "pre_call" || cov "post_call" in
        if on then
          announce true true n ;;
          ev "pre_call" n [AV fv; AL (map AV vs); AD] ;;
          do v <- r_do_call fv vs;
          do r <- ev "post_call" n [AV v; AV fv; AT (map AV vs); AD];
          ret (sel2 r v)
        else r_do_call fv vs
      | EList n es =>
        do vs <- rvl_ c es;
        do v <- prim_total (p_mklist vs);
        if cov "_list" && negb (r_tgt c) then
          announce true false n ;;
          do hi <- ev "literal" n [AV v];
          do lo <- ev "_list" n [AV v];
          ret (sel3 lo hi v)
        else ret v
      | ETuple n es =>
        do vs <- rvl_ c es;
        if cov "_tuple" && negb (r_tgt c) then
          (* the implementation builds a list of the elements first and converts it *)
          do v <- prim_total (p_mklist vs);
          announce true false n ;;
          do tv <- prim_total (p_tuple_of_list v);
          ev "literal" n [AV tv] ;;
          do r <- ev "_tuple" n [AV v; AV tv];
          ret (sel2 r tv)
        else prim_total (p_mktuple vs)
      | _ => stuck "runtime call in a source program"
      end.

    Fixpoint reval (c : rctx) (e : expr) : M val := reval_body reval reval_tv reval_list reval_cmps c e
    (* an expression in a boolean context: the deciding value and its truth, every operand's truth tested once *)
    with reval_tv (c : rctx) (e : expr) : M (val * bool) :=
      match e with
      | EBool n o a b =>
        let on := cov_us (snake (boolop_cls o)) in
        announce on false n ;;
        do lt <- reval_tv c a;
        let '(l, t) := lt in
        if (match o with BAnd => t | BOr => negb t end) then
          do rt_ <- reval_tv c b;
          let '(r, tr) := rt_ in
          if on then
            ev "operation" n [AS (boolop_cls o); AL [AV l; AV r]; AV r] ;;
            do hi <- ev "binary_operation" n [AS (boolop_cls o); AV l; AV r; AV r];
            do lo <- ev (snake (boolop_cls o)) n [AV l; AV r; AV r];
            match lo, hi with
            | None, None => ret (r, tr)
            | _, _ => let v := sel3 lo hi r in do tv <- truth v; ret (v, tv)
            end
          else ret (r, tr)
        else
          if on then
            ev "operation" n [AS (boolop_cls o); AL [AV l; AThunk]; AV l] ;;
            do hi <- ev "binary_operation" n [AS (boolop_cls o); AV l; AThunk; AV l];
            do lo <- ev (snake (boolop_cls o)) n [AV l; AThunk; AV l];
            match lo, hi with
            | None, None => ret (l, t)
            | _, _ => let v := sel3 lo hi l in do tv <- truth v; ret (v, tv)
            end
          else ret (l, t)
      | EUn n UNot a => do vt <- reval_tv c a; rnot_events n (fst vt) (snd vt)
      | EIfExp n t a b =>
        let on := cov "enter_if" || cov "exit_if" in
        if on then
          do xt <- (if jumpy t then do x <- reval_tv c t; ret (fst x, Some (snd x))
                    else do v <- reval_body reval reval_tv reval_list reval_cmps c t; ret (v, None));
          announce true true n ;;
          do hi <- ev "enter_control_flow" n [AV (fst xt)];
          do lo <- ev "enter_if" n [AV (fst xt)];
          do tt_ <- (match lo, hi, snd xt with None, None, Some b_ => ret b_ | _, _, _ => truth (sel3 lo hi (fst xt)) end);
          do vt <- (if tt_ then reval_tv c a else reval_tv c b);
          announce true true n ;;
          ev "exit_control_flow" n [] ;; ev "exit_if" n [] ;;
          ret vt
        else do ct <- reval_tv c t; if snd ct then reval_tv c a else reval_tv c b
      | _ => do v <- reval_body reval reval_tv reval_list reval_cmps c e; do t <- truth v; ret (v, t)
      end
    with reval_list (c : rctx) (es : exprs) : M (list val) :=
      match es with
      | Enil => ret []
      | Econs e r => do v <- reval c e; do vs <- reval_list c r; ret (v :: vs)
      end
    with reval_cmps (c : rctx) (n : nid) (on ann : bool) (first l : val) (r : cmps) : M val :=
      match r with
      | Cnil => ret l
      | Ccons o e rest =>
        do rv <- reval c e;
        (* the evaluation is announced once the operands of the first link are there *)
        announce (on && ann) false n ;;
        do v <- prim (p_cmp o l rv);
        do v' <- (if on then
                    ev "operation" n [AS (cmpop_cls o); AL [AV first; AV rv]; AV v] ;;
                    do hi <- ev "comparison" n [AV l; AS (cmpop_cls o); AV rv; AV v];
                    do lo <- ev (snake (cmpop_cls o)) n [AV l; AV rv; AV v];
                    ret (sel3 lo hi v)
                  else ret v);
        match rest with
        | Cnil => ret v'
        | _ => do t <- truth v'; if t then reval_cmps c n on false first rv rest else ret v'
        end
      end.

    (* the value of a test expression for a hook that may replace it, and the (lazily computed) truth of what the
       hooks leave: a jump-compiled test has already tested its operands, any other value is tested afterwards *)
    Definition test_value (c : rctx) (e : expr) : M (val * option bool) :=
      if jumpy e then do vt <- reval_tv c e; ret (fst vt, Some (snd vt))
      else do v <- reval c e; ret (v, None).
    Definition decide (vt : val * option bool) (lo hi : option earg) : M bool :=
      match lo, hi, snd vt with
      | None, None, Some t => ret t
      | _, _, _ => truth (sel3 lo hi (fst vt))
      end.

    Definition reval_opt (c : rctx) (o : option expr) : M (option val) :=
      match o with Some e => do v <- reval c e; ret (Some v) | None => ret None end.

    Definition rstore (t : target) (v : val) : M unit :=
      match t with
      | TName x => assign x v
      | TAttr _ e x => do b <- reval rc_tgt e; prim (p_setattr b x v)
      | TSub _ e i => do b <- reval rc_tgt e; do iv <- reval rc_tgt i; prim (p_setitem b iv v)
      end.
    Fixpoint rstore_all (ts : list target) (v : val) : M unit :=
      match ts with [] => ret tt | t :: r => rstore t v ;; rstore_all r v end.

    (* enclosing loop and function, for the payload of break/continue/return events *)
    Record rsctx := { r_loop : option (nid * bool) (* true: for loop *); r_fn : option (nid * string) }.

    Definition exit_event (leaf : string) (on : bool) (n : nid) : M unit :=
      if on then announce true true n ;; ev "exit_control_flow" n [] ;; ev leaf n [] ;; ret tt else ret tt.

    Definition rbrk (k : rsctx) (isbreak : bool) (n : nid) : M unit :=
      match r_loop k with
      | Some (l, ty) =>
        if cov (if isbreak then "_break" else "_continue") then
          announce true true n ;;
          ev "exit_control_flow" l [] ;;
          (if ty then ev "exit_for" l [] else ev "exit_while" l []) ;;
          do r <- ev (if isbreak then "_break" else "_continue") n [AI (Z.of_nat l)];
          do t <- truth (sel2 r (p_const (KBool true)));
          if t then (fun s => ((if isbreak then Brk else Cnt), s)) else ret tt
        else fun s => ((if isbreak then Brk else Cnt), s)
      | None => fun s => ((if isbreak then Brk else Cnt), s)
      end.

    Definition raug_events (on : bool) (n : nid) (o : binop) (l r v : val) : M val :=
      if on then
        let nm := binop_cls o in
        announce true false n ;;
        ev "operation" n [AS nm; AL [AV l; AV r]; AV v] ;;
        ev "binary_operation" n [AS nm; AV l; AV r; AV v] ;;
        ev "memory_access" n [AV v] ;;
        ev "write" n [AL [AThunk]; AV v] ;;
        do hi <- ev "augmented_assignment" n [AV l; AS (nm ++ "Assign"); AV r];
        do lo <- ev (get_name (snake (nm ++ "Assign"))) n [AV l; AV r];
        ret (sel3 lo hi v)
      else ret v.

    (* what the answers of enter_for (lo) and enter_control_flow (hi) make of one step of a for loop: the specific
       hook replaces the element; a falsy answer of the generic hook to an element ends the loop -- exhaustion is then
       reported; an answer to the report of an exhaustion changes nothing *)
    Definition rfor_answer (n : nid) (nx : option val) (iterable : val) (lo hi : option earg) : M (option val) :=
      match lo, hi with
      | Some a, _ => ret (match nx with Some _ => Some (arg_val a) | None => None end)
      | None, Some a =>
        do t <- truth (arg_val a);
        if t then ret nx
        else
          match nx with
          | Some _ =>
            announce true true n ;;
            do hi2 <- ev "enter_control_flow" n [AB false];
            do lo2 <- ev "enter_for" n [AO "StopIteration()"; AV iterable];
            match lo2, hi2 with
            | None, Some a2 => truth (arg_val a2) ;; ret None
            | _, _ => ret None
            end
          | None => ret None
          end
      | None, None => ret nx
      end.

    Fixpoint rexec (k : rsctx) (s : stmt) : M unit :=
      match s with
      | SExpr e => reval rc0 e ;; ret tt
      | SAssign n ts e =>
        do v <- reval (rc_str rc0) e;
        do v' <- (if cov "write" then
                    announce true false n ;;
                    ev "memory_access" n [AV v] ;;
                    do r <- ev "write" n [AL (repeat AThunk (length ts)); AV v];
                    ret (sel2 r v)
                  else ret v);
        rstore_all ts v'
      | SAug n t o e =>
        (* specification: target operand (once), value, the in-place operation, its notifications with the real
           operands and result, store *)
        let on := cov "write" || cov (snake (binop_cls o ++ "Assign")) in
        match t with
        | TName x =>
          do l <- lookup x; do r <- reval (rc_str rc0) e;
          do v <- prim (p_inplace o l r);
          do v' <- raug_events on n o l r v; assign x v'
        (* coverage policy: nothing inside the target of an augmented assignment is covered (plain evaluation) *)
        | TAttr _ be x =>
          do b <- eval call be; do l <- prim (p_getattr b x); do r <- reval (rc_str rc0) e;
          do v <- prim (p_inplace o l r);
          do v' <- raug_events on n o l r v; prim (p_setattr b x v')
        | TSub _ be ie =>
          do b <- eval call be; do i <- eval call ie; do l <- prim (p_getitem b i); do r <- reval (rc_str rc0) e;
          do v <- prim (p_inplace o l r);
          do v' <- raug_events on n o l r v; prim (p_setitem b i v')
        end
      | SIf n c body orelse =>
        do t <- (if cov "enter_if" then
                   do vt <- test_value rc0 c;
                   announce true true n ;;
                   do hi <- ev "enter_control_flow" n [AV (fst vt)];
                   do lo <- ev "enter_if" n [AV (fst vt)];
                   decide vt lo hi
                 else do ct <- reval_tv rc0 c; ret (snd ct));
        (if t then rexec_list k body else rexec_list k orelse) ;;
        exit_event "exit_if" (cov "exit_if") n
      | SWhile n c body orelse =>
        let k' := {| r_loop := Some (n, false); r_fn := r_fn k |} in
        (fix loop (j : nat) : M unit :=
           match j with
           | 0 => fun s => (Fuel, s)
           | S j' =>
             do t <- (if cov "enter_while" then
                        do vt <- test_value rc0 c;
                        announce true true n ;;
                        do hi <- ev "enter_control_flow" n [AV (fst vt)];
                        do lo <- ev "enter_while" n [AV (fst vt)];
                        decide vt lo hi
                      else do ct <- reval_tv rc0 c; ret (snd ct));
             if t then
               do r <- catch (rexec_list k' body);
               match r with
               | Ok _ | Cnt => loop j'
               | Brk => ret tt
               | other => reraise other
               end
             else
               rexec_list k orelse ;;
               (if cov "normal_exit_while" then
                  announce true true n ;; ev "exit_control_flow" n [] ;; ev "exit_while" n [] ;; ev "normal_exit_while" n [] ;; ret tt
                else ret tt)
           end) bound
      | SFor n x it body orelse =>
        let k' := {| r_loop := Some (n, true); r_fn := r_fn k |} in
        do iterable <- reval rc0 it;
        do itv <- prim (p_iter iterable);
        (fix loop (j : nat) : M unit :=
           match j with
           | 0 => fun s => (Fuel, s)
           | S j' =>
             do nx <- prim (p_next itv);
             do nx' <- (if cov "enter_for" then
                          announce true true n ;;
                          do hi <- ev "enter_control_flow" n [AB (match nx with Some _ => true | None => false end)];
                          do lo <- ev "enter_for" n [match nx with Some v => AV v | None => AO "StopIteration()" end; AV iterable];
                          rfor_answer n nx iterable lo hi
                        else ret nx);
             match nx' with
             | None =>
               (* exhaustion is reported before the else clause runs *)
               (if cov "enter_for" || cov "normal_exit_for" then
                  announce true true n ;; ev "exit_control_flow" n [] ;; ev "exit_for" n [] ;; ev "normal_exit_for" n [] ;; ret tt
                else ret tt) ;;
               rexec_list k orelse
             | Some v =>
               assign x v ;;
               do r <- catch (rexec_list k' body);
               match r with
               | Ok _ | Cnt => loop j'
               | Brk => ret tt
               | other => reraise other
               end
             end
           end) bound
      | SBreak n => rbrk k true n
      | SContinue n => rbrk k false n
      | SPass => ret tt
      | SAssert n c m =>
        if cov "_assert" then
          (* the message is evaluated only if the assertion fails (and then once) *)
          do vt <- test_value rc0 c;
          announce true true n ;;
          do r <- ev "_assert" n [AV (fst vt); AV (p_const KNone)];
          do t <- decide vt r None;
          if t then ret tt else do mv2 <- reval_opt rc0 m; do e <- prim_total (p_assertion mv2); raise e
        else
          do ct <- reval_tv rc0 c;
          if snd ct then ret tt else do mv <- reval_opt rc0 m; do e <- prim_total (p_assertion mv); raise e
      | SRaise n ex ca =>
        do ev_ <- reval_opt rc0 ex;
        do cv <- reval_opt rc0 ca;
        (if cov "_raise" then
           announce true true n ;;
           do r <- ev "_raise" n [match ev_ with Some v => AV v | None => ANone end; match cv with Some v => AV v | None => ANone end];
           match r with Some _ => stuck "_raise override (a pair is expected): outside the model" | None => ret tt end
         else ret tt) ;;
        match ev_ with
        | None => do c <- cur_exc;
                  match c with Some e => raise e | None => raise_builtin "RuntimeError" "No active exception to reraise" end
        | Some e0 =>
          do e <- prim_total (p_as_exc e0);
          match cv with None => raise e | Some c => do e' <- prim_total (p_with_cause e c); raise e' end
        end
      | STry n body hs orelse final =>
        do r <- catch ((if cov "enter_try" then announce true true n ;; ev "enter_try" n [] ;; ret tt else ret tt) ;;
                       rexec_list k body);
        do r' <- catch (match r with
                        | Ok _ => rexec_list k orelse ;;
                                  (if cov "clean_exit_try" then announce true true n ;; ev "clean_exit_try" n [] ;; ret tt else ret tt)
                        | Exc e => rexec_handlers k n e hs
                        | other => reraise other
                        end);
        do rf <- catch (rexec_list k final);
        match rf with Ok _ => reraise r' | other => reraise other end
      | SReturn n e =>
        do v <- (match e with Some a => reval rc0 a | None => ret (p_const KNone) end);
        match r_fn k with
        | Some (f, name) =>
          if cov "_return" then
            announce true true n ;;
            do hi <- notify "function_exit" (loc f ++ [AS name; AV v]);
            do lo <- ev "_return" n [AI (Z.of_nat f); AS name; AV v];
            (fun s => (Ret (sel3 lo hi v), s))
          else fun s => (Ret v, s)
        | None => fun s => (Ret v, s)
        end
      | SDef _ fid name => assign name (mk_fun fid)
      end
    with rexec_list (k : rsctx) (ss : stmts) : M unit :=
      match ss with Snil => ret tt | Scons s r => rexec k s ;; rexec_list k r end
    with rexec_handlers (k : rsctx) (tryn : nid) (e : val) (hs : handlers) : M unit :=
      match hs with
      | Hnil => raise e
      | Hcons ty name body rest =>
        do tv <- reval_opt rc0 ty;
        do m <- (match tv with None => ret true | Some cls => prim (p_exc_match e cls) end);
        if m then
          (match name with Some x => assign x e | None => ret tt end) ;;
          push_exc e ;;
          do r <- catch ((if cov "exception" then
                            (* payload: the handler's type expression is evaluated again, and the bound name read *)
                            do tv2 <- reval_opt rc0 ty;
                            do nv <- (match name with Some x => do v <- lookup x; ret (AV v) | None => ret ANone end);
                            announce true true tryn ;;
                            ev "exception" tryn [match tv2 with Some v => AV v | None => ANone end; nv] ;; ret tt
                          else ret tt) ;;
                         rexec_list k body);
          pop_exc ;;
          (match name with Some x => unbind x | None => ret tt end) ;;
          reraise r
        else rexec_handlers k tryn e rest
      end.

    (* ================================================================ refinement: instrumented code vs reference *)
    Section Refinement.
      (* the data semantics this theorem is about: truth tests are pure (total, effect-free).  The concrete
         recorder objects of Concrete/CPrims.v log their __bool__ calls and are the refutation witness. *)
      Variable tr : val -> bool.
      Hypothesis truth_pure : forall v w0, p_truth v w0 = (POk (tr v), w0).
      (* the callee semantics of the instrumented side ([calli]) and of the reference side ([call], the variable
         of section Ref) agree: instantiated by induction on the call depth in refine_fun *)
      Variable calli : nat -> list val -> M val.
      Hypothesis Hcall : forall f a, meq (calli f a) (call f a).

      (* the data semantics does not tell the NameError that a read through `lambda: x` raises for an unbound
         function local from the UnboundLocalError of the direct read (KNOWN_FINDINGS: unbound_local_thunk;
         CPython does tell them apart: Properties/C01.v, refuted_unbound_local_thunk) *)
      Hypothesis unbound_same : forall x w0, p_exc "NameError:free" x w0 = p_exc "UnboundLocalError" x w0.

      Lemma lookup_thunk_eq x : meq (lookup_thunk x) (lookup x).
      Proof.
        intros s. unfold lookup_thunk, lookup. destruct (frames s) as [|fr r]; [reflexivity|].
        destruct (mem_str x (lnames fr)); [|reflexivity]. destruct (alookup x (locals fr)); [reflexivity|].
        unfold raise_builtin, bind, prim_total. rewrite unbound_same. reflexivity.
      Qed.
      Lemma rt_read_thunk n x : meq (rt_read n (lookup_thunk x)) (rt_read n (lookup x)).
      Proof. unfold rt_read. apply bind_cong; [reflexivity|intros _]. apply bind_cong; [apply lookup_thunk_eq|intros v; reflexivity]. Qed.

      Lemma set_w_same (s : st) : set_w s (w s) = s.
      Proof. destruct s; reflexivity. Qed.

      Lemma truth_ret v : meq (truth v) (ret (tr v)).
      Proof. intros s. unfold truth, prim, ret. rewrite truth_pure, set_w_same. reflexivity. Qed.

      Lemma do_call_eq f a : meq (do_call calli f a) (r_do_call f a).
      Proof. unfold do_call, r_do_call. destruct (as_fun f); [apply Hcall|reflexivity]. Qed.

      Notation ev_ := (eval calli).
      Notation evt_ := (eval_test calli).

      Lemma eval_unfold e : eval calli e = eval_body calli (eval calli) (eval_test calli) (eval_list calli) (eval_cmps calli) (eval_rcmps calli) e.
      Proof. destruct e; reflexivity. Qed.

      (* in a boolean context an expression is worth the truth of its value (for pure truth tests) *)
      Hypothesis tr_bool : forall b, tr (p_const (KBool b)) = b.

      Ltac mnorm := repeat (setoid_rewrite bind_assoc || setoid_rewrite bind_ret_l).
      Ltac mstep := apply bind_cong; [reflexivity|intros ?].
      (* normalise the head of both sides only (no rewriting under binders) *)
      Lemma meq_rw_l {A} (m m' n : M A) : meq m m' -> meq m' n -> meq m n.
      Proof. intros E1 E2 s. rewrite E1. apply E2. Qed.
      Lemma meq_rw_r {A} (m n n' : M A) : meq n n' -> meq m n' -> meq m n.
      Proof. intros E1 E2 s. rewrite E1. apply E2. Qed.
      Ltac mtop := repeat match goal with
        | |- meq (bind (bind ?m ?k) ?h) _ => apply (meq_rw_l _ _ _ (bind_assoc m k h)); cbv beta
        | |- meq (bind (ret ?a) ?k) _ => apply (meq_rw_l _ _ _ (bind_ret_l a k)); cbv beta
        | |- meq _ (bind (bind ?m ?k) ?h) => apply (meq_rw_r _ _ _ (bind_assoc m k h)); cbv beta
        | |- meq _ (bind (ret ?a) ?k) => apply (meq_rw_r _ _ _ (bind_ret_l a k)); cbv beta
        end.
      Ltac ms := mtop; mstep.
      Lemma raise_builtin_bind {A B} cls msg (k : A -> M B) : meq (bind (raise_builtin cls msg) k) (raise_builtin cls msg).
      Proof.
        Transparent raise_builtin prim_total. unfold raise_builtin. Opaque raise_builtin.
        intros s. unfold bind, prim_total, raise. destruct (p_exc cls msg (w s)). reflexivity. Opaque prim_total.
      Qed.

      Lemma eval_test_unfold e :
        eval_test calli e =
        match e with
        | EBool _ BAnd a b => bind (eval_test calli a) (fun t => if t then eval_test calli b else ret false)
        | EBool _ BOr a b => bind (eval_test calli a) (fun t => if t then ret true else eval_test calli b)
        | EUn _ UNot a => bind (eval_test calli a) (fun t => ret (negb t))
        | EIfExp _ c a b => bind (eval_test calli c) (fun t => if t then eval_test calli a else eval_test calli b)
        | _ => bind (eval calli e) (fun v => truth v)
        end.
      Proof. destruct e; try reflexivity; try (destruct o; reflexivity). Qed.

      Lemma eval_test_value : forall e, meq (eval_test calli e) (bind (eval calli e) (fun v => ret (tr v))).
      Proof.
        assert (Hdef : forall e, jumpy e = false ->
                  meq (eval_test calli e) (bind (eval calli e) (fun v => ret (tr v)))).
        { intros e Hj. rewrite eval_test_unfold.
          destruct e; try discriminate Hj; try (destruct o; try discriminate Hj);
            (apply bind_cong; [reflexivity|intros v; apply truth_ret]). }
        induction e; try (apply Hdef; reflexivity).
        - (* EUn *) destruct o; try (apply Hdef; reflexivity).
          rewrite eval_test_unfold, (eval_unfold (EUn n UNot e)). cbn [eval_body].
          rewrite IHe. mnorm. mstep. rewrite tr_bool. reflexivity.
        - (* EBool *) rewrite eval_test_unfold, (eval_unfold (EBool n o e1 e2)). cbn [eval_body]. destruct o.
          + rewrite IHe1. mnorm. mstep. setoid_rewrite truth_ret. mnorm.
            destruct (tr a) eqn:E; [apply IHe2|]. mnorm. rewrite E. reflexivity.
          + rewrite IHe1. mnorm. mstep. setoid_rewrite truth_ret. mnorm.
            destruct (tr a) eqn:E; simpl; [|apply IHe2]. mnorm. rewrite E. reflexivity.
        - (* EIfExp *) rewrite eval_test_unfold, (eval_unfold (EIfExp n e1 e2 e3)). cbn [eval_body].
          rewrite IHe1. mnorm. mstep.
          destruct (tr a); [apply IHe2|apply IHe3].
      Qed.
      Lemma reval_unfold c e : reval c e = reval_body reval reval_tv reval_list reval_cmps c e.
      Proof. destruct e; reflexivity. Qed.

      Lemma reval_tv_unfold c e :
        reval_tv c e =
        match e with
        | EBool n o a b =>
          let on := cov_us (snake (boolop_cls o)) in
          announce on false n ;;
          do lt <- reval_tv c a;
          let '(l, t) := lt in
          if (match o with BAnd => t | BOr => negb t end) then
            do rt_ <- reval_tv c b;
            let '(r, tr) := rt_ in
            if on then
              ev "operation" n [AS (boolop_cls o); AL [AV l; AV r]; AV r] ;;
              do hi <- ev "binary_operation" n [AS (boolop_cls o); AV l; AV r; AV r];
              do lo <- ev (snake (boolop_cls o)) n [AV l; AV r; AV r];
              match lo, hi with
              | None, None => ret (r, tr)
              | _, _ => let v := sel3 lo hi r in do tv <- truth v; ret (v, tv)
              end
            else ret (r, tr)
          else
            if on then
              ev "operation" n [AS (boolop_cls o); AL [AV l; AThunk]; AV l] ;;
              do hi <- ev "binary_operation" n [AS (boolop_cls o); AV l; AThunk; AV l];
              do lo <- ev (snake (boolop_cls o)) n [AV l; AThunk; AV l];
              match lo, hi with
              | None, None => ret (l, t)
              | _, _ => let v := sel3 lo hi l in do tv <- truth v; ret (v, tv)
              end
            else ret (l, t)
        | EUn n UNot a => do vt <- reval_tv c a; rnot_events n (fst vt) (snd vt)
        | EIfExp n t a b =>
          let on := cov "enter_if" || cov "exit_if" in
          if on then
            do xt <- (if jumpy t then do x <- reval_tv c t; ret (fst x, Some (snd x))
                      else do v <- reval_body reval reval_tv reval_list reval_cmps c t; ret (v, None));
            announce true true n ;;
            do hi <- ev "enter_control_flow" n [AV (fst xt)];
            do lo <- ev "enter_if" n [AV (fst xt)];
            do tt_ <- (match lo, hi, snd xt with None, None, Some b_ => ret b_ | _, _, _ => truth (sel3 lo hi (fst xt)) end);
            do vt <- (if tt_ then reval_tv c a else reval_tv c b);
            announce true true n ;;
            ev "exit_control_flow" n [] ;; ev "exit_if" n [] ;;
            ret vt
          else do ct <- reval_tv c t; if snd ct then reval_tv c a else reval_tv c b
        | _ => do v <- reval_body reval reval_tv reval_list reval_cmps c e; do t <- truth v; ret (v, t)
        end.
      Proof. destruct e; try reflexivity; try (destruct o; reflexivity). Qed.

      Ltac msteps := repeat (apply bind_cong; [reflexivity|intros ?]).
      (* keep the building blocks folded during setoid rewriting; [ufold] opens one explicitly *)
      Opaque rnot_events announce ev notify RE CF truth prim prim_total lookup raise_builtin raug_events.

      Ltac split_opts := repeat match goal with x : option earg |- _ => destruct x end.

      Lemma rnot_events_value n v :
        meq (rnot_events n v (tr v))
            (bind (rnot_events n v (tr v)) (fun x => ret (fst x, tr (fst x)))).
      Proof.
        Transparent rnot_events announce. unfold rnot_events. destruct (cov_us (snake (unop_cls UNot))); unfold announce. Opaque rnot_events announce.
        all: mnorm.
        - msteps. split_opts; mnorm; cbn [fst]; try (setoid_rewrite truth_ret; mnorm; reflexivity);
            rewrite tr_bool; reflexivity.
        - cbn [fst]. rewrite tr_bool. reflexivity.
      Qed.

      Lemma reval_tv_value : forall e c, meq (reval_tv c e) (bind (reval c e) (fun v => ret (v, tr v))).
      Proof.
        assert (Hdef : forall e c, jumpy e = false -> meq (reval_tv c e) (bind (reval c e) (fun v => ret (v, tr v)))).
        { intros e c Hj. rewrite reval_tv_unfold, reval_unfold.
          destruct e; try discriminate Hj; try (destruct o; try discriminate Hj);
            (apply bind_cong; [reflexivity|intros v; setoid_rewrite truth_ret; mnorm; reflexivity]). }
        induction e; intros cx; try (apply Hdef; reflexivity).
        - (* EUn *) destruct o; try (apply Hdef; reflexivity).
          rewrite reval_tv_unfold, (reval_unfold cx (EUn n UNot e)). cbn [reval_body].
          rewrite IHe. mnorm. mstep. cbn [fst snd].
          rewrite rnot_events_value at 1. mnorm. reflexivity.
        - (* EBool *) rewrite reval_tv_unfold, (reval_unfold cx (EBool n o e1 e2)). cbn [reval_body].
          setoid_rewrite IHe1. setoid_rewrite truth_ret. mnorm. mstep. mstep. cbn beta iota.
          destruct (match o with BAnd => tr a0 | BOr => negb (tr a0) end).
          + setoid_rewrite IHe2. mnorm. mstep. cbn beta iota.
            destruct (cov_us (snake (boolop_cls o))); mnorm; msteps; split_opts; mnorm; try reflexivity;
              setoid_rewrite truth_ret; mnorm; reflexivity.
          + destruct (cov_us (snake (boolop_cls o))); mnorm; msteps; split_opts; mnorm; try reflexivity;
              setoid_rewrite truth_ret; mnorm; reflexivity.
        - (* EIfExp *) rewrite reval_tv_unfold, (reval_unfold cx (EIfExp n e1 e2 e3)). cbn [reval_body].
          rewrite <- (reval_unfold cx e1).
          destruct (cov "enter_if" || cov "exit_if").
          + mnorm. mstep. mstep. mstep. mstep. mstep.
            destruct a3; [setoid_rewrite IHe2|setoid_rewrite IHe3]; mnorm; msteps; reflexivity.
          + setoid_rewrite IHe1. mnorm. mstep. cbn [snd].
            destruct (tr a); [apply IHe2|apply IHe3].
      Qed.


      (* ---- expressions: the instrumented expression under the runtime model = the reference semantics *)
      Definition ic (c : rctx) : ictx := {| in_str := r_str c; in_target := r_tgt c |}.

      Fixpoint cmps_len (r : cmps) : nat := match r with Cnil => 0 | Ccons _ _ x => S (cmps_len x) end.

      (* guard clause "chain_eager": no covered comparison chain of two or more links *)
      Fixpoint ok_e (e : expr) : bool :=
        match e with
        | EConst _ _ | EName _ _ _ => true
        | EUn _ _ a | EAttr _ a _ => ok_e a
        | EBin _ _ a b | EBool _ _ a b | ESub _ a b => ok_e a && ok_e b
        | ECmp _ a r => ok_e a && ok_c r && (Nat.leb (cmps_len r) 1 || negb (cmps_cov r))
        | EIfExp _ c a b => ok_e c && ok_e a && ok_e b
        | ECall _ f args => ok_e f && ok_es args
        | EList _ es | ETuple _ es => ok_es es
        | _ => false
        end
      with ok_es (es : exprs) : bool := match es with Enil => true | Econs e r => ok_e e && ok_es r end
      with ok_c (r : cmps) : bool := match r with Cnil => true | Ccons _ e r => ok_e e && ok_c r end.

      Lemma decode_unop o : decode unop_code all_unops (unop_code o) = Some o.
      Proof. destruct o; reflexivity. Qed.
      Lemma decode_binop o : decode binop_code all_binops (binop_code o) = Some o.
      Proof. destruct o; reflexivity. Qed.
      Lemma decode_boolop_bin o : decode binop_code all_binops (boolop_code o) = None.
      Proof. destruct o; reflexivity. Qed.
      Lemma decode_boolop o : decode boolop_code all_boolops (boolop_code o) = Some o.
      Proof. destruct o; reflexivity. Qed.
      Lemma decode_cmpop o : decode cmpop_code all_cmpops (cmpop_code o) = Some o.
      Proof. destruct o; reflexivity. Qed.

      Lemma any_cmp_sel_cov r : any_cmp_sel H r = cmps_cov r.
      Proof. induction r as [|o e r IH]; simpl; [reflexivity|]. rewrite IH. reflexivity. Qed.

      Lemma eval_list_unfold es :
        eval_list calli es = match es with Enil => ret [] | Econs e r => bind (eval calli e) (fun v => bind (eval_list calli r) (fun vs => ret (v :: vs))) end.
      Proof. destruct es; reflexivity. Qed.
      Lemma reval_list_unfold c es :
        reval_list c es = match es with Enil => ret [] | Econs e r => bind (reval c e) (fun v => bind (reval_list c r) (fun vs => ret (v :: vs))) end.
      Proof. destruct es; reflexivity. Qed.

      Fixpoint rlinks (c : rctx) (r : cmps) : M (list (Z * val)) :=
        match r with
        | Cnil => ret []
        | Ccons o e rest => bind (reval c e) (fun v => bind (rlinks c rest) (fun vs => ret ((cmpop_code o, v) :: vs)))
        end.

      Lemma eval_cmps_unfold l r :
        eval_cmps calli l r =
        match r with
        | Cnil => ret l
        | Ccons o e Cnil => bind (eval calli e) (fun rv => prim (p_cmp o l rv))
        | Ccons o e rest =>
          bind (eval calli e) (fun rv => bind (prim (p_cmp o l rv)) (fun v => bind (truth v) (fun t =>
            if t then eval_cmps calli rv rest else ret v)))
        end.
      Proof. destruct r as [|o e [|o2 e2 r2]]; reflexivity. Qed.

      (* ---- source expressions mean the same under the two callee semantics (used where the reference
              evaluates a sub-expression that the instrumenter leaves untouched: augmented-assignment targets) *)
      Lemma eval_unfold_g cl e : eval cl e = eval_body cl (eval cl) (eval_test cl) (eval_list cl) (eval_cmps cl) (eval_rcmps cl) e.
      Proof. destruct e; reflexivity. Qed.
      Lemma eval_test_unfold_g cl e :
        eval_test cl e =
        match e with
        | EBool _ BAnd a b => bind (eval_test cl a) (fun t => if t then eval_test cl b else ret false)
        | EBool _ BOr a b => bind (eval_test cl a) (fun t => if t then ret true else eval_test cl b)
        | EUn _ UNot a => bind (eval_test cl a) (fun t => ret (negb t))
        | EIfExp _ c a b => bind (eval_test cl c) (fun t => if t then eval_test cl a else eval_test cl b)
        | _ => bind (eval cl e) (fun v => truth v)
        end.
      Proof. destruct e; try reflexivity; try (destruct o; reflexivity). Qed.
      Lemma eval_list_unfold_g cl es :
        eval_list cl es = match es with Enil => ret [] | Econs e r => bind (eval cl e) (fun v => bind (eval_list cl r) (fun vs => ret (v :: vs))) end.
      Proof. destruct es; reflexivity. Qed.
      Lemma eval_cmps_unfold_g cl l r :
        eval_cmps cl l r =
        match r with
        | Cnil => ret l
        | Ccons o e Cnil => bind (eval cl e) (fun rv => prim (p_cmp o l rv))
        | Ccons o e rest =>
          bind (eval cl e) (fun rv => bind (prim (p_cmp o l rv)) (fun v => bind (truth v) (fun t =>
            if t then eval_cmps cl rv rest else ret v)))
        end.
      Proof. destruct r as [|o e [|o2 e2 r2]]; reflexivity. Qed.

      Ltac cg := repeat first [ reflexivity | eassumption
                              | apply bind_cong; [|intros ?]
                              | match goal with |- meq (if ?b then _ else _) (if ?b then _ else _) => destruct b end ].
      Lemma src_cong :
        (forall e, src_e e = true -> meq (eval calli e) (eval call e) /\ meq (eval_test calli e) (eval_test call e))
        /\ (forall es, src_es es = true -> meq (eval_list calli es) (eval_list call es))
        /\ (forall r, src_c r = true -> forall l, meq (eval_cmps calli l r) (eval_cmps call l r))
        /\ (forall r : rcmps, True).
      Proof.
        assert (Hdef : forall e, meq (eval calli e) (eval call e) ->
                  meq (bind (eval calli e) (fun v => truth v)) (bind (eval call e) (fun v => truth v))).
        { intros e E. rewrite E. reflexivity. }
        apply expr_all_ind; try (intros; discriminate); try (intros; exact I).
        - (* EConst *) intros n k _. split; [reflexivity|]. rewrite (eval_test_unfold_g calli), (eval_test_unfold_g call). reflexivity.
        - (* EName *) intros n x b _. split; [reflexivity|]. rewrite (eval_test_unfold_g calli), (eval_test_unfold_g call). reflexivity.
        - (* EUn *) intros n o a IHa Hs. simpl in Hs. destruct (IHa Hs) as [E1 E2].
          assert (E : meq (eval calli (EUn n o a)) (eval call (EUn n o a))).
          { rewrite (eval_unfold_g calli), (eval_unfold_g call). cbn [eval_body]. destruct o; cg. }
          split; [exact E|]. rewrite (eval_test_unfold_g calli), (eval_test_unfold_g call). destruct o; try (apply Hdef; exact E). cg.
        - (* EBin *) intros n o a IHa b IHb Hs. simpl in Hs. apply andb_true_iff in Hs; destruct Hs as [Hs1 Hs2].
          destruct (IHa Hs1) as [A1 A2]. destruct (IHb Hs2) as [B1 B2].
          assert (E : meq (eval calli (EBin n o a b)) (eval call (EBin n o a b))).
          { rewrite (eval_unfold_g calli), (eval_unfold_g call). cbn [eval_body]. cg. }
          split; [exact E|]. rewrite (eval_test_unfold_g calli), (eval_test_unfold_g call). apply Hdef; exact E.
        - (* EBool *) intros n o a IHa b IHb Hs. simpl in Hs. apply andb_true_iff in Hs; destruct Hs as [Hs1 Hs2].
          destruct (IHa Hs1) as [A1 A2]. destruct (IHb Hs2) as [B1 B2].
          split.
          + rewrite (eval_unfold_g calli), (eval_unfold_g call). cbn [eval_body]. cg.
          + rewrite (eval_test_unfold_g calli), (eval_test_unfold_g call). destruct o; cg.
        - (* ECmp *) intros n a IHa r IHr Hs. simpl in Hs. apply andb_true_iff in Hs; destruct Hs as [Hs1 Hs2].
          destruct (IHa Hs1) as [A1 A2]. specialize (IHr Hs2).
          assert (E : meq (eval calli (ECmp n a r)) (eval call (ECmp n a r))).
          { rewrite (eval_unfold_g calli), (eval_unfold_g call). cbn [eval_body]. apply bind_cong; [exact A1|intros l; apply IHr]. }
          split; [exact E|]. rewrite (eval_test_unfold_g calli), (eval_test_unfold_g call). apply Hdef; exact E.
        - (* EIfExp *) intros n c IHc a IHa b IHb Hs. simpl in Hs. apply andb_true_iff in Hs; destruct Hs as [Hs12 Hs3].
          apply andb_true_iff in Hs12; destruct Hs12 as [Hs1 Hs2].
          destruct (IHc Hs1) as [C1 C2]. destruct (IHa Hs2) as [A1 A2]. destruct (IHb Hs3) as [B1 B2].
          split.
          + rewrite (eval_unfold_g calli), (eval_unfold_g call). cbn [eval_body]. cg.
          + rewrite (eval_test_unfold_g calli), (eval_test_unfold_g call). cg.
        - (* EAttr *) intros n a IHa x Hs. simpl in Hs. destruct (IHa Hs) as [A1 A2].
          assert (E : meq (eval calli (EAttr n a x)) (eval call (EAttr n a x))).
          { rewrite (eval_unfold_g calli), (eval_unfold_g call). cbn [eval_body]. cg. }
          split; [exact E|]. rewrite (eval_test_unfold_g calli), (eval_test_unfold_g call). apply Hdef; exact E.
        - (* ESub *) intros n a IHa i IHi Hs. simpl in Hs. apply andb_true_iff in Hs; destruct Hs as [Hs1 Hs2].
          destruct (IHa Hs1) as [A1 A2]. destruct (IHi Hs2) as [B1 B2].
          assert (E : meq (eval calli (ESub n a i)) (eval call (ESub n a i))).
          { rewrite (eval_unfold_g calli), (eval_unfold_g call). cbn [eval_body]. cg. }
          split; [exact E|]. rewrite (eval_test_unfold_g calli), (eval_test_unfold_g call). apply Hdef; exact E.
        - (* ECall *) intros n f IHf args IHargs Hs. simpl in Hs. apply andb_true_iff in Hs; destruct Hs as [Hs1 Hs2].
          destruct (IHf Hs1) as [A1 A2]. specialize (IHargs Hs2).
          assert (E : meq (eval calli (ECall n f args)) (eval call (ECall n f args))).
          { rewrite (eval_unfold_g calli), (eval_unfold_g call). cbn [eval_body]. apply bind_cong; [exact A1|intros fv]. apply bind_cong; [exact IHargs|intros vs].
            unfold do_call. destruct (as_fun fv); [apply Hcall|reflexivity]. }
          split; [exact E|]. rewrite (eval_test_unfold_g calli), (eval_test_unfold_g call). apply Hdef; exact E.
        - (* EList *) intros n es IHes Hs. simpl in Hs. specialize (IHes Hs).
          assert (E : meq (eval calli (EList n es)) (eval call (EList n es))).
          { rewrite (eval_unfold_g calli), (eval_unfold_g call). cbn [eval_body]. cg. }
          split; [exact E|]. rewrite (eval_test_unfold_g calli), (eval_test_unfold_g call). apply Hdef; exact E.
        - (* ETuple *) intros n es IHes Hs. simpl in Hs. specialize (IHes Hs).
          assert (E : meq (eval calli (ETuple n es)) (eval call (ETuple n es))).
          { rewrite (eval_unfold_g calli), (eval_unfold_g call). cbn [eval_body]. cg. }
          split; [exact E|]. rewrite (eval_test_unfold_g calli), (eval_test_unfold_g call). apply Hdef; exact E.
        - (* Enil *) intros _. reflexivity.
        - (* Econs *) intros e IHe r IHr Hs. simpl in Hs. apply andb_true_iff in Hs; destruct Hs as [Hs1 Hs2].
          destruct (IHe Hs1) as [A1 A2]. specialize (IHr Hs2). rewrite (eval_list_unfold_g calli), (eval_list_unfold_g call). cg.
        - (* Cnil *) intros _ l. reflexivity.
        - (* Ccons *) intros o e IHe r IHr Hs l. simpl in Hs. apply andb_true_iff in Hs; destruct Hs as [Hs1 Hs2].
          destruct (IHe Hs1) as [A1 A2]. specialize (IHr Hs2). rewrite (eval_cmps_unfold_g calli), (eval_cmps_unfold_g call).
          destruct r as [|o2 e2 r2]; [cg|].
          apply bind_cong; [exact A1|intros rv]. cg. apply IHr.
      Qed.

      Lemma eval_rcmps_unfold r :
        eval_rcmps calli r =
        match r with
        | RCnil => ret []
        | RCcons code e rest => bind (eval calli e) (fun v => bind (eval_rcmps calli rest) (fun vs => ret ((code, v) :: vs)))
        end.
      Proof. destruct r; reflexivity. Qed.

      Lemma reval_cmps_unfold c n on ann first l r :
        reval_cmps c n on ann first l r =
        match r with
        | Cnil => ret l
        | Ccons o e rest =>
          bind (reval c e) (fun rv =>
          bind (announce (on && ann) false n) (fun _ =>
          bind (prim (p_cmp o l rv)) (fun v =>
          bind (if on then
                  bind (ev "operation" n [AS (cmpop_cls o); AL [AV first; AV rv]; AV v]) (fun _ =>
                  bind (ev "comparison" n [AV l; AS (cmpop_cls o); AV rv; AV v]) (fun hi =>
                  bind (ev (snake (cmpop_cls o)) n [AV l; AV rv; AV v]) (fun lo =>
                  ret (sel3 lo hi v))))
                else ret v) (fun v' =>
          match rest with
          | Cnil => ret v'
          | _ => bind (truth v') (fun t => if t then reval_cmps c n on false first rv rest else ret v')
          end))))
        end.
      Proof. destruct r; reflexivity. Qed.

      Lemma announce_off cf n : meq (announce false cf n) (ret tt).
      Proof. Transparent announce. unfold announce. Opaque announce. reflexivity. Qed.
      Lemma announce_on_nocf n : meq (announce true false n) (RE n).
      Proof. Transparent announce. unfold announce. Opaque announce. rewrite <- (bind_ret_r (RE n)) at 2. mstep. destruct a. reflexivity. Qed.
      Lemma announce_on_cf n : meq (announce true true n) (bind (RE n) (fun _ => CF n)).
      Proof. Transparent announce. unfold announce. Opaque announce. reflexivity. Qed.

      Lemma instr_ECall c n f args :
        instr_e H c (ECall n f args) =
        if sel H "pre_call" || sel H "post_call" then RCall n (instr_e H c f) (instr_es H (with_str c) args)
        else ECall n (instr_e H c f) (instr_es H (with_str c) args).
      Proof. reflexivity. Qed.
      Lemma instr_EList c n es :
        instr_e H c (EList n es) =
        if sel H "_list" && negb (in_target c) then RLit LList n (EList n (instr_es H c es)) else EList n (instr_es H c es).
      Proof. reflexivity. Qed.
      Lemma instr_ETuple c n es :
        instr_e H c (ETuple n es) =
        if sel H "_tuple" && negb (in_target c) then RLit LTuple n (EList n (instr_es H c es)) else ETuple n (instr_es H c es).
      Proof. reflexivity. Qed.

      Lemma instr_c_cons c o e r : instr_c H c (Ccons o e r) = Ccons o (instr_e H c e) (instr_c H c r).
      Proof. reflexivity. Qed.
      Lemma instr_rc_cons c o e r : instr_rc H c (Ccons o e r) = RCcons (cmpop_code o) (instr_e H c e) (instr_rc H c r).
      Proof. reflexivity. Qed.

      Theorem refine_expr :
        (forall e, src_e e = true -> ok_e e = true -> forall c, meq (eval calli (instr_e H (ic c) e)) (reval c e))
        /\ (forall es, src_es es = true -> ok_es es = true -> forall c, meq (eval_list calli (instr_es H (ic c) es)) (reval_list c es))
        /\ (forall r, src_c r = true -> ok_c r = true -> forall c,
              (cmps_cov r = false -> forall n ann first l,
                 meq (eval_cmps calli l (instr_c H (ic c) r)) (reval_cmps c n false ann first l r))
              /\ meq (eval_rcmps calli (instr_rc H (ic c) r)) (rlinks c r))
        /\ (forall r : rcmps, True).
      Proof.
        apply expr_all_ind; try (intros; discriminate); try (intros; exact I).
        - (* EConst *) intros n k _ _ c. rewrite reval_unfold. cbn [reval_body instr_e].
          destruct k; cbn [const_cov const_hook in_target in_str ic]; unfold sel, cov.
          all: match goal with |- context [if ?b then _ else _] => destruct b end.
          all: rewrite ?eval_unfold; cbn [eval_body]; rewrite ?eval_unfold; cbn [eval_body].
          all: try reflexivity.
          all: mnorm; unfold rt_lit; rewrite announce_on_nocf; reflexivity.
        - (* EName *) intros n x s _ _ c. rewrite reval_unfold. cbn [reval_body instr_e]. unfold name_cov, blacklist, sel, cov. cbn [in_target ic].
          match goal with |- context [mem_str x ?l] => destruct (mem_str x l) end; cbn [negb orb andb];
            [rewrite eval_unfold; reflexivity|].
          destruct (r_tgt c); cbn [negb orb andb]; [rewrite eval_unfold; reflexivity|].
          destruct (mem_str "read_identifier" H); destruct s; cbn [negb orb andb]; rewrite eval_unfold; cbn [eval_body]; try reflexivity.
          rewrite rt_read_thunk. unfold rt_read. rewrite announce_on_nocf. reflexivity.
        - (* EUn *) intros n o e IH Hs Ho c. simpl in Hs, Ho. specialize (IH Hs Ho). rewrite reval_unfold. cbn [reval_body instr_e].
          change (sel_or_us H (snake (unop_cls o))) with (cov_us (snake (unop_cls o))).
          destruct (cov_us (snake (unop_cls o))) eqn:C; rewrite eval_unfold; cbn [eval_body].
          + (* covered: _unary_op_ *)
            rewrite IH. unfold rt_unary. rewrite decode_unop.
            destruct o.
            * mstep. rewrite announce_on_nocf. mnorm. mstep. msteps. reflexivity.
            * mstep. rewrite announce_on_nocf. mnorm. mstep. msteps. reflexivity.
            * (* not *) setoid_rewrite reval_tv_value. mnorm. mstep. cbn [fst snd].
              Transparent rnot_events. unfold rnot_events. Opaque rnot_events. rewrite C.
              rewrite announce_on_nocf. setoid_rewrite truth_ret. mnorm. msteps. split_opts; mnorm; try reflexivity;
                setoid_rewrite truth_ret; mnorm; reflexivity.
            * mstep. rewrite announce_on_nocf. mnorm. mstep. msteps. reflexivity.
          + (* not covered *)
            destruct o.
            * rewrite IH. mstep. rewrite announce_off. mnorm. rewrite <- (bind_ret_r (prim (p_un UInvert a))) at 1. reflexivity.
            * rewrite IH. mstep. rewrite announce_off. mnorm. rewrite <- (bind_ret_r (prim (p_un UMinus a))) at 1. reflexivity.
            * rewrite eval_test_value. rewrite IH. setoid_rewrite reval_tv_value. mnorm. mstep. cbn [fst snd].
              Transparent rnot_events. unfold rnot_events. Opaque rnot_events. rewrite C. rewrite announce_off. mnorm. reflexivity.
            * rewrite IH. mstep. rewrite announce_off. mnorm. rewrite <- (bind_ret_r (prim (p_un UPlus a))) at 1. reflexivity.
        - (* EBin *) intros n o a IHa b IHb Hs Ho c. simpl in Hs, Ho.
          apply andb_true_iff in Hs; destruct Hs as [Hs1 Hs2]. apply andb_true_iff in Ho; destruct Ho as [Ho1 Ho2].
          specialize (IHa Hs1 Ho1 (rc_str c)). specialize (IHb Hs2 Ho2 (rc_str c)).
          rewrite reval_unfold. cbn [reval_body instr_e]. change (with_str (ic c)) with (ic (rc_str c)).
          change (sel H (snake (binop_cls o))) with (cov (snake (binop_cls o))).
          destruct (cov (snake (binop_cls o))) eqn:C; rewrite eval_unfold; cbn [eval_body].
          + unfold rt_binary. rewrite decode_binop. rewrite announce_on_nocf. mstep. rewrite IHa. mstep. rewrite IHb. mstep. msteps. reflexivity.
          + rewrite announce_off. mnorm. rewrite IHa. mstep. rewrite IHb. mstep.
            rewrite <- (bind_ret_r (prim (p_bin o a0 a1))) at 1. reflexivity.
        - (* EBool *) intros n o a IHa b IHb Hs Ho c. simpl in Hs, Ho.
          apply andb_true_iff in Hs; destruct Hs as [Hs1 Hs2]. apply andb_true_iff in Ho; destruct Ho as [Ho1 Ho2].
          specialize (IHa Hs1 Ho1 c). specialize (IHb Hs2 Ho2 c).
          rewrite reval_unfold. cbn [reval_body instr_e].
          change (sel_or_us H (snake (boolop_cls o))) with (cov_us (snake (boolop_cls o))).
          destruct (cov_us (snake (boolop_cls o))) eqn:C; rewrite eval_unfold; cbn [eval_body].
          + unfold rt_binary. rewrite decode_boolop_bin, decode_boolop. rewrite announce_on_nocf. mstep. rewrite IHa. mstep. mstep.
            destruct (match o with BAnd => a2 | BOr => negb a2 end).
            * rewrite IHb. mstep. msteps. reflexivity.
            * msteps. reflexivity.
          + rewrite announce_off. mnorm. try rewrite bind_ret_l.
            rewrite IHa. mstep. mstep.
            destruct (match o with BAnd => a1 | BOr => negb a1 end); [|reflexivity].
            rewrite IHb. rewrite <- (bind_ret_r (reval c b)) at 1. reflexivity.
        - (* ECmp *) intros n a IHa r IHr Hs Ho c. simpl in Hs, Ho.
          apply andb_true_iff in Hs; destruct Hs as [Hs1 Hs2].
          apply andb_true_iff in Ho; destruct Ho as [Ho12 Ho3]. apply andb_true_iff in Ho12; destruct Ho12 as [Ho1 Ho2].
          specialize (IHa Hs1 Ho1 c). destruct (IHr Hs2 Ho2 c) as [IHr1 IHr2].
          rewrite reval_unfold. cbn [reval_body instr_e]. rewrite any_cmp_sel_cov.
          destruct (cmps_cov r) eqn:C; rewrite eval_unfold; cbn [eval_body].
          + (* covered: exactly one link *)
            rewrite orb_false_r in Ho3.
            destruct r as [|o e [|o2 e2 r2]]; [discriminate C| |discriminate Ho3].
            rewrite IHa. mstep. rewrite IHr2. cbn [rlinks]. mnorm. rewrite reval_cmps_unfold. mstep.
            unfold rt_comp. cbn [rt_comp_links]. rewrite decode_cmpop. cbn [andb]. rewrite announce_on_nocf. mnorm.
            mstep. mstep. msteps. reflexivity.
          + rewrite IHa. mstep. apply IHr1. reflexivity.
        - (* EIfExp *) intros n t IHt a IHa b IHb Hs Ho c. simpl in Hs, Ho.
          apply andb_true_iff in Hs; destruct Hs as [Hs12 Hs3]. apply andb_true_iff in Hs12; destruct Hs12 as [Hs1 Hs2].
          apply andb_true_iff in Ho; destruct Ho as [Ho12 Ho3]. apply andb_true_iff in Ho12; destruct Ho12 as [Ho1 Ho2].
          specialize (IHt Hs1 Ho1 c). specialize (IHa Hs2 Ho2 c). specialize (IHb Hs3 Ho3 c).
          rewrite reval_unfold. cbn [reval_body instr_e].
          change (sel H "enter_if" || sel H "exit_if") with (cov "enter_if" || cov "exit_if").
          destruct (cov "enter_if" || cov "exit_if") eqn:C; rewrite eval_unfold; cbn [eval_body].
          + unfold rt_ifexp. rewrite IHt. setoid_rewrite announce_on_cf.
            destruct (jumpy t); [setoid_rewrite reval_tv_value|]; mnorm; mstep; mstep; mstep; mstep; mstep; cbn [fst snd];
              setoid_rewrite truth_ret; mnorm.
            * destruct a4, a3; unfold sel3; rewrite ?truth_ret; mnorm;
                match goal with |- context [if ?x then _ else _] => destruct x end; [rewrite IHa|rewrite IHb|rewrite IHa|rewrite IHb|rewrite IHa|rewrite IHb|rewrite IHa|rewrite IHb];
                mstep; msteps; reflexivity.
            * destruct a4, a3; unfold sel3; rewrite ?truth_ret; mnorm;
                match goal with |- context [if ?x then _ else _] => destruct x end; [rewrite IHa|rewrite IHb|rewrite IHa|rewrite IHb|rewrite IHa|rewrite IHb|rewrite IHa|rewrite IHb];
                mstep; msteps; reflexivity.
          + rewrite eval_test_value, IHt. setoid_rewrite reval_tv_value. mnorm. mstep. cbn [snd].
            destruct (tr a0); [apply IHa|apply IHb].
        - (* EAttr *) intros n a IHa x Hs Ho c. simpl in Hs, Ho. specialize (IHa Hs Ho c).
          rewrite reval_unfold. cbn [reval_body instr_e]. cbn [in_target ic].
          change (sel H "read_attribute") with (cov "read_attribute").
          destruct (cov "read_attribute" && negb (r_tgt c)) eqn:C; rewrite eval_unfold; cbn [eval_body]; rewrite IHa; mstep.
          + unfold rt_attr. rewrite announce_on_nocf. mstep. msteps. reflexivity.
          + rewrite announce_off. mnorm. try rewrite bind_ret_l. rewrite <- (bind_ret_r (prim (p_getattr a0 x))) at 1. reflexivity.
        - (* ESub *) intros n a IHa i IHi Hs Ho c. simpl in Hs, Ho.
          apply andb_true_iff in Hs; destruct Hs as [Hs1 Hs2]. apply andb_true_iff in Ho; destruct Ho as [Ho1 Ho2].
          specialize (IHa Hs1 Ho1 c). specialize (IHi Hs2 Ho2 c).
          rewrite reval_unfold. cbn [reval_body instr_e]. cbn [in_target ic].
          change (sel H "read_subscript") with (cov "read_subscript").
          destruct (cov "read_subscript" && negb (r_tgt c)) eqn:C; rewrite eval_unfold; cbn [eval_body]; rewrite IHa; mstep; rewrite IHi; mstep.
          + unfold rt_sub. mnorm. mstep. rewrite announce_on_nocf. mstep. msteps. reflexivity.
          + rewrite bind_ret_l. rewrite announce_off. mnorm. try rewrite bind_ret_l. rewrite <- (bind_ret_r (prim (p_getitem a0 a1))) at 1. reflexivity.
        - (* ECall *) intros n f IHf args IHargs Hs Ho c. simpl in Hs, Ho.
          apply andb_true_iff in Hs; destruct Hs as [Hs1 Hs2]. apply andb_true_iff in Ho; destruct Ho as [Ho1 Ho2].
          specialize (IHf Hs1 Ho1 c). specialize (IHargs Hs2 Ho2 (rc_str c)).
          rewrite reval_unfold. cbn [reval_body]. rewrite instr_ECall. change (with_str (ic c)) with (ic (rc_str c)).
          change (sel H "pre_call" || sel H "post_call") with (cov "pre_call" || cov "post_call").
          destruct (cov "pre_call" || cov "post_call") eqn:C; rewrite eval_unfold; cbn [eval_body]; rewrite IHf; mstep; rewrite IHargs; mstep.
          + unfold rt_call. rewrite announce_on_cf. mnorm. mstep. mstep. mstep. rewrite do_call_eq. msteps. reflexivity.
          + apply do_call_eq.
        - (* EList *) intros n es IHes Hs Ho c. simpl in Hs, Ho. specialize (IHes Hs Ho c).
          rewrite reval_unfold. cbn [reval_body]. rewrite instr_EList. cbn [in_target ic].
          change (sel H "_list") with (cov "_list").
          destruct (cov "_list" && negb (r_tgt c)) eqn:C; rewrite eval_unfold; cbn [eval_body].
          + rewrite eval_unfold; cbn [eval_body]. mnorm. rewrite IHes. mstep. mstep.
            unfold rt_lit. rewrite announce_on_nocf. reflexivity.
          + rewrite IHes. mstep. rewrite <- (bind_ret_r (prim_total (p_mklist a))) at 1. reflexivity.
        - (* ETuple *) intros n es IHes Hs Ho c. simpl in Hs, Ho. specialize (IHes Hs Ho c).
          rewrite reval_unfold. cbn [reval_body]. rewrite instr_ETuple. cbn [in_target ic].
          change (sel H "_tuple") with (cov "_tuple").
          destruct (cov "_tuple" && negb (r_tgt c)) eqn:C; rewrite eval_unfold; cbn [eval_body].
          + rewrite eval_unfold; cbn [eval_body]. mnorm. rewrite IHes. mstep. mstep.
            unfold rt_lit. rewrite announce_on_nocf. reflexivity.
          + rewrite IHes. reflexivity.
        - (* Enil *) intros _ _ c. reflexivity.
        - (* Econs *) intros e IHe r IHr Hs Ho c. simpl in Hs, Ho.
          apply andb_true_iff in Hs; destruct Hs as [Hs1 Hs2]. apply andb_true_iff in Ho; destruct Ho as [Ho1 Ho2].
          cbn [instr_es]. rewrite eval_list_unfold, reval_list_unfold. rewrite (IHe Hs1 Ho1 c). mstep. rewrite (IHr Hs2 Ho2 c). reflexivity.
        - (* Cnil *) intros _ _ c. split; [intros _ n ann first l; reflexivity|reflexivity].
        - (* Ccons *) intros o e IHe r IHr Hs Ho c. simpl in Hs, Ho.
          apply andb_true_iff in Hs; destruct Hs as [Hs1 Hs2]. apply andb_true_iff in Ho; destruct Ho as [Ho1 Ho2].
          specialize (IHe Hs1 Ho1 c). destruct (IHr Hs2 Ho2 c) as [IHr1 IHr2]. split.
          + intros Hc n ann first l. simpl in Hc. apply orb_false_iff in Hc. destruct Hc as [_ Hc].
            destruct r as [|o2 e2 r2].
            * rewrite instr_c_cons. change (instr_c H (ic c) Cnil) with Cnil.
              rewrite eval_cmps_unfold, reval_cmps_unfold. cbn [andb].
              rewrite IHe. mstep. rewrite announce_off. mnorm. try rewrite bind_ret_l.
              rewrite <- (bind_ret_r (prim (p_cmp o l a))) at 1. reflexivity.
            * rewrite !instr_c_cons. rewrite eval_cmps_unfold, reval_cmps_unfold. cbn [andb].
              rewrite <- instr_c_cons.
              rewrite IHe. mstep. rewrite announce_off. mnorm. try rewrite bind_ret_l.
              mstep. rewrite bind_ret_l. mstep.
              destruct a1; [|reflexivity]. apply (IHr1 Hc n false first a).
          + rewrite instr_rc_cons. cbn [rlinks]. rewrite eval_rcmps_unfold. rewrite IHe. mstep. rewrite IHr2. reflexivity.
      Qed.

      (* ---- statements *)
      Definition kc (k : rsctx) : sctx :=
        {| loop := match r_loop k with Some (l, isfor) => Some (l, if isfor then 1%Z else 0%Z) | None => None end; fn := r_fn k |}.
      Definition ok_oe (o : option expr) : bool := match o with Some e => ok_e e | None => true end.
      Definition ok_t (t : target) : bool :=
        match t with TName _ => true | TAttr _ e _ => ok_e e | TSub _ e i => ok_e e && ok_e i end.
      Definition is_some {A} (o : option A) : bool := match o with Some _ => true | None => false end.

      (* guard clauses "aug_assign" and "assert_msg_eager" (and "chain_eager" through ok_e) *)
      Fixpoint ok_s (s : stmt) : bool :=
        match s with
        | SExpr e => ok_e e
        | SAssign _ ts e => forallb ok_t ts && ok_e e
        | SAug _ t o e => ok_e e && negb (cov "write" || cov (snake (binop_cls o ++ "Assign")))
        | SIf _ c b o | SWhile _ c b o => ok_e c && ok_ss b && ok_ss o
        | SFor _ _ it b o => ok_e it && ok_ss b && ok_ss o
        | SBreak _ | SContinue _ | SPass | SDef _ _ _ => true
        | SAssert _ c m => ok_e c && ok_oe m && negb (cov "_assert" && is_some m)
        | SRaise _ e c => ok_oe e && ok_oe c
        | STry _ b hs o f => ok_ss b && ok_hs hs && ok_ss o && ok_ss f
        | SReturn _ e => ok_oe e
        end
      with ok_ss (ss : stmts) : bool := match ss with Snil => true | Scons s r => ok_s s && ok_ss r end
      with ok_hs (hs : handlers) : bool :=
        match hs with Hnil => true | Hcons ty _ b r => ok_oe ty && ok_ss b && ok_hs r end.

      Notation RE_ := (proj1 refine_expr).
      Notation REL_ := (proj1 (proj2 refine_expr)).

      Lemma refine_oe o c : src_oe o = true -> ok_oe o = true ->
        meq (eval_opt calli (instr_oe H (ic c) o)) (reval_opt c o).
      Proof.
        destruct o as [e|]; intros Hs Ho; [|reflexivity]. simpl in *. unfold eval_opt, reval_opt.
        rewrite (RE_ e Hs Ho c). reflexivity.
      Qed.

      Lemma store_refine t v : src_t t = true -> ok_t t = true ->
        meq (store calli (instr_t H t) v) (rstore t v).
      Proof.
        destruct t as [x|n e x|n e i]; intros Hs Ho; simpl in *; [reflexivity| |].
        - change tctx with (ic rc_tgt). rewrite (RE_ e Hs Ho rc_tgt). reflexivity.
        - apply andb_true_iff in Hs; destruct Hs as [Hs1 Hs2]. apply andb_true_iff in Ho; destruct Ho as [Ho1 Ho2].
          change tctx with (ic rc_tgt). rewrite (RE_ e Hs1 Ho1 rc_tgt). mstep. rewrite (RE_ i Hs2 Ho2 rc_tgt). reflexivity.
      Qed.

      Lemma store_all_refine ts v : forallb src_t ts = true -> forallb ok_t ts = true ->
        meq (store_all calli (map (instr_t H) ts) v) (rstore_all ts v).
      Proof.
        induction ts as [|t r IH]; intros Hs Ho; simpl in *; [reflexivity|].
        apply andb_true_iff in Hs; destruct Hs as [Hs1 Hs2]. apply andb_true_iff in Ho; destruct Ho as [Ho1 Ho2].
        rewrite (store_refine t v Hs1 Ho1). mstep. apply IH; assumption.
      Qed.

      Lemma exec_list_nil : exec_list calli bound Snil = ret tt. Proof. reflexivity. Qed.
      Lemma exec_list_cons s r : exec_list calli bound (Scons s r) = bind (exec calli bound s) (fun _ => exec_list calli bound r).
      Proof. reflexivity. Qed.
      Lemma rexec_list_nil k : rexec_list k Snil = ret tt. Proof. reflexivity. Qed.
      Lemma rexec_list_cons k s r : rexec_list k (Scons s r) = bind (rexec k s) (fun _ => rexec_list k r).
      Proof. reflexivity. Qed.

      Lemma exec_list_app a b :
        meq (exec_list calli bound (sapp a b)) (bind (exec_list calli bound a) (fun _ => exec_list calli bound b)).
      Proof.
        induction a as [|s r IH].
        - change (sapp Snil b) with b. rewrite exec_list_nil, bind_ret_l. reflexivity.
        - change (sapp (Scons s r) b) with (Scons s (sapp r b)). rewrite !exec_list_cons.
          rewrite bind_assoc. mstep. apply IH.
      Qed.

      Lemma test_covered leaf n c : src_e c = true -> ok_e c = true ->
        meq (bind (bind (eval calli (instr_e H c0 c)) (fun v => rt_enter leaf n v)) (fun r => truth r))
            (bind (test_value rc0 c) (fun vt =>
             bind (announce true true n) (fun _ =>
             bind (ev "enter_control_flow" n [AV (fst vt)]) (fun hi =>
             bind (ev leaf n [AV (fst vt)]) (fun lo => decide vt lo hi))))).
      Proof.
        intros Hs Ho. change c0 with (ic rc0). rewrite (RE_ c Hs Ho rc0).
        unfold test_value, rt_enter, decide. setoid_rewrite announce_on_cf.
        destruct (jumpy c); [setoid_rewrite reval_tv_value|]; mnorm; msteps; cbn [fst snd]; split_opts;
          unfold sel3; rewrite ?truth_ret; reflexivity.
      Qed.

      Lemma test_uncovered c : src_e c = true -> ok_e c = true ->
        meq (eval_test calli (instr_e H c0 c)) (bind (reval_tv rc0 c) (fun ct => ret (snd ct))).
      Proof.
        intros Hs Ho. rewrite eval_test_value. change c0 with (ic rc0). rewrite (RE_ c Hs Ho rc0).
        setoid_rewrite reval_tv_value. mnorm. reflexivity.
      Qed.

      Lemma rt_event_exit ep leaf n :
        (ep = "_exit_if_" /\ leaf = "exit_if") ->
        meq (bind (bind (eval calli (REvent ep n)) (fun _ => ret tt)) (fun _ => ret tt)) (exit_event leaf true n).
      Proof.
        intros [-> ->]. rewrite eval_unfold. cbn [eval_body]. unfold rt_event, exit_event. rewrite announce_on_cf. mnorm.
        mstep. mstep. mstep. mstep. reflexivity.
      Qed.

      Lemma instr_SIf k n c body orelse :
        instr_s H k (SIf n c body orelse) =
        (let c' := instr_e H c0 c in
         let test := if sel H "enter_if" then REnterIf n c' else c' in
         let body' := instr_ss H k body in
         let orelse' := instr_ss H k orelse in
         if sel H "exit_if" then
           SIf n test (sapp body' (s1 (rstmt (REvent "_exit_if_" n)))) (sapp orelse' (s1 (rstmt (REvent "_exit_if_" n))))
         else SIf n test body' orelse').
      Proof. reflexivity. Qed.
      Lemma instr_SWhile k n c body orelse :
        instr_s H k (SWhile n c body orelse) =
        (let k' := {| loop := Some (n, 0%Z); fn := fn k |} in
         let c' := instr_e H c0 c in
         let test := if sel H "enter_while" then REnterWhile n c' else c' in
         let body' := instr_ss H k' body in
         let orelse' := instr_ss H k orelse in
         SWhile n test body' (if sel H "normal_exit_while" then sapp orelse' (s1 (rstmt (REvent "_exit_while_" n))) else orelse')).
      Proof. reflexivity. Qed.
      Lemma instr_SFor k n x it body orelse :
        instr_s H k (SFor n x it body orelse) =
        (let k' := {| loop := Some (n, 1%Z); fn := fn k |} in
         let it' := instr_e H c0 it in
         let body' := instr_ss H k' body in
         let orelse' := instr_ss H k orelse in
         if sel H "enter_for" then SFor n x (RGen n it') body' orelse'
         else if sel H "normal_exit_for" then SFor n x it' body' (Scons (rstmt (REvent "_exit_for_" n)) orelse')
         else SFor n x it' body' orelse').
      Proof. reflexivity. Qed.
      Lemma instr_STry k n body hs orelse final :
        instr_s H k (STry n body hs orelse final) =
        (let body' := instr_ss H k body in
         let body'' := if sel H "enter_try" then Scons (rstmt (REvent "_try_" n)) body' else body' in
         let orelse' := instr_ss H k orelse in
         let orelse'' := if sel H "clean_exit_try" then sapp orelse' (s1 (rstmt (REvent "_end_try_" n))) else orelse' in
         let hs' := instr_hs H k n hs in
         let hs'' := if sel H "enter_try" || sel H "clean_exit_try" then
                       match hs' with Hnil => Hcons None None (s1 (SRaise 0 None None)) Hnil | _ => hs' end
                     else hs' in
         STry n body'' hs'' orelse'' (instr_ss H k final)).
      Proof. reflexivity. Qed.
      Lemma instr_ss_nil k : instr_ss H k Snil = Snil. Proof. reflexivity. Qed.
      Lemma instr_ss_cons k s r : instr_ss H k (Scons s r) = Scons (instr_s H k s) (instr_ss H k r). Proof. reflexivity. Qed.
      Lemma instr_hs_nil k t : instr_hs H k t Hnil = Hnil. Proof. reflexivity. Qed.
      Lemma instr_hs_cons k t ty name body rest :
        instr_hs H k t (Hcons ty name body rest) =
        (let ty' := instr_oe H c0 ty in
         let body' := instr_ss H k body in
         Hcons ty' name (if sel H "exception" then Scons (rstmt (RExc t ty' name)) body' else body') (instr_hs H k t rest)).
      Proof. reflexivity. Qed.

      Lemma exec_SIf n c body orelse :
        exec calli bound (SIf n c body orelse) =
        bind (eval_test calli c) (fun t => if t then exec_list calli bound body else exec_list calli bound orelse).
      Proof. reflexivity. Qed.
      Lemma rexec_SIf k n c body orelse :
        rexec k (SIf n c body orelse) =
        bind (if cov "enter_if" then
                bind (test_value rc0 c) (fun vt =>
                bind (announce true true n) (fun _ =>
                bind (ev "enter_control_flow" n [AV (fst vt)]) (fun hi =>
                bind (ev "enter_if" n [AV (fst vt)]) (fun lo => decide vt lo hi))))
              else bind (reval_tv rc0 c) (fun ct => ret (snd ct))) (fun t =>
        bind (if t then rexec_list k body else rexec_list k orelse) (fun _ =>
        exit_event "exit_if" (cov "exit_if") n)).
      Proof. reflexivity. Qed.

      Section WLoop.
      Variables (c : expr) (body orelse : stmts).
      Fixpoint wloop (j : nat) : M unit :=
        match j with
        | 0 => fun s => (Fuel, s)
        | S j' =>
          bind (eval_test calli c) (fun t =>
          if t then
            bind (catch (exec_list calli bound body)) (fun r =>
            match r with
            | Ok _ | Cnt => wloop j'
            | Brk => ret tt
            | other => reraise other
            end)
          else exec_list calli bound orelse)
        end.
      End WLoop.
      Lemma exec_SWhile n c body orelse : exec calli bound (SWhile n c body orelse) = wloop c body orelse bound.
      Proof. reflexivity. Qed.

      Section RWLoop.
      Variables (k : rsctx) (n : nid) (c : expr) (body orelse : stmts).
      Fixpoint rwloop (j : nat) : M unit :=
        match j with
        | 0 => fun s => (Fuel, s)
        | S j' =>
          bind (if cov "enter_while" then
                  bind (test_value rc0 c) (fun vt =>
                  bind (announce true true n) (fun _ =>
                  bind (ev "enter_control_flow" n [AV (fst vt)]) (fun hi =>
                  bind (ev "enter_while" n [AV (fst vt)]) (fun lo => decide vt lo hi))))
                else bind (reval_tv rc0 c) (fun ct => ret (snd ct))) (fun t =>
          if t then
            bind (catch (rexec_list {| r_loop := Some (n, false); r_fn := r_fn k |} body)) (fun r =>
            match r with
            | Ok _ | Cnt => rwloop j'
            | Brk => ret tt
            | other => reraise other
            end)
          else
            bind (rexec_list k orelse) (fun _ =>
            if cov "normal_exit_while" then
              bind (announce true true n) (fun _ => bind (ev "exit_control_flow" n []) (fun _ =>
              bind (ev "exit_while" n []) (fun _ => bind (ev "normal_exit_while" n []) (fun _ => ret tt))))
            else ret tt))
        end.
      End RWLoop.
      Lemma rexec_SWhile k n c body orelse : rexec k (SWhile n c body orelse) = rwloop k n c body orelse bound.
      Proof. reflexivity. Qed.

      Section FLoop.
      Variables (x : string) (gen : option nid) (itv iterable : val) (body orelse : stmts).
      Fixpoint floop (j : nat) : M unit :=
        match j with
        | 0 => fun s => (Fuel, s)
        | S j' =>
          bind (for_next gen itv iterable) (fun nx =>
          match nx with
          | None => exec_list calli bound orelse
          | Some v =>
            bind (assign x v) (fun _ =>
            bind (catch (exec_list calli bound body)) (fun r =>
            match r with
            | Ok _ | Cnt => floop j'
            | Brk => ret tt
            | other => reraise other
            end))
          end)
        end.
      End FLoop.
      Lemma exec_SFor n x it body orelse :
        exec calli bound (SFor n x it body orelse) =
        bind (eval calli (match it with RGen _ inner => inner | _ => it end)) (fun iterable =>
        bind (prim (p_iter iterable)) (fun itv =>
        floop x (match it with RGen n _ => Some n | _ => None end) itv iterable body orelse bound)).
      Proof. reflexivity. Qed.

      Definition for_exit (n : nid) : M unit :=
        bind (announce true true n) (fun _ => bind (ev "exit_control_flow" n []) (fun _ =>
        bind (ev "exit_for" n []) (fun _ => bind (ev "normal_exit_for" n []) (fun _ => ret tt)))).

      Section RFLoop.
      Variables (k : rsctx) (n : nid) (x : string) (itv iterable : val) (body orelse : stmts).
      Fixpoint rfloop (j : nat) : M unit :=
        match j with
        | 0 => fun s => (Fuel, s)
        | S j' =>
          bind (prim (p_next itv)) (fun nx =>
          bind (if cov "enter_for" then
                  bind (announce true true n) (fun _ =>
                  bind (ev "enter_control_flow" n [AB (match nx with Some _ => true | None => false end)]) (fun hi =>
                  bind (ev "enter_for" n [match nx with Some v => AV v | None => AO "StopIteration()" end; AV iterable]) (fun lo =>
                  rfor_answer n nx iterable lo hi)))
                else ret nx) (fun nx' =>
          match nx' with
          | None =>
            bind (if cov "enter_for" || cov "normal_exit_for" then for_exit n else ret tt) (fun _ => rexec_list k orelse)
          | Some v =>
            bind (assign x v) (fun _ =>
            bind (catch (rexec_list {| r_loop := Some (n, true); r_fn := r_fn k |} body)) (fun r =>
            match r with
            | Ok _ | Cnt => rfloop j'
            | Brk => ret tt
            | other => reraise other
            end))
          end))
        end.
      End RFLoop.
      Lemma rexec_SFor k n x it body orelse :
        rexec k (SFor n x it body orelse) =
        bind (reval rc0 it) (fun iterable =>
        bind (prim (p_iter iterable)) (fun itv => rfloop k n x itv iterable body orelse bound)).
      Proof. reflexivity. Qed.

      Lemma instr_not_gen e c : src_e e = true ->
        (match instr_e H c e with RGen _ inner => inner | _ => instr_e H c e end) = instr_e H c e
        /\ (match instr_e H c e with RGen n _ => Some n | _ => @None nid end) = None.
      Proof.
        intros Hs. destruct e; try discriminate Hs; cbn [instr_e];
          try match goal with k : const |- _ => destruct k end;
          repeat match goal with |- context [if ?b then _ else _] => destruct b end; split; reflexivity.
      Qed.

      Lemma exec_STry n body hs orelse final :
        exec calli bound (STry n body hs orelse final) =
        bind (catch (exec_list calli bound body)) (fun r =>
        bind (catch (match r with
                     | Ok _ => exec_list calli bound orelse
                     | Exc e => exec_handlers calli bound e hs
                     | other => reraise other
                     end)) (fun r' =>
        bind (catch (exec_list calli bound final)) (fun rf =>
        match rf with Ok _ => reraise r' | other => reraise other end))).
      Proof. reflexivity. Qed.
      Lemma rexec_STry k n body hs orelse final :
        rexec k (STry n body hs orelse final) =
        bind (catch (bind (if cov "enter_try" then bind (announce true true n) (fun _ => bind (ev "enter_try" n []) (fun _ => ret tt)) else ret tt)
                          (fun _ => rexec_list k body))) (fun r =>
        bind (catch (match r with
                     | Ok _ => bind (rexec_list k orelse) (fun _ =>
                               if cov "clean_exit_try" then bind (announce true true n) (fun _ => bind (ev "clean_exit_try" n []) (fun _ => ret tt)) else ret tt)
                     | Exc e => rexec_handlers k n e hs
                     | other => reraise other
                     end)) (fun r' =>
        bind (catch (rexec_list k final)) (fun rf =>
        match rf with Ok _ => reraise r' | other => reraise other end))).
      Proof. reflexivity. Qed.
      (* the handler "except: raise" that the instrumenter adds to a handler-less try statement *)
      Lemma bare_reraise e :
        meq (exec_handlers calli bound e (Hcons None None (s1 (SRaise 0 None None)) Hnil)) (raise e).
      Proof. intros [w1 g1 f1 x1 e1]. reflexivity. Qed.
      Lemma exec_handlers_nil e : exec_handlers calli bound e Hnil = raise e. Proof. reflexivity. Qed.
      Lemma rexec_handlers_nil k t e : rexec_handlers k t e Hnil = raise e. Proof. reflexivity. Qed.

      Lemma exec_handlers_cons e ty name body rest :
        exec_handlers calli bound e (Hcons ty name body rest) =
        bind (match ty with None => ret true | Some te => bind (eval calli te) (fun cls => prim (p_exc_match e cls)) end) (fun m =>
        if m then
          bind (match name with Some x => assign x e | None => ret tt end) (fun _ =>
          bind (push_exc e) (fun _ =>
          bind (catch (exec_list calli bound body)) (fun r =>
          bind pop_exc (fun _ =>
          bind (match name with Some x => unbind x | None => ret tt end) (fun _ => reraise r)))))
        else exec_handlers calli bound e rest).
      Proof. reflexivity. Qed.
      Lemma rexec_handlers_cons k tryn e ty name body rest :
        rexec_handlers k tryn e (Hcons ty name body rest) =
        bind (reval_opt rc0 ty) (fun tv =>
        bind (match tv with None => ret true | Some cls => prim (p_exc_match e cls) end) (fun m =>
        if m then
          bind (match name with Some x => assign x e | None => ret tt end) (fun _ =>
          bind (push_exc e) (fun _ =>
          bind (catch (bind (if cov "exception" then
                               bind (reval_opt rc0 ty) (fun tv2 =>
                               bind (match name with Some x => bind (lookup x) (fun v => ret (AV v)) | None => ret ANone end) (fun nv =>
                               bind (announce true true tryn) (fun _ =>
                               bind (ev "exception" tryn [match tv2 with Some v => AV v | None => ANone end; nv]) (fun _ => ret tt))))
                             else ret tt) (fun _ => rexec_list k body))) (fun r =>
          bind pop_exc (fun _ =>
          bind (match name with Some x => unbind x | None => ret tt end) (fun _ => reraise r)))))
        else rexec_handlers k tryn e rest)).
      Proof. reflexivity. Qed.

      (* one step of a covered for loop: the generator protocol of the runtime = the reference *)
      Lemma for_step n itv iterable (EO RO : M unit) (ES RS : val -> M unit) :
        meq EO RO -> (forall v, meq (ES v) (RS v)) ->
        meq (bind (for_next (Some n) itv iterable) (fun nx => match nx with None => EO | Some v => ES v end))
            (bind (prim (p_next itv)) (fun nx =>
             bind (bind (announce true true n) (fun _ =>
                   bind (ev "enter_control_flow" n [AB (match nx with Some _ => true | None => false end)]) (fun hi =>
                   bind (ev "enter_for" n [match nx with Some v => AV v | None => AO "StopIteration()" end; AV iterable]) (fun lo =>
                   rfor_answer n nx iterable lo hi)))) (fun nx' =>
             match nx' with
             | None => bind (for_exit n) (fun _ => RO)
             | Some v => RS v
             end))).
      Proof.
        intros HO HS. unfold for_next. ms.
        assert (Hexit : meq (bind (rt_event "_exit_for_" n) (fun _ => EO)) (bind (for_exit n) (fun _ => RO))).
        { unfold rt_event, for_exit. cbv beta iota. rewrite announce_on_cf. ms. ms. ms. ms. ms. mtop. exact HO. }
        assert (Hexit' : forall K : option val -> M unit, meq (K None) EO ->
                  meq (bind (rt_event "_exit_for_" n) (fun _ => bind (ret None) K)) (bind (for_exit n) (fun _ => RO))).
        { intros K HK. eapply meq_trans; [apply bind_cong; [reflexivity|intros ?; mtop; exact HK]|exact Hexit]. }
        (* the exhaustion protocol: _enter_for_(StopIteration) never raises *)
        assert (Hexh : forall K : option val -> M unit, meq (K None) EO ->
                  meq (bind (gen_exhausted n iterable) K)
                      (bind (announce true true n) (fun _ =>
                       bind (ev "enter_control_flow" n [AB false]) (fun hi2 =>
                       bind (ev "enter_for" n [AO "StopIteration()"; AV iterable]) (fun lo2 =>
                       bind (match lo2, hi2 with
                             | None, Some a2 => bind (truth (arg_val a2)) (fun _ => ret None)
                             | _, _ => ret None
                             end) (fun nx' => match nx' with None => bind (for_exit n) (fun _ => RO) | Some v => RS v end)))))).
        { intros K HK. unfold gen_exhausted, rt_enter_for. rewrite announce_on_cf. ms. ms. ms. ms. split_opts; mtop;
            try (apply Hexit'; exact HK).
          ms. match goal with t : bool |- _ => destruct t end; mtop; apply Hexit'; exact HK. }
        match goal with nx : option val |- _ => destruct nx as [v|] end.
        - unfold rt_enter_for. rewrite announce_on_cf. ms. ms. ms. ms. unfold rfor_answer. split_opts; mtop; try (apply HS).
          ms. match goal with t : bool |- _ => destruct t end; mtop; [apply HS|].
          eapply meq_trans; [apply Hexh; reflexivity|]. ms. ms. ms. mtop. reflexivity.
        - unfold rfor_answer, gen_exhausted, rt_enter_for. rewrite announce_on_cf. ms. ms. ms. ms. split_opts; mtop;
            try (apply (Hexit' (fun nx => match nx with Some v => ES v | None => EO end)); reflexivity).
          ms. match goal with t : bool |- _ => destruct t end; mtop;
            apply (Hexit' (fun nx => match nx with Some v => ES v | None => EO end)); reflexivity.
      Qed.

      Theorem refine_stmt :
        (forall s, src_s s = true -> ok_s s = true -> forall k, meq (exec calli bound (instr_s H (kc k) s)) (rexec k s))
        /\ (forall ss, src_ss ss = true -> ok_ss ss = true -> forall k, meq (exec_list calli bound (instr_ss H (kc k) ss)) (rexec_list k ss))
        /\ (forall hs, src_hs hs = true -> ok_hs hs = true -> forall k tryn e,
              meq (exec_handlers calli bound e (instr_hs H (kc k) tryn hs)) (rexec_handlers k tryn e hs)).
      Proof.
        apply stmt_all_ind.
        - (* SExpr *) intros e Hs Ho k. simpl in Hs, Ho. cbn [instr_s exec rexec].
          change c0 with (ic rc0). rewrite (RE_ e Hs Ho rc0). reflexivity.
        - (* SAssign *) intros n ts e Hs Ho k. simpl in Hs, Ho.
          apply andb_true_iff in Hs; destruct Hs as [Hs1 Hs2]. apply andb_true_iff in Ho; destruct Ho as [Ho1 Ho2].
          cbn [instr_s rexec]. change (with_str c0) with (ic (rc_str rc0)). change (sel H "write") with (cov "write").
          destruct (cov "write"); cbn [exec].
          + rewrite eval_unfold; cbn [eval_body]. rewrite (RE_ e Hs2 Ho2 (rc_str rc0)). mnorm. mstep.
            unfold rt_write. rewrite announce_on_nocf. mnorm. mstep. mstep. mstep. apply store_all_refine; assumption.
          + rewrite (RE_ e Hs2 Ho2 (rc_str rc0)). mnorm. mstep. apply store_all_refine; assumption.
        - (* SAug *) intros n t o e Hs Ho k. simpl in Hs, Ho.
          apply andb_true_iff in Hs; destruct Hs as [Hs1 Hs2]. apply andb_true_iff in Ho; destruct Ho as [Ho1 Ho2].
          apply negb_true_iff in Ho2.
          cbn [instr_s rexec]. change (with_str c0) with (ic (rc_str rc0)).
          change (sel H "write" || sel H (snake (binop_cls o ++ "Assign"))) with (cov "write" || cov (snake (binop_cls o ++ "Assign"))).
          rewrite Ho2. cbn [exec]. Transparent raug_events. unfold raug_events. Opaque raug_events.
          destruct t as [x|tn be x|tn be ie].
          + mstep. rewrite (RE_ e Hs2 Ho1 (rc_str rc0)). mstep. mstep. mnorm. try rewrite bind_ret_l. reflexivity.
          + simpl in Hs1. rewrite (proj1 (proj1 src_cong be Hs1)).
            mstep. mstep. rewrite (RE_ e Hs2 Ho1 (rc_str rc0)). mstep. mstep. mnorm. try rewrite bind_ret_l. reflexivity.
          + simpl in Hs1. apply andb_true_iff in Hs1; destruct Hs1 as [Hb Hi].
            rewrite (proj1 (proj1 src_cong be Hb)). mstep. rewrite (proj1 (proj1 src_cong ie Hi)).
            mstep. mstep. rewrite (RE_ e Hs2 Ho1 (rc_str rc0)). mstep. mstep. mnorm. try rewrite bind_ret_l. reflexivity.
        Opaque exec exec_list exec_handlers rexec rexec_list rexec_handlers.
        - (* SIf *) intros n c body IHb orelse IHo Hs Ho k. simpl in Hs, Ho.
          apply andb_true_iff in Hs; destruct Hs as [Hs12 Hs3]. apply andb_true_iff in Hs12; destruct Hs12 as [Hs1 Hs2].
          apply andb_true_iff in Ho; destruct Ho as [Ho12 Ho3]. apply andb_true_iff in Ho12; destruct Ho12 as [Ho1 Ho2].
          specialize (IHb Hs2 Ho2 k). specialize (IHo Hs3 Ho3 k).
          rewrite instr_SIf, rexec_SIf. cbv zeta. change (sel H "enter_if") with (cov "enter_if"). change (sel H "exit_if") with (cov "exit_if").
          assert (Hexit : forall ss, meq (exec_list calli bound (sapp ss (s1 (rstmt (REvent "_exit_if_" n)))))
                                         (bind (exec_list calli bound ss) (fun _ => exit_event "exit_if" true n))).
          { intros ss. rewrite exec_list_app. mstep. unfold s1, rstmt. rewrite exec_list_cons, exec_list_nil.
            change (exec calli bound (SExpr (REvent "_exit_if_" n))) with (bind (eval calli (REvent "_exit_if_" n)) (fun _ => ret tt)).
            apply rt_event_exit. split; reflexivity. }
          assert (Hoff : forall m : M unit, meq (bind m (fun _ => exit_event "exit_if" false n)) m).
          { intros m. unfold exit_event. rewrite <- (bind_ret_r m) at 2. mstep. destruct a. reflexivity. }
          destruct (cov "enter_if") eqn:C1; destruct (cov "exit_if") eqn:C2; rewrite exec_SIf.
          + rewrite eval_test_unfold. rewrite eval_unfold. cbn [eval_body]. rewrite (test_covered "enter_if" n c Hs1 Ho1).
            mnorm. msteps.
            destruct a3; rewrite Hexit; [rewrite IHb|rewrite IHo]; reflexivity.
          + rewrite eval_test_unfold. rewrite eval_unfold. cbn [eval_body]. rewrite (test_covered "enter_if" n c Hs1 Ho1).
            mnorm. msteps. destruct a3; rewrite Hoff; [apply IHb|apply IHo].
          + rewrite (test_uncovered c Hs1 Ho1). mnorm. mstep. cbn [snd].
            destruct (snd a); rewrite Hexit; [rewrite IHb|rewrite IHo]; reflexivity.
          + rewrite (test_uncovered c Hs1 Ho1). mnorm. mstep.
            destruct (snd a); rewrite Hoff; [apply IHb|apply IHo].
        - (* SWhile *) intros n c body IHb orelse IHo Hs Ho k. simpl in Hs, Ho.
          apply andb_true_iff in Hs; destruct Hs as [Hs12 Hs3]. apply andb_true_iff in Hs12; destruct Hs12 as [Hs1 Hs2].
          apply andb_true_iff in Ho; destruct Ho as [Ho12 Ho3]. apply andb_true_iff in Ho12; destruct Ho12 as [Ho1 Ho2].
          specialize (IHb Hs2 Ho2 {| r_loop := Some (n, false); r_fn := r_fn k |}). specialize (IHo Hs3 Ho3 k).
          rewrite instr_SWhile, exec_SWhile, rexec_SWhile. cbv zeta.
          change (sel H "enter_while") with (cov "enter_while"). change (sel H "normal_exit_while") with (cov "normal_exit_while").
          change {| loop := Some (n, 0%Z); fn := fn (kc k) |} with (kc {| r_loop := Some (n, false); r_fn := r_fn k |}).
          assert (Hexit : meq (exec_list calli bound (if cov "normal_exit_while" then sapp (instr_ss H (kc k) orelse) (s1 (rstmt (REvent "_exit_while_" n))) else instr_ss H (kc k) orelse))
                              (bind (rexec_list k orelse) (fun _ =>
                               if cov "normal_exit_while" then
                                 bind (announce true true n) (fun _ => bind (ev "exit_control_flow" n []) (fun _ =>
                                 bind (ev "exit_while" n []) (fun _ => bind (ev "normal_exit_while" n []) (fun _ => ret tt))))
                               else ret tt))).
          { destruct (cov "normal_exit_while").
            - rewrite exec_list_app, IHo. mstep. unfold s1, rstmt. rewrite exec_list_cons, exec_list_nil.
              change (exec calli bound (SExpr (REvent "_exit_while_" n))) with (bind (eval calli (REvent "_exit_while_" n)) (fun _ => ret tt)).
              rewrite eval_unfold. cbn [eval_body]. unfold rt_event. rewrite announce_on_cf. mnorm. msteps. reflexivity.
            - rewrite IHo. rewrite <- (bind_ret_r (rexec_list k orelse)) at 1. mstep. destruct a. reflexivity. }
          assert (Htest : meq (eval_test calli (if cov "enter_while" then REnterWhile n (instr_e H c0 c) else instr_e H c0 c))
                              (if cov "enter_while" then
                                 bind (test_value rc0 c) (fun vt =>
                                 bind (announce true true n) (fun _ =>
                                 bind (ev "enter_control_flow" n [AV (fst vt)]) (fun hi =>
                                 bind (ev "enter_while" n [AV (fst vt)]) (fun lo => decide vt lo hi))))
                               else bind (reval_tv rc0 c) (fun ct => ret (snd ct)))).
          { destruct (cov "enter_while").
            - rewrite eval_test_unfold. rewrite eval_unfold. cbn [eval_body]. apply (test_covered "enter_while" n c Hs1 Ho1).
            - apply (test_uncovered c Hs1 Ho1). }
          set (test := if cov "enter_while" then REnterWhile n (instr_e H c0 c) else instr_e H c0 c) in *.
          set (orelse' := if cov "normal_exit_while" then sapp (instr_ss H (kc k) orelse) (s1 (rstmt (REvent "_exit_while_" n))) else instr_ss H (kc k) orelse) in *.
          assert (Hloop : forall j, meq (wloop test (instr_ss H (kc {| r_loop := Some (n, false); r_fn := r_fn k |}) body) orelse' j) (rwloop k n c body orelse j)).
          { induction j as [|j IHj]; [reflexivity|].
            cbn [wloop rwloop]. rewrite Htest. mstep. destruct a.
            + rewrite IHb. mstep. destruct a; try reflexivity; apply IHj.
            + apply Hexit. }
          apply Hloop.
        - (* SFor *) intros n x it body IHb orelse IHo Hs Ho k. simpl in Hs, Ho.
          apply andb_true_iff in Hs; destruct Hs as [Hs12 Hs3]. apply andb_true_iff in Hs12; destruct Hs12 as [Hs1 Hs2].
          apply andb_true_iff in Ho; destruct Ho as [Ho12 Ho3]. apply andb_true_iff in Ho12; destruct Ho12 as [Ho1 Ho2].
          specialize (IHb Hs2 Ho2 {| r_loop := Some (n, true); r_fn := r_fn k |}). specialize (IHo Hs3 Ho3 k).
          rewrite instr_SFor, rexec_SFor. cbv zeta.
          change (sel H "enter_for") with (cov "enter_for"). change (sel H "normal_exit_for") with (cov "normal_exit_for").
          change {| loop := Some (n, 1%Z); fn := fn (kc k) |} with (kc {| r_loop := Some (n, true); r_fn := r_fn k |}).
          assert (Hev : meq (bind (eval calli (REvent "_exit_for_" n)) (fun _ => ret tt)) (for_exit n)).
          { rewrite eval_unfold. cbn [eval_body]. unfold rt_event, for_exit. rewrite announce_on_cf. mnorm. msteps. reflexivity. }
          destruct (cov "enter_for") eqn:C1; [|destruct (cov "normal_exit_for") eqn:C2]; rewrite exec_SFor.
          + change c0 with (ic rc0). rewrite (RE_ it Hs1 Ho1 rc0). mstep. mstep.
            assert (Hloop : forall j, meq (floop x (Some n) a0 a (instr_ss H (kc {| r_loop := Some (n, true); r_fn := r_fn k |}) body) (instr_ss H (kc k) orelse) j)
                                          (rfloop k n x a0 a body orelse j)); [|apply Hloop].
            induction j as [|j IHj]; [reflexivity|].
            cbn [floop rfloop]. rewrite C1. cbn [orb].
            apply for_step.
            * exact IHo.
            * intros v. mstep. rewrite IHb. mstep.
              match goal with r : res unit |- _ => destruct r end; try reflexivity; apply IHj.
          + destruct (instr_not_gen it c0 Hs1) as [G1 G2]. rewrite G1, G2.
            change c0 with (ic rc0). rewrite (RE_ it Hs1 Ho1 rc0). mstep. mstep.
            assert (Hloop : forall j, meq (floop x None a0 a (instr_ss H (kc {| r_loop := Some (n, true); r_fn := r_fn k |}) body)
                                                 (Scons (rstmt (REvent "_exit_for_" n)) (instr_ss H (kc k) orelse)) j)
                                          (rfloop k n x a0 a body orelse j)); [|apply Hloop].
            induction j as [|j IHj]; [reflexivity|].
            cbn [floop rfloop]. rewrite C1, C2. cbn [orb]. unfold for_next. mstep. rewrite bind_ret_l. destruct a1 as [v|].
            * mstep. rewrite IHb. mstep. match goal with r : res unit |- _ => destruct r end; try reflexivity; apply IHj.
            * unfold rstmt. rewrite exec_list_cons. Transparent exec. cbn [exec]. Opaque exec.
              apply bind_cong; [exact Hev|intros ?; exact IHo].
          + destruct (instr_not_gen it c0 Hs1) as [G1 G2]. rewrite G1, G2.
            change c0 with (ic rc0). rewrite (RE_ it Hs1 Ho1 rc0). mstep. mstep.
            assert (Hloop : forall j, meq (floop x None a0 a (instr_ss H (kc {| r_loop := Some (n, true); r_fn := r_fn k |}) body) (instr_ss H (kc k) orelse) j)
                                          (rfloop k n x a0 a body orelse j)); [|apply Hloop].
            induction j as [|j IHj]; [reflexivity|].
            cbn [floop rfloop]. rewrite C1, C2. cbn [orb]. unfold for_next. mstep. rewrite bind_ret_l. destruct a1 as [v|].
            * mstep. rewrite IHb. mstep. match goal with r : res unit |- _ => destruct r end; try reflexivity; apply IHj.
            * rewrite bind_ret_l. exact IHo.
        - (* SBreak *) intros n _ _ k. cbn [instr_s]. Transparent rexec. cbn [rexec]. Opaque rexec. unfold rbrk.
          change (loop (kc k)) with (match r_loop k with Some (l, isfor) => Some (l, if isfor then 1%Z else 0%Z) | None => None end).
          destruct (r_loop k) as [[l ty]|]; [|reflexivity].
          change (sel H "_break") with (cov "_break"). destruct (cov "_break"); [|reflexivity].
          rewrite exec_SIf, eval_test_unfold, eval_unfold. cbn [eval_body]. unfold rt_brk. rewrite announce_on_cf.
          rewrite (bind_assoc (RE n) (fun _ => CF n)). destruct ty; cbn [Z.eqb Pos.eqb]; do 6 (mtop; mstep); mtop;
            (destruct a4; [unfold s1; rewrite exec_list_cons, exec_list_nil; intros s; reflexivity | rewrite exec_list_nil; reflexivity]).
        - (* SContinue *) intros n _ _ k. cbn [instr_s]. Transparent rexec. cbn [rexec]. Opaque rexec. unfold rbrk.
          change (loop (kc k)) with (match r_loop k with Some (l, isfor) => Some (l, if isfor then 1%Z else 0%Z) | None => None end).
          destruct (r_loop k) as [[l ty]|]; [|reflexivity].
          change (sel H "_continue") with (cov "_continue"). destruct (cov "_continue"); [|reflexivity].
          rewrite exec_SIf, eval_test_unfold, eval_unfold. cbn [eval_body]. unfold rt_brk. rewrite announce_on_cf.
          rewrite (bind_assoc (RE n) (fun _ => CF n)). destruct ty; cbn [Z.eqb Pos.eqb]; do 6 (mtop; mstep); mtop;
            (destruct a4; [unfold s1; rewrite exec_list_cons, exec_list_nil; intros s; reflexivity | rewrite exec_list_nil; reflexivity]).
        - (* SPass *) intros _ _ k. reflexivity.
        - (* SAssert *) intros n c m Hs Ho k. simpl in Hs, Ho.
          apply andb_true_iff in Hs; destruct Hs as [Hs1 Hs2].
          apply andb_true_iff in Ho; destruct Ho as [Ho12 Ho3]. apply andb_true_iff in Ho12; destruct Ho12 as [Ho1 Ho2].
          cbn [instr_s]. Transparent rexec exec. cbn [rexec]. change (sel H "_assert") with (cov "_assert").
          destruct (cov "_assert") eqn:C1; cbn [exec].
          Opaque rexec exec.
          + destruct m as [m|]; [discriminate Ho3|]. cbn [instr_oe].
            rewrite eval_test_unfold, eval_unfold. cbn [eval_body].
            change c0 with (ic rc0). rewrite (RE_ c Hs1 Ho1 rc0).
            unfold test_value, rt_assert, decide. setoid_rewrite announce_on_cf.
            destruct (jumpy c); [setoid_rewrite reval_tv_value|]; mnorm; msteps; cbn [fst snd]; split_opts;
              unfold sel3, sel2; mtop; repeat rewrite truth_ret; mtop; reflexivity.
          + rewrite (test_uncovered c Hs1 Ho1). mnorm. mstep. destruct (snd a); [reflexivity|]. rewrite bind_ret_l.
            change c0 with (ic rc0). rewrite (refine_oe m rc0 Hs2 Ho2). reflexivity.
        - (* SRaise *) intros n ex ca Hs Ho k. simpl in Hs, Ho.
          apply andb_true_iff in Hs; destruct Hs as [Hs1 Hs2]. apply andb_true_iff in Ho; destruct Ho as [Ho1 Ho2].
          cbn [instr_s]. Transparent rexec exec. cbn [rexec]. change (sel H "_raise") with (cov "_raise").
          destruct (cov "_raise") eqn:C1; unfold rstmt; cbn [exec].
          Opaque rexec exec.
          + rewrite eval_unfold. cbn [eval_body].
            change (match instr_oe H c0 ex with Some a => bind (eval calli a) (fun v => ret (Some v)) | None => ret None end) with (eval_opt calli (instr_oe H c0 ex)).
            change (match instr_oe H c0 ca with Some a => bind (eval calli a) (fun v => ret (Some v)) | None => ret None end) with (eval_opt calli (instr_oe H c0 ca)).
            change c0 with (ic rc0). rewrite (refine_oe ex rc0 Hs1 Ho1). mtop. mstep.
            rewrite (refine_oe ca rc0 Hs2 Ho2). mtop. mstep.
            unfold rt_raise. rewrite announce_on_cf. ms. ms. ms. mtop.
            destruct a3; [intros s; reflexivity|]. mtop.
            destruct a as [e0|]; [|ms; destruct a; [intros s; reflexivity|apply raise_builtin_bind]].
            ms. destruct a0; [ms|]; intros s; reflexivity.
          + change c0 with (ic rc0). rewrite (refine_oe ex rc0 Hs1 Ho1). mstep.
            rewrite (refine_oe ca rc0 Hs2 Ho2). mstep. rewrite bind_ret_l. reflexivity.
        - (* STry *) intros n body IHb hs IHh orelse IHo final IHf Hs Ho k. simpl in Hs, Ho.
          apply andb_true_iff in Hs; destruct Hs as [Hs123 Hs4]. apply andb_true_iff in Hs123; destruct Hs123 as [Hs12 Hs3].
          apply andb_true_iff in Hs12; destruct Hs12 as [Hs1 Hs2].
          apply andb_true_iff in Ho; destruct Ho as [Ho123 Ho4]. apply andb_true_iff in Ho123; destruct Ho123 as [Ho12 Ho3].
          apply andb_true_iff in Ho12; destruct Ho12 as [Ho1 Ho2].
          specialize (IHb Hs1 Ho1 k). specialize (IHh Hs2 Ho2 k n). specialize (IHo Hs3 Ho3 k). specialize (IHf Hs4 Ho4 k).
          rewrite instr_STry, rexec_STry. cbv zeta. rewrite exec_STry.
          change (sel H "enter_try") with (cov "enter_try"). change (sel H "clean_exit_try") with (cov "clean_exit_try").
          assert (Hb : meq (exec_list calli bound (if cov "enter_try" then Scons (rstmt (REvent "_try_" n)) (instr_ss H (kc k) body) else instr_ss H (kc k) body))
                           (bind (if cov "enter_try" then bind (announce true true n) (fun _ => bind (ev "enter_try" n []) (fun _ => ret tt)) else ret tt)
                                 (fun _ => rexec_list k body))).
          { destruct (cov "enter_try").
            - unfold rstmt. rewrite exec_list_cons. Transparent exec. cbn [exec]. Opaque exec.
              rewrite eval_unfold. cbn [eval_body]. unfold rt_event. rewrite announce_on_cf. ms. ms. ms. mtop. apply IHb.
            - mtop. apply IHb. }
          assert (Hor : meq (exec_list calli bound (if cov "clean_exit_try" then sapp (instr_ss H (kc k) orelse) (s1 (rstmt (REvent "_end_try_" n))) else instr_ss H (kc k) orelse))
                            (bind (rexec_list k orelse) (fun _ =>
                               if cov "clean_exit_try" then bind (announce true true n) (fun _ => bind (ev "clean_exit_try" n []) (fun _ => ret tt)) else ret tt))).
          { destruct (cov "clean_exit_try").
            - rewrite exec_list_app, IHo. mstep. unfold s1, rstmt. rewrite exec_list_cons, exec_list_nil. Transparent exec. cbn [exec]. Opaque exec.
              rewrite eval_unfold. cbn [eval_body]. unfold rt_event. rewrite announce_on_cf. ms. ms. ms. mtop. reflexivity.
            - rewrite IHo. rewrite <- (bind_ret_r (rexec_list k orelse)) at 1. mstep. destruct a. reflexivity. }
          assert (Hh : forall e, meq (exec_handlers calli bound e
                                        (if cov "enter_try" || cov "clean_exit_try" then
                                           match instr_hs H (kc k) n hs with Hnil => Hcons None None (s1 (SRaise 0 None None)) Hnil | _ => instr_hs H (kc k) n hs end
                                         else instr_hs H (kc k) n hs))
                                     (rexec_handlers k n e hs)).
          { intros e. destruct (cov "enter_try" || cov "clean_exit_try"); [|apply IHh].
            destruct hs as [|ty name hb rest].
            - rewrite instr_hs_nil, rexec_handlers_nil. apply bare_reraise.
            - rewrite <- IHh. rewrite instr_hs_cons. cbv zeta. reflexivity. }
          apply bind_cong; [apply catch_cong; exact Hb|intros r].
          apply bind_cong; [apply catch_cong; destruct r; try reflexivity; [exact Hor|apply Hh]|intros r'].
          apply bind_cong; [apply catch_cong; exact IHf|intros rf]. reflexivity.
        - (* SReturn *) intros n e Hs Ho k. simpl in Hs, Ho.
          assert (Hv : meq (match instr_oe H c0 e with Some a => eval calli a | None => ret (p_const KNone) end)
                           (match e with Some a => reval rc0 a | None => ret (p_const KNone) end)).
          { destruct e as [a|]; [|reflexivity]. cbn [instr_oe]. change c0 with (ic rc0). apply (RE_ a Hs Ho rc0). }
          cbn [instr_s]. Transparent rexec exec. cbn [rexec]. change (fn (kc k)) with (r_fn k).
          destruct (r_fn k) as [[f name]|]; [change (sel H "_return") with (cov "_return"); destruct (cov "_return")|]; cbn [exec].
          Opaque rexec exec.
          + rewrite eval_unfold. cbn [eval_body]. rewrite Hv. ms. unfold rt_return. rewrite announce_on_cf. ms. ms. ms. ms. mtop. reflexivity.
          + rewrite Hv. reflexivity.
          + rewrite Hv. reflexivity.
        - (* SDef *) intros n fid name _ _ k. reflexivity.
        - (* Snil *) intros _ _ k. reflexivity.
        - (* Scons *) intros s IHs r IHr Hs Ho k. simpl in Hs, Ho.
          apply andb_true_iff in Hs; destruct Hs as [Hs1 Hs2]. apply andb_true_iff in Ho; destruct Ho as [Ho1 Ho2].
          rewrite instr_ss_cons, exec_list_cons, rexec_list_cons, (IHs Hs1 Ho1 k). mstep. apply (IHr Hs2 Ho2 k).
        - (* Hnil *) intros _ _ k tryn e. reflexivity.
        - (* Hcons *) intros ty name body IHb rest IHr Hs Ho k tryn e. simpl in Hs, Ho.
          apply andb_true_iff in Hs; destruct Hs as [Hs12 Hs3]. apply andb_true_iff in Hs12; destruct Hs12 as [Hs1 Hs2].
          apply andb_true_iff in Ho; destruct Ho as [Ho12 Ho3]. apply andb_true_iff in Ho12; destruct Ho12 as [Ho1 Ho2].
          specialize (IHb Hs2 Ho2 k). specialize (IHr Hs3 Ho3 k tryn e).
          rewrite instr_hs_cons, rexec_handlers_cons. cbv zeta. rewrite exec_handlers_cons.
          change (sel H "exception") with (cov "exception").
          assert (Hm : meq (match instr_oe H c0 ty with None => ret true | Some te => bind (eval calli te) (fun cls => prim (p_exc_match e cls)) end)
                           (bind (reval_opt rc0 ty) (fun tv => match tv with None => ret true | Some cls => prim (p_exc_match e cls) end))).
          { destruct ty as [te|]; cbn [instr_oe reval_opt]; [|mtop; reflexivity].
            change c0 with (ic rc0). rewrite (RE_ te Hs1 Ho1 rc0). mtop. reflexivity. }
          rewrite Hm. mtop. mstep. mstep. destruct a0; [|exact IHr]. mstep. mstep.
          apply bind_cong; [apply catch_cong|intros r; reflexivity].
          destruct (cov "exception").
          * unfold rstmt. rewrite exec_list_cons. Transparent exec. cbn [exec]. Opaque exec.
            rewrite eval_unfold. cbn [eval_body].
            assert (Ht : meq (match instr_oe H c0 ty with Some te => bind (eval calli te) (fun v => ret (AV v)) | None => ret ANone end)
                             (bind (reval_opt rc0 ty) (fun tv2 => ret (match tv2 with Some v => AV v | None => ANone end)))).
            { destruct ty as [te|]; cbn [instr_oe reval_opt]; [|mtop; reflexivity].
              change c0 with (ic rc0). rewrite (RE_ te Hs1 Ho1 rc0). mtop. reflexivity. }
            rewrite Ht. ms. ms. unfold rt_exc. rewrite announce_on_cf. ms. ms. ms. mtop. apply IHb.
          * mtop. apply IHb.
      Qed.

      Transparent rnot_events announce ev notify RE CF truth prim prim_total lookup raise_builtin raug_events.
      Transparent exec exec_list exec_handlers rexec rexec_list rexec_handlers.
    End Refinement.

    (* ================================================================ transparency of the reference semantics
       With analyses whose hooks return nothing, the reference semantics of a source program behaves as the plain
       semantics of that program: same outcome, world, globals, frames and handled-exception stack; only the
       engine state (deliveries, coverage) differs.  Together with the refinement theorem: execution transparency
       of the instrumented program. *)
    Section Transparency.
      Hypothesis observing_all : Forall (observing earg) analyses.
      (* building a list is not a program-visible effect, and tuple(list) is the tuple of the elements *)
      Variable mkl : list val -> val.
      Hypothesis mklist_pure : forall l w0, p_mklist l w0 = (mkl l, w0).
      Hypothesis tuple_of_list_spec : forall l w0, p_tuple_of_list (mkl l) w0 = p_mktuple l w0.
      (* the truth of a boolean is that boolean, without effect *)
      Hypothesis truth_bool : forall b w0, p_truth (p_const (KBool b)) w0 = (POk b, w0).

      (* the callee semantics of the plain side *)
      Variable callo : nat -> list val -> M val.

      Definition beq (s1 s2 : st) : Prop :=
        w s1 = w s2 /\ genv s1 = genv s2 /\ frames s1 = frames s2 /\ excs s1 = excs s2.
      Definition rres {A B} (R : A -> B -> Prop) (r1 : res A) (r2 : res B) : Prop :=
        match r1, r2 with
        | Ok a, Ok b => R a b
        | Exc e, Exc e' => e = e'
        | Brk, Brk => True | Cnt, Cnt => True
        | Ret v, Ret v' => v = v'
        | Fuel, Fuel => True
        | Stuck y, Stuck y' => y = y'
        | _, _ => False
        end.
      Definition sim {A B} (R : A -> B -> Prop) (m1 : M A) (m2 : M B) : Prop :=
        forall s1 s2, beq s1 s2 -> rres R (fst (m1 s1)) (fst (m2 s2)) /\ beq (snd (m1 s1)) (snd (m2 s2)).
      (* a computation that only talks to the engine *)
      Definition quiet {A} (m : M A) (a : A) : Prop := forall s, fst (m s) = Ok a /\ beq (snd (m s)) s.

      Hypothesis Hcallo : forall f a, sim eq (call f a) (callo f a).

      Lemma beq_refl s : beq s s. Proof. repeat split. Qed.
      Lemma beq_sym s1 s2 : beq s1 s2 -> beq s2 s1.
      Proof. intros [A [B [C D0]]]. repeat split; symmetry; assumption. Qed.
      Lemma beq_trans s1 s2 s3 : beq s1 s2 -> beq s2 s3 -> beq s1 s3.
      Proof. intros [A [B [C D0]]] [A' [B' [C' D']]]. repeat split; etransitivity; eassumption. Qed.

      Lemma sim_ret {A B} (R : A -> B -> Prop) a b : R a b -> sim R (ret a) (ret b).
      Proof. intros HR s1 s2 Hb. split; [exact HR|exact Hb]. Qed.

      Lemma sim_bind {A B C D0} (R : A -> B -> Prop) (Q : C -> D0 -> Prop) m1 m2 k1 k2 :
        sim R m1 m2 -> (forall a b, R a b -> sim Q (k1 a) (k2 b)) -> sim Q (bind m1 k1) (bind m2 k2).
      Proof.
        intros Hm Hk s1 s2 Hb. unfold bind. specialize (Hm s1 s2 Hb).
        destruct (m1 s1) as [r1 s1'], (m2 s2) as [r2 s2']. cbn [fst snd] in Hm. destruct Hm as [Hr Hs].
        destruct r1, r2; cbn [rres] in Hr; try contradiction; try (split; [exact Hr|exact Hs]).
        apply Hk; assumption.
      Qed.

      Lemma sim_quiet_l {A B C} (R : B -> C -> Prop) (m : M A) a k m2 :
        quiet m a -> sim R (k a) m2 -> sim R (bind m k) m2.
      Proof.
        intros Hq Hk s1 s2 Hb. unfold bind. specialize (Hq s1). destruct (m s1) as [r s1']. cbn [fst snd] in Hq.
        destruct Hq as [-> Hs]. apply Hk. eapply beq_trans; eassumption.
      Qed.

      Lemma sim_quiet_only {A B} (R : A -> B -> Prop) (m : M A) a b : quiet m a -> R a b -> sim R m (ret b).
      Proof.
        intros Hq HR s1 s2 Hb. specialize (Hq s1). destruct (m s1) as [r s1']. cbn [fst snd] in *. destruct Hq as [-> Hs].
        split; [exact HR|eapply beq_trans; eassumption].
      Qed.
      Lemma quiet_ret {A} (a : A) : quiet (ret a) a.
      Proof. intros s. split; [reflexivity|apply beq_refl]. Qed.
      Lemma quiet_bind {A B} (m : M A) a (k : A -> M B) b : quiet m a -> quiet (k a) b -> quiet (bind m k) b.
      Proof.
        intros Hm Hk s. unfold bind. specialize (Hm s). destruct (m s) as [r s']. cbn [fst snd] in Hm. destruct Hm as [-> Hs].
        specialize (Hk s'). destruct Hk as [E Hs']. split; [exact E|eapply beq_trans; eassumption].
      Qed.

      Lemma quiet_notify f args : quiet (notify f args) None.
      Proof.
        Transparent notify. intros s. unfold notify.
        pose proof (call_if_exists_observing earg e_filt_str e_as_path e_is_iid line_of analyses f args (eng s) observing_all) as E.
        destruct (call_if_exists earg e_filt_str e_as_path e_is_iid line_of analyses f args (eng s)) as [r e']. cbn [fst] in E. subst r.
        split; [reflexivity|repeat split]. Opaque notify.
      Qed.
      Lemma quiet_ev f n args : quiet (ev f n args) None.
      Proof. Transparent ev. unfold ev. Opaque ev. apply quiet_notify. Qed.
      Lemma quiet_RE n : quiet (RE n) tt.
      Proof. Transparent RE. unfold RE. Opaque RE. eapply quiet_bind; [apply quiet_ev|apply quiet_ret]. Qed.
      Lemma quiet_CF n : quiet (CF n) tt.
      Proof. Transparent CF. unfold CF. Opaque CF. eapply quiet_bind; [apply quiet_ev|apply quiet_ret]. Qed.
      Lemma quiet_announce on cf n : quiet (announce on cf n) tt.
      Proof.
        Transparent announce. unfold announce. Opaque announce.
        destruct on; [|apply quiet_ret]. eapply quiet_bind; [apply quiet_RE|]. destruct cf; [apply quiet_CF|apply quiet_ret].
      Qed.

      (* operations that read and write the program-visible state only *)
      Lemma sim_prim {A} (p : world -> pres A * world) : sim eq (prim p) (prim p).
      Proof.
        Transparent prim. intros s1 s2 [Hw [Hg [Hf He]]]. unfold prim. rewrite Hw. destruct (p (w s2)) as [r w'].
        destruct r; (split; [reflexivity|repeat split; assumption]). Opaque prim.
      Qed.
      Lemma sim_prim_total {A} (p : world -> A * world) : sim eq (prim_total p) (prim_total p).
      Proof.
        Transparent prim_total. intros s1 s2 [Hw [Hg [Hf He]]]. unfold prim_total. rewrite Hw. destruct (p (w s2)) as [r w'].
        split; [reflexivity|repeat split; assumption]. Opaque prim_total.
      Qed.
      Lemma sim_raise {A B} (R : A -> B -> Prop) e : sim R (raise e) (raise e).
      Proof. intros s1 s2 Hb. split; [reflexivity|exact Hb]. Qed.
      Lemma sim_raise_builtin {A B} (R : A -> B -> Prop) cls msg : sim R (raise_builtin cls msg) (raise_builtin cls msg).
      Proof.
        Transparent raise_builtin. unfold raise_builtin. Opaque raise_builtin.
        eapply sim_bind; [apply sim_prim_total|]. intros a b ->. apply sim_raise.
      Qed.
      Lemma sim_stuck {A B} (R : A -> B -> Prop) y : sim R (stuck y) (stuck y).
      Proof. intros s1 s2 Hb. split; [reflexivity|exact Hb]. Qed.
      Lemma sim_reraise {A B} (R : A -> B -> Prop) (r1 : res A) (r2 : res B) : rres R r1 r2 -> sim R (reraise r1) (reraise r2).
      Proof. intros Hr s1 s2 Hb. split; [exact Hr|exact Hb]. Qed.
      Lemma sim_lookup x : sim eq (lookup x) (lookup x).
      Proof.
        Transparent lookup. intros s1 s2 Hb. pose proof Hb as [Hw [Hg [Hf He]]]. unfold lookup. rewrite Hg, Hf.
        assert (HN : forall c m, rres eq (fst (@raise_builtin val c m s1)) (fst (@raise_builtin val c m s2))
                                /\ beq (snd (@raise_builtin val c m s1)) (snd (@raise_builtin val c m s2))).
        { intros c m. apply (sim_raise_builtin eq c m s1 s2 Hb). }
        destruct (frames s2) as [|fr rest].
        - destruct (alookup x (genv s2)); [split; [reflexivity|exact Hb]|apply HN].
        - destruct (mem_str x (lnames fr)).
          + destruct (alookup x (locals fr)); [split; [reflexivity|exact Hb]|apply HN].
          + destruct (alookup x (genv s2)); [split; [reflexivity|exact Hb]|apply HN].
        Opaque lookup.
      Qed.
      Lemma sim_assign x v : sim eq (assign x v) (assign x v).
      Proof.
        intros s1 s2 [Hw [Hg [Hf He]]]. unfold assign. rewrite Hf.
        destruct (frames s2) as [|fr rest]; [|destruct (mem_str x (lnames fr))];
          (split; [reflexivity|repeat split; cbn; congruence]).
      Qed.
      Lemma sim_unbind x : sim eq (unbind x) (unbind x).
      Proof.
        intros s1 s2 [Hw [Hg [Hf He]]]. unfold unbind. rewrite Hf.
        destruct (frames s2) as [|fr rest]; [|destruct (mem_str x (lnames fr))];
          (split; [reflexivity|repeat split; cbn; congruence]).
      Qed.
      Lemma sim_push_exc e : sim eq (push_exc e) (push_exc e).
      Proof. intros s1 s2 [Hw [Hg [Hf He]]]. split; [reflexivity|repeat split; cbn; congruence]. Qed.
      Lemma sim_pop_exc : sim eq pop_exc pop_exc.
      Proof. intros s1 s2 [Hw [Hg [Hf He]]]. split; [reflexivity|repeat split; cbn; congruence]. Qed.
      Lemma sim_cur_exc : sim eq cur_exc cur_exc.
      Proof. intros s1 s2 Hb. pose proof Hb as [Hw [Hg [Hf He]]]. unfold cur_exc. cbn. rewrite He. split; [reflexivity|exact Hb]. Qed.
      Lemma sim_truth v : sim eq (truth v) (truth v).
      Proof. Transparent truth. unfold truth. Opaque truth. apply sim_prim. Qed.
      Lemma sim_catch {A B} (R : A -> B -> Prop) m1 m2 : sim R m1 m2 -> sim (rres R) (catch m1) (catch m2).
      Proof.
        intros Hm s1 s2 Hb. unfold catch. specialize (Hm s1 s2 Hb).
        destruct (m1 s1) as [r1 s1'], (m2 s2) as [r2 s2']. cbn [fst snd] in Hm. destruct Hm as [Hr Hs].
        destruct r1, r2; cbn [rres] in Hr; try contradiction; (split; [cbn; try exact Hr; try exact I|exact Hs]).
      Qed.
      Lemma sim_const {A B} (R : A -> B -> Prop) (r1 : res A) (r2 : res B) : rres R r1 r2 ->
        sim R (fun s => (r1, s)) (fun s => (r2, s)).
      Proof. intros Hr s1 s2 Hb. split; [exact Hr|exact Hb]. Qed.

      (* a left computation followed by quiet reporting that hands its value on *)
      Lemma sim_bind_l {A B C} (R' : A -> B -> Prop) (R : C -> B -> Prop) m1 m2 k :
        sim R' m1 m2 -> (forall a b, R' a b -> sim R (k a) (ret b)) -> sim R (bind m1 k) m2.
      Proof.
        intros Hm Hk s1 s2 Hb. unfold bind. specialize (Hm s1 s2 Hb).
        destruct (m1 s1) as [r1 s1'] eqn:E1. destruct (m2 s2) as [r2 s2'] eqn:E2. cbn [fst snd] in Hm. destruct Hm as [Hr Hs].
        destruct r1, r2; cbn [rres] in Hr; try contradiction; try (split; [exact Hr|exact Hs]).
        specialize (Hk a a0 Hr s1' s2' Hs). cbn [ret fst snd] in Hk. exact Hk.
      Qed.

      Ltac q1 := first [ apply (sim_quiet_l _ _ tt); [first [apply quiet_announce|apply quiet_RE|apply quiet_CF]|]
                       | apply (sim_quiet_l _ _ None); [first [apply quiet_ev|apply quiet_notify]|] ]; cbv beta.
      Ltac qs := repeat q1.
      Tactic Notation "sb" tactic3(t) := (eapply sim_bind; [t|intros ? ? ?; try subst]).
      Tactic Notation "sl" tactic3(t) := (eapply sim_bind_l; [t|intros ? ? ?; try subst]).

      Definition tvr (vt : val * bool) (t : bool) : Prop := snd vt = t.

      Lemma sim_meq_l {A B} (R : A -> B -> Prop) m m' m2 : meq m m' -> sim R m' m2 -> sim R m m2.
      Proof. intros E Hs s1 s2 Hb. rewrite (E s1). apply Hs; exact Hb. Qed.
      Lemma sim_meq_r {A B} (R : A -> B -> Prop) m m2 m2' : meq m2 m2' -> sim R m m2' -> sim R m m2.
      Proof. intros E Hs s1 s2 Hb. rewrite (E s2). apply Hs; exact Hb. Qed.
      Ltac stop := repeat match goal with
        | |- sim _ (bind (bind ?m ?k) ?h) _ => eapply sim_meq_l; [apply bind_assoc|]; cbv beta
        | |- sim _ (bind (ret ?a) ?k) _ => eapply sim_meq_l; [apply bind_ret_l|]; cbv beta
        | |- sim _ _ (bind (bind ?m ?k) ?h) => eapply sim_meq_r; [apply bind_assoc|]; cbv beta
        | |- sim _ _ (bind (ret ?a) ?k) => eapply sim_meq_r; [apply bind_ret_l|]; cbv beta
        end.
      Ltac qs ::= repeat (stop; q1); stop.
      Lemma sim_ret_wrap {A B} (R : A -> B -> Prop) m m2 : sim R (bind m (fun a => ret a)) (bind m2 (fun b => ret b)) -> sim R m m2.
      Proof. intros Hs. eapply sim_meq_l; [symmetry; apply bind_ret_r|]. eapply sim_meq_r; [symmetry; apply bind_ret_r|]. exact Hs. Qed.
      Lemma eval_test_nonjumpy t : jumpy t = false -> eval_test callo t = bind (eval callo t) (fun v => truth v).
      Proof. intros J. rewrite eval_test_unfold. destruct t; try discriminate J; try (destruct o; try discriminate J); reflexivity. Qed.

      (* a covered test: goal  sim R (bind X K) (bind (eval_test callo t) K')  where X computes the tested value (and,
         for a jump-compiled test, its truth), K reports it quietly and decides; leaves  sim R (Kc b) (K' b) *)
      Ltac test_tac t c T1 T2 :=
        let J := fresh "J" in
        destruct (jumpy t) eqn:J;
        [ eapply sim_bind with (R := fun xt t0 => snd xt = Some t0);
          [ sl (exact T2); apply sim_ret; cbn [snd]; unfold tvr in *; congruence
          | let xt := fresh "xt" in let b0 := fresh "b0" in let Hx := fresh "Hx" in
            intros xt b0 Hx; qs; rewrite Hx; cbn [fst snd]; stop ]
        | rewrite (eval_test_nonjumpy t J); stop; sb (exact T1); stop; qs; cbn [fst snd sel3]; sb (apply sim_truth) ].

      (* a test that is not compiled to jumps: its value, then the truth of the value *)
      Lemma tv_default c e : jumpy e = false -> sim eq (reval c e) (eval callo e) -> sim tvr (reval_tv c e) (eval_test callo e).
      Proof.
        intros Hj E. rewrite reval_tv_unfold, eval_test_unfold. rewrite <- reval_unfold.
        destruct e; try discriminate Hj; try (destruct o; try discriminate Hj);
          (sb (exact E); sl (apply sim_truth); apply sim_ret; reflexivity).
      Qed.

      Ltac qq := repeat first [ apply quiet_ret | eapply quiet_bind; [first [apply quiet_announce|apply quiet_RE|apply quiet_CF|apply quiet_ev|apply quiet_notify|apply quiet_ret]|] ].
      Lemma rnot_quiet n v t : quiet (rnot_events n v t) (p_const (KBool (negb t)), negb t).
      Proof.
        Transparent rnot_events. unfold rnot_events. Opaque rnot_events.
        eapply quiet_bind; [apply quiet_announce|]. destruct (cov_us (snake (unop_cls UNot))); qq.
      Qed.

      Lemma mklist_ret l : meq (prim_total (p_mklist l)) (ret (mkl l)).
      Proof.
        Transparent prim_total. intros s. unfold prim_total, ret. rewrite mklist_pure. unfold set_w. destruct s; reflexivity. Opaque prim_total.
      Qed.
      Lemma tuple_meq l : meq (prim_total (p_tuple_of_list (mkl l))) (prim_total (p_mktuple l)).
      Proof.
        Transparent prim_total. intros s. unfold prim_total. rewrite tuple_of_list_spec. reflexivity. Opaque prim_total.
      Qed.
      Lemma quiet_mklist l : quiet (bind (prim_total (p_mklist l)) (fun _ => ret tt)) tt.
      Proof. intros s. rewrite (bind_cong _ _ _ _ (mklist_ret l) (fun _ => meq_refl _) s). split; [reflexivity|apply beq_refl]. Qed.
      Lemma tuple_via_list vs n :
        sim eq (bind (prim_total (p_mklist vs)) (fun v => bind (announce true false n) (fun _ =>
                bind (prim_total (p_tuple_of_list v)) (fun tv => bind (ev "literal" n [AV tv]) (fun _ =>
                bind (ev "_tuple" n [AV v; AV tv]) (fun r => ret (sel2 r tv)))))))
               (prim_total (p_mktuple vs)).
      Proof.
        eapply sim_meq_l; [apply bind_cong; [apply mklist_ret|intros v; apply meq_refl]|]. stop. qs.
        eapply sim_meq_l; [apply bind_cong; [apply tuple_meq|intros v; apply meq_refl]|].
        sl (apply sim_prim_total). qs. apply sim_ret. reflexivity.
      Qed.

      Theorem transp_expr :
        (forall e, src_e e = true -> forall c, sim eq (reval c e) (eval callo e) /\ sim tvr (reval_tv c e) (eval_test callo e))
        /\ (forall es, src_es es = true -> forall c, sim eq (reval_list c es) (eval_list callo es))
        /\ (forall r, src_c r = true -> forall c n on ann first l, sim eq (reval_cmps c n on ann first l r) (eval_cmps callo l r))
        /\ (forall r : rcmps, True).
      Proof.
        apply expr_all_ind; try (intros; discriminate); try (intros; exact I).
        - (* EConst *) intros n k _ c.
          assert (E : sim eq (reval c (EConst n k)) (eval callo (EConst n k))).
          { rewrite reval_unfold, eval_unfold. cbn [reval_body eval_body]. destruct (const_cov c k); qs; apply sim_ret; reflexivity. }
          split; [exact E|apply tv_default; [reflexivity|exact E]].
        - (* EName *) intros n x b _ c.
          assert (E : sim eq (reval c (EName n x b)) (eval callo (EName n x b))).
          { rewrite reval_unfold, eval_unfold. cbn [reval_body eval_body]. destruct (name_cov c x b); [|apply sim_lookup].
            qs. sl (apply sim_lookup). qs. apply sim_ret. reflexivity. }
          split; [exact E|apply tv_default; [reflexivity|exact E]].
        - (* EUn *) intros n o a IHa Hs c. simpl in Hs. destruct (IHa Hs c) as [A1 A2].
          assert (E : sim eq (reval c (EUn n o a)) (eval callo (EUn n o a))).
          { rewrite reval_unfold, eval_unfold. cbn [reval_body eval_body]. destruct o.
            1,2,4: (sb (exact A1); qs; sl (apply sim_prim);
                    match goal with |- context [if ?b then _ else _] => destruct b end; qs; apply sim_ret; reflexivity).
            sb (exact A2). unfold tvr in *. subst. eapply sim_quiet_l; [apply rnot_quiet|]. apply sim_ret. reflexivity. }
          split; [exact E|]. destruct o; try (apply tv_default; [reflexivity|exact E]).
          rewrite reval_tv_unfold, eval_test_unfold. sb (exact A2). unfold tvr in *. subst.
          eapply sim_quiet_only; [apply rnot_quiet|reflexivity].
        - (* EBin *) intros n o a IHa b IHb Hs c. simpl in Hs. apply andb_true_iff in Hs; destruct Hs as [Hs1 Hs2].
          destruct (IHa Hs1 (rc_str c)) as [A1 A2]. destruct (IHb Hs2 (rc_str c)) as [B1 B2].
          assert (E : sim eq (reval c (EBin n o a b)) (eval callo (EBin n o a b))).
          { rewrite reval_unfold, eval_unfold. cbn [reval_body eval_body]. qs. sb (exact A1). sb (exact B1). sl (apply sim_prim).
            destruct (cov (snake (binop_cls o))); qs; apply sim_ret; reflexivity. }
          split; [exact E|apply tv_default; [reflexivity|exact E]].
        - (* EBool *) intros n o a IHa b IHb Hs c. simpl in Hs. apply andb_true_iff in Hs; destruct Hs as [Hs1 Hs2].
          destruct (IHa Hs1 c) as [A1 A2]. destruct (IHb Hs2 c) as [B1 B2]. split.
          + rewrite reval_unfold, eval_unfold. cbn [reval_body eval_body]. qs. sb (exact A1). sb (apply sim_truth).
            destruct (match o with BAnd => b1 | BOr => negb b1 end).
            * sl (exact B1). destruct (cov_us (snake (boolop_cls o))); qs; apply sim_ret; reflexivity.
            * destruct (cov_us (snake (boolop_cls o))); qs; apply sim_ret; reflexivity.
          + rewrite reval_tv_unfold, eval_test_unfold. cbv zeta. destruct o.
            * qs. sb (exact A2). destruct a0 as [l t]. unfold tvr in *. cbn [snd] in *. subst. destruct b0.
              -- sl (exact B2). destruct a0 as [r tr0]. unfold tvr in *. cbn [snd] in *. subst.
                 destruct (cov_us (snake (boolop_cls BAnd))); qs; apply sim_ret; reflexivity.
              -- destruct (cov_us (snake (boolop_cls BAnd))); qs; apply sim_ret; reflexivity.
            * qs. sb (exact A2). destruct a0 as [l t]. unfold tvr in *. cbn [snd] in *. subst. destruct b0; cbn [negb].
              -- destruct (cov_us (snake (boolop_cls BOr))); qs; apply sim_ret; reflexivity.
              -- sl (exact B2). destruct a0 as [r tr0]. unfold tvr in *. cbn [snd] in *. subst.
                 destruct (cov_us (snake (boolop_cls BOr))); qs; apply sim_ret; reflexivity.
        - (* ECmp *) intros n a IHa r IHr Hs c. simpl in Hs. apply andb_true_iff in Hs; destruct Hs as [Hs1 Hs2].
          destruct (IHa Hs1 c) as [A1 A2]. specialize (IHr Hs2 c).
          assert (E : sim eq (reval c (ECmp n a r)) (eval callo (ECmp n a r))).
          { rewrite reval_unfold, eval_unfold. cbn [reval_body eval_body]. sb (exact A1). apply IHr. }
          split; [exact E|apply tv_default; [reflexivity|exact E]].
        - (* EIfExp *) intros n t IHt a IHa b IHb Hs c. simpl in Hs. apply andb_true_iff in Hs; destruct Hs as [Hs12 Hs3].
          apply andb_true_iff in Hs12; destruct Hs12 as [Hs1 Hs2].
          destruct (IHt Hs1 c) as [T1 T2]. destruct (IHa Hs2 c) as [A1 A2]. destruct (IHb Hs3 c) as [B1 B2]. split.
          + rewrite reval_unfold, eval_unfold. cbn [reval_body eval_body]. destruct (cov "enter_if" || cov "exit_if").
            * test_tac t c T1 T2; (match goal with |- sim _ _ (if ?bb then _ else _) => destruct bb end; [sl (exact A1)|sl (exact B1)]; qs; apply sim_ret; reflexivity).
            * sb (exact T2). unfold tvr in *. subst. destruct (snd a0); assumption.
          + rewrite reval_tv_unfold, eval_test_unfold. cbv zeta. destruct (cov "enter_if" || cov "exit_if").
            * rewrite <- reval_unfold. test_tac t c T1 T2; (match goal with |- sim _ _ (if ?bb then _ else _) => destruct bb end; [sl (exact A2)|sl (exact B2)]; qs; apply sim_ret; assumption).
            * sb (exact T2). unfold tvr in *. subst. destruct (snd a0); assumption.
        - (* EAttr *) intros n a IHa x Hs c. simpl in Hs. destruct (IHa Hs c) as [A1 A2].
          assert (E : sim eq (reval c (EAttr n a x)) (eval callo (EAttr n a x))).
          { rewrite reval_unfold, eval_unfold. cbn [reval_body eval_body]. sb (exact A1). qs. sl (apply sim_prim).
            destruct (cov "read_attribute" && negb (r_tgt c)); qs; apply sim_ret; reflexivity. }
          split; [exact E|apply tv_default; [reflexivity|exact E]].
        - (* ESub *) intros n a IHa i IHi Hs c. simpl in Hs. apply andb_true_iff in Hs; destruct Hs as [Hs1 Hs2].
          destruct (IHa Hs1 c) as [A1 A2]. destruct (IHi Hs2 c) as [I1 I2].
          assert (E : sim eq (reval c (ESub n a i)) (eval callo (ESub n a i))).
          { rewrite reval_unfold, eval_unfold. cbn [reval_body eval_body]. sb (exact A1). sb (exact I1).
            destruct (cov "read_subscript" && negb (r_tgt c)).
            - eapply sim_quiet_l with (a := tt); [|cbv beta; qs; sl (apply sim_prim); qs; apply sim_ret; reflexivity].
              apply quiet_mklist.
            - stop. qs. sl (apply sim_prim). apply sim_ret; reflexivity. }
          split; [exact E|apply tv_default; [reflexivity|exact E]].
        - (* ECall *) intros n f IHf args IHargs Hs c. simpl in Hs. apply andb_true_iff in Hs; destruct Hs as [Hs1 Hs2].
          destruct (IHf Hs1 c) as [F1 F2]. specialize (IHargs Hs2 (rc_str c)).
          assert (HC : forall fv vs, sim eq (r_do_call fv vs) (do_call callo fv vs)).
          { intros fv vs. unfold r_do_call, do_call. destruct (as_fun fv); [apply Hcallo|apply sim_prim]. }
          assert (E : sim eq (reval c (ECall n f args)) (eval callo (ECall n f args))).
          { rewrite reval_unfold, eval_unfold. cbn [reval_body eval_body]. sb (exact F1). sb (exact IHargs).
            destruct (cov "pre_call" || cov "post_call"); [|apply HC]. qs. sl (apply HC). qs. apply sim_ret; reflexivity. }
          split; [exact E|apply tv_default; [reflexivity|exact E]].
        - (* EList *) intros n es IHes Hs c. simpl in Hs. specialize (IHes Hs c).
          assert (E : sim eq (reval c (EList n es)) (eval callo (EList n es))).
          { rewrite reval_unfold, eval_unfold. cbn [reval_body eval_body]. sb (exact IHes). sl (apply sim_prim_total).
            destruct (cov "_list" && negb (r_tgt c)); qs; apply sim_ret; reflexivity. }
          split; [exact E|apply tv_default; [reflexivity|exact E]].
        - (* ETuple *) intros n es IHes Hs c. simpl in Hs. specialize (IHes Hs c).
          assert (E : sim eq (reval c (ETuple n es)) (eval callo (ETuple n es))).
          { rewrite reval_unfold, eval_unfold. cbn [reval_body eval_body]. sb (exact IHes).
            destruct (cov "_tuple" && negb (r_tgt c)); [|apply sim_prim_total]. apply tuple_via_list. }
          split; [exact E|apply tv_default; [reflexivity|exact E]].
        - (* Enil *) intros _ c. apply sim_ret. reflexivity.
        - (* Econs *) intros e IHe r IHr Hs c. simpl in Hs. apply andb_true_iff in Hs; destruct Hs as [Hs1 Hs2].
          destruct (IHe Hs1 c) as [E1 E2]. specialize (IHr Hs2 c). rewrite reval_list_unfold, eval_list_unfold.
          sb (exact E1). sb (exact IHr). apply sim_ret. reflexivity.
        - (* Cnil *) intros _ c n on ann first l. apply sim_ret. reflexivity.
        - (* Ccons *) intros o e IHe r IHr Hs c n on ann first l. simpl in Hs. apply andb_true_iff in Hs; destruct Hs as [Hs1 Hs2].
          destruct (IHe Hs1 c) as [E1 E2]. specialize (IHr Hs2 c). rewrite reval_cmps_unfold, eval_cmps_unfold.
          destruct r as [|o2 e2 r2].
          + sb (exact E1). qs. sl (apply sim_prim). destruct on; stop; qs; apply sim_ret; reflexivity.
          + sb (exact E1). qs. sb (apply sim_prim).
            assert (Hv : sim eq (if on then
                                   bind (ev "operation" n [AS (cmpop_cls o); AL [AV first; AV b]; AV b0]) (fun _ =>
                                   bind (ev "comparison" n [AV l; AS (cmpop_cls o); AV b; AV b0]) (fun hi =>
                                   bind (ev (snake (cmpop_cls o)) n [AV l; AV b; AV b0]) (fun lo => ret (sel3 lo hi b0))))
                                 else ret b0) (ret b0)).
            { destruct on; qs; apply sim_ret; reflexivity. }
            apply sim_meq_r with (m2' := bind (ret b0) (fun v' => bind (truth v') (fun t => if t then eval_cmps callo b (Ccons o2 e2 r2) else ret v')));
              [intros s; reflexivity|]. sb (exact Hv).
            sb (apply sim_truth). destruct b2; [apply IHr|apply sim_ret; reflexivity].
      Qed.

      (* plain evaluation of a source expression under the two callee semantics (targets of augmented assignments) *)
      Lemma plain_sim :
        (forall e, src_e e = true -> sim eq (eval call e) (eval callo e) /\ sim eq (eval_test call e) (eval_test callo e))
        /\ (forall es, src_es es = true -> sim eq (eval_list call es) (eval_list callo es))
        /\ (forall r, src_c r = true -> forall l, sim eq (eval_cmps call l r) (eval_cmps callo l r))
        /\ (forall r : rcmps, True).
      Proof.
        assert (Hdef : forall e, sim eq (eval call e) (eval callo e) ->
                  sim eq (bind (eval call e) (fun v => truth v)) (bind (eval callo e) (fun v => truth v))).
        { intros e E. sb (exact E). apply sim_truth. }
        apply expr_all_ind; try (intros; discriminate); try (intros; exact I).
        - intros n k _. split; [rewrite !eval_unfold; apply sim_ret; reflexivity|].
          rewrite (eval_test_unfold call), (eval_test_unfold callo). apply Hdef. rewrite !eval_unfold; apply sim_ret; reflexivity.
        - intros n x b _. split; [rewrite !eval_unfold; apply sim_lookup|].
          rewrite (eval_test_unfold call), (eval_test_unfold callo). apply Hdef. rewrite !eval_unfold; apply sim_lookup.
        - intros n o a IHa Hs. simpl in Hs. destruct (IHa Hs) as [A1 A2].
          assert (E : sim eq (eval call (EUn n o a)) (eval callo (EUn n o a))).
          { rewrite (eval_unfold call), (eval_unfold callo). cbn [eval_body]. destruct o; try (sb (exact A1); apply sim_prim).
            sb (exact A2). apply sim_ret. reflexivity. }
          split; [exact E|]. rewrite (eval_test_unfold call), (eval_test_unfold callo). destruct o; try (apply Hdef; exact E).
          sb (exact A2). apply sim_ret. reflexivity.
        - intros n o a IHa b IHb Hs. simpl in Hs. apply andb_true_iff in Hs; destruct Hs as [Hs1 Hs2].
          destruct (IHa Hs1) as [A1 A2]. destruct (IHb Hs2) as [B1 B2].
          assert (E : sim eq (eval call (EBin n o a b)) (eval callo (EBin n o a b))).
          { rewrite (eval_unfold call), (eval_unfold callo). cbn [eval_body]. sb (exact A1). sb (exact B1). apply sim_prim. }
          split; [exact E|]. rewrite (eval_test_unfold call), (eval_test_unfold callo). apply Hdef; exact E.
        - intros n o a IHa b IHb Hs. simpl in Hs. apply andb_true_iff in Hs; destruct Hs as [Hs1 Hs2].
          destruct (IHa Hs1) as [A1 A2]. destruct (IHb Hs2) as [B1 B2]. split.
          + rewrite (eval_unfold call), (eval_unfold callo). cbn [eval_body]. sb (exact A1). sb (apply sim_truth).
            destruct (match o with BAnd => b1 | BOr => negb b1 end); [exact B1|apply sim_ret; reflexivity].
          + rewrite (eval_test_unfold call), (eval_test_unfold callo). destruct o; sb (exact A2); destruct b0; try assumption; apply sim_ret; reflexivity.
        - intros n a IHa r IHr Hs. simpl in Hs. apply andb_true_iff in Hs; destruct Hs as [Hs1 Hs2].
          destruct (IHa Hs1) as [A1 A2]. specialize (IHr Hs2).
          assert (E : sim eq (eval call (ECmp n a r)) (eval callo (ECmp n a r))).
          { rewrite (eval_unfold call), (eval_unfold callo). cbn [eval_body]. sb (exact A1). apply IHr. }
          split; [exact E|]. rewrite (eval_test_unfold call), (eval_test_unfold callo). apply Hdef; exact E.
        - intros n t IHt a IHa b IHb Hs. simpl in Hs. apply andb_true_iff in Hs; destruct Hs as [Hs12 Hs3].
          apply andb_true_iff in Hs12; destruct Hs12 as [Hs1 Hs2].
          destruct (IHt Hs1) as [T1 T2]. destruct (IHa Hs2) as [A1 A2]. destruct (IHb Hs3) as [B1 B2]. split.
          + rewrite (eval_unfold call), (eval_unfold callo). cbn [eval_body]. sb (exact T2). destruct b0; assumption.
          + rewrite (eval_test_unfold call), (eval_test_unfold callo). sb (exact T2). destruct b0; assumption.
        - intros n a IHa x Hs. simpl in Hs. destruct (IHa Hs) as [A1 A2].
          assert (E : sim eq (eval call (EAttr n a x)) (eval callo (EAttr n a x))).
          { rewrite (eval_unfold call), (eval_unfold callo). cbn [eval_body]. sb (exact A1). apply sim_prim. }
          split; [exact E|]. rewrite (eval_test_unfold call), (eval_test_unfold callo). apply Hdef; exact E.
        - intros n a IHa i IHi Hs. simpl in Hs. apply andb_true_iff in Hs; destruct Hs as [Hs1 Hs2].
          destruct (IHa Hs1) as [A1 A2]. destruct (IHi Hs2) as [I1 I2].
          assert (E : sim eq (eval call (ESub n a i)) (eval callo (ESub n a i))).
          { rewrite (eval_unfold call), (eval_unfold callo). cbn [eval_body]. sb (exact A1). sb (exact I1). apply sim_prim. }
          split; [exact E|]. rewrite (eval_test_unfold call), (eval_test_unfold callo). apply Hdef; exact E.
        - intros n f IHf args IHargs Hs. simpl in Hs. apply andb_true_iff in Hs; destruct Hs as [Hs1 Hs2].
          destruct (IHf Hs1) as [F1 F2]. specialize (IHargs Hs2).
          assert (E : sim eq (eval call (ECall n f args)) (eval callo (ECall n f args))).
          { rewrite (eval_unfold call), (eval_unfold callo). cbn [eval_body]. sb (exact F1). sb (exact IHargs).
            unfold do_call. destruct (as_fun b); [apply Hcallo|apply sim_prim]. }
          split; [exact E|]. rewrite (eval_test_unfold call), (eval_test_unfold callo). apply Hdef; exact E.
        - intros n es IHes Hs. simpl in Hs. specialize (IHes Hs).
          assert (E : sim eq (eval call (EList n es)) (eval callo (EList n es))).
          { rewrite (eval_unfold call), (eval_unfold callo). cbn [eval_body]. sb (exact IHes). apply sim_prim_total. }
          split; [exact E|]. rewrite (eval_test_unfold call), (eval_test_unfold callo). apply Hdef; exact E.
        - intros n es IHes Hs. simpl in Hs. specialize (IHes Hs).
          assert (E : sim eq (eval call (ETuple n es)) (eval callo (ETuple n es))).
          { rewrite (eval_unfold call), (eval_unfold callo). cbn [eval_body]. sb (exact IHes). apply sim_prim_total. }
          split; [exact E|]. rewrite (eval_test_unfold call), (eval_test_unfold callo). apply Hdef; exact E.
        - intros _. apply sim_ret. reflexivity.
        - intros e IHe r IHr Hs. simpl in Hs. apply andb_true_iff in Hs; destruct Hs as [Hs1 Hs2].
          destruct (IHe Hs1) as [E1 E2]. specialize (IHr Hs2). rewrite (eval_list_unfold call), (eval_list_unfold callo).
          sb (exact E1). sb (exact IHr). apply sim_ret. reflexivity.
        - intros _ l. apply sim_ret. reflexivity.
        - intros o e IHe r IHr Hs l. simpl in Hs. apply andb_true_iff in Hs; destruct Hs as [Hs1 Hs2].
          destruct (IHe Hs1) as [E1 E2]. specialize (IHr Hs2). rewrite (eval_cmps_unfold call), (eval_cmps_unfold callo).
          destruct r as [|o2 e2 r2]; [sb (exact E1); apply sim_prim|].
          sb (exact E1). sb (apply sim_prim). sb (apply sim_truth).
          match goal with |- sim _ _ (if ?bb then _ else _) => destruct bb end; [apply IHr|apply sim_ret; reflexivity].
      Qed.

      Notation TE := (proj1 transp_expr).
      Notation PE := (proj1 plain_sim).

      (* guard of the transparency theorem: with the [exception] hook, a handler's type expression is evaluated a
         second time for the payload of the event and the bound name is read (modelled in the reference semantics
         as the implementation does it); this is invisible when the type is absent or a (non-local) name: looking the
         name up again cannot fail and has no effect.  An arbitrary type expression would be evaluated twice. *)
      Definition bare_handler (ty : option expr) (name : option string) : bool := negb (is_some ty) && negb (is_some name).
      (* a handler without type, or whose type is a name that is not a local variable (an exception class) *)
      Definition simple_handler (ty : option expr) : bool :=
        match ty with
        | None => true
        | Some (EName _ _ NLocal) => false
        | Some (EName _ _ _) => true
        | Some _ => false
        end.
      Fixpoint tk_s (s : stmt) : bool :=
        match s with
        | SIf _ _ b o | SWhile _ _ b o | SFor _ _ _ b o => tk_ss b && tk_ss o
        | STry _ b hs o f => tk_ss b && tk_hs hs && tk_ss o && tk_ss f
        | _ => true
        end
      with tk_ss (ss : stmts) : bool := match ss with Snil => true | Scons s r => tk_s s && tk_ss r end
      with tk_hs (hs : handlers) : bool :=
        match hs with
        | Hnil => true
        | Hcons ty name b r => (negb (cov "exception") || simple_handler ty) && tk_ss b && tk_hs r
        end.

      Lemma ropt_sim c o : src_oe o = true -> sim eq (reval_opt c o) (eval_opt callo o).
      Proof.
        destruct o as [e|]; intros Hs; [|apply sim_ret; reflexivity]. simpl in Hs. unfold reval_opt, eval_opt.
        sb (exact (proj1 (TE e Hs c))). apply sim_ret. reflexivity.
      Qed.
      Lemma store_sim t v : src_t t = true -> sim eq (rstore t v) (store callo t v).
      Proof.
        destruct t as [x|n e x|n e i]; intros Hs; simpl in Hs; cbn [rstore store]; [apply sim_assign| |].
        - sb (exact (proj1 (TE e Hs rc_tgt))). apply sim_prim.
        - apply andb_true_iff in Hs; destruct Hs as [Hs1 Hs2].
          sb (exact (proj1 (TE e Hs1 rc_tgt))). sb (exact (proj1 (TE i Hs2 rc_tgt))). apply sim_prim.
      Qed.
      Lemma store_all_sim ts v : forallb src_t ts = true -> sim eq (rstore_all ts v) (store_all callo ts v).
      Proof.
        induction ts as [|t r IH]; intros Hs; simpl in Hs; cbn [rstore_all store_all]; [apply sim_ret; reflexivity|].
        apply andb_true_iff in Hs; destruct Hs as [Hs1 Hs2]. sb (exact (store_sim t v Hs1)). apply IH; exact Hs2.
      Qed.
      Lemma raug_quiet on n o l r v : quiet (raug_events on n o l r v) v.
      Proof. Transparent raug_events. unfold raug_events. Opaque raug_events. destruct on; qq. Qed.
      Lemma exit_event_quiet leaf on n : quiet (exit_event leaf on n) tt.
      Proof. unfold exit_event. destruct on; qq. Qed.
      Lemma for_exit_quiet n : quiet (for_exit n) tt.
      Proof. unfold for_exit. qq. Qed.
      Lemma truth_true : meq (truth (p_const (KBool true))) (ret true).
      Proof.
        Transparent truth prim. intros s. unfold truth, prim, ret. rewrite truth_bool. unfold set_w. destruct s; reflexivity. Opaque truth prim.
      Qed.

      Lemma src_not_gen e : src_e e = true ->
        (match e with RGen _ inner => inner | _ => e end) = e /\ (match e with RGen n _ => Some n | _ => @None nid end) = None.
      Proof. intros Hs. destruct e; try discriminate Hs; split; reflexivity. Qed.

      (* a test in statement position: covered (test_value, the two notifications, decide) or not *)
      Lemma stmt_test c leaf n (on : bool) :
        src_e c = true ->
        sim eq (if on then
                  bind (test_value rc0 c) (fun vt =>
                  bind (announce true true n) (fun _ =>
                  bind (ev "enter_control_flow" n [AV (fst vt)]) (fun hi =>
                  bind (ev leaf n [AV (fst vt)]) (fun lo => decide vt lo hi))))
                else bind (reval_tv rc0 c) (fun ct => ret (snd ct)))
               (eval_test callo c).
      Proof.
        intros Hs. destruct (TE c Hs rc0) as [T1 T2]. destruct on.
        - unfold test_value, decide. apply sim_ret_wrap. stop.
          test_tac c rc0 T1 T2; apply sim_ret; reflexivity.
        - sl (exact T2). apply sim_ret. assumption.
      Qed.

      (* ---- reasoning under a condition on the (left) state: what a successful lookup leaves true *)
      Definition lookup_val (x : string) (s : st) : option val :=
        match frames s with
        | fr :: _ => if mem_str x (lnames fr) then alookup x (locals fr) else alookup x (genv s)
        | [] => alookup x (genv s)
        end.
      Lemma lookup_some x s v : lookup_val x s = Some v -> lookup x s = (Ok v, s).
      Proof.
        Transparent lookup. unfold lookup_val, lookup. destruct (frames s) as [|fr r].
        - intros ->. reflexivity.
        - destruct (mem_str x (lnames fr)); intros ->; reflexivity.
        Opaque lookup.
      Qed.
      Lemma lookup_inv x s v s' : lookup x s = (Ok v, s') -> lookup_val x s = Some v /\ s' = s.
      Proof.
        Transparent lookup raise_builtin prim_total. unfold lookup_val, lookup, raise_builtin, bind, prim_total, raise.
        destruct (frames s) as [|fr r].
        - destruct (alookup x (genv s)); [intros E; inversion E; auto|]. destruct (p_exc _ _ _); discriminate.
        - destruct (mem_str x (lnames fr)).
          + destruct (alookup x (locals fr)); [intros E; inversion E; auto|]. destruct (p_exc _ _ _); discriminate.
          + destruct (alookup x (genv s)); [intros E; inversion E; auto|]. destruct (p_exc _ _ _); discriminate.
        Opaque lookup raise_builtin prim_total.
      Qed.
      Lemma lookup_val_ext x s s' : genv s' = genv s -> frames s' = frames s -> lookup_val x s' = lookup_val x s.
      Proof. intros Hg Hf. unfold lookup_val. rewrite Hg, Hf. reflexivity. Qed.
      Lemma lookup_val_assign_same x v s : lookup_val x (snd (assign x v s)) = Some v.
      Proof.
        unfold lookup_val, assign. destruct (frames s) as [|fr r] eqn:F; cbn [snd frames genv]; [apply alookup_aupdate_same|].
        destruct (mem_str x (lnames fr)) eqn:Mx; cbn [snd frames genv locals lnames].
        - rewrite Mx. apply alookup_aupdate_same.
        - rewrite ?F, Mx. apply alookup_aupdate_same.
      Qed.
      Lemma lookup_val_assign_keeps x y v s : lookup_val x s <> None -> lookup_val x (snd (assign y v s)) <> None.
      Proof.
        destruct (String.eqb_spec x y) as [->|Hne]; [intros _; rewrite lookup_val_assign_same; discriminate|].
        unfold lookup_val, assign. destruct (frames s) as [|fr r] eqn:F; cbn [snd frames genv].
        - rewrite alookup_aupdate_other by exact Hne. auto.
        - destruct (mem_str y (lnames fr)) eqn:My; cbn [snd frames genv locals lnames].
          + destruct (mem_str x (lnames fr)); [rewrite alookup_aupdate_other by exact Hne|]; auto.
          + rewrite ?F. destruct (mem_str x (lnames fr)); [|rewrite alookup_aupdate_other by exact Hne]; auto.
      Qed.

      Lemma lookup_prim_keeps {A} (p : world -> pres A * world) s a s' : prim p s = (Ok a, s') -> genv s' = genv s /\ frames s' = frames s.
      Proof.
        Transparent prim. unfold prim. destruct (p (w s)) as [pr w']. destruct pr; intros E; inversion E; subst; split; reflexivity. Opaque prim.
      Qed.

      Definition simS {A B} (P : st -> Prop) (R : A -> B -> Prop) (m1 : M A) (m2 : M B) : Prop :=
        forall s1 s2, P s1 -> beq s1 s2 -> rres R (fst (m1 s1)) (fst (m2 s2)) /\ beq (snd (m1 s1)) (snd (m2 s2)).
      Lemma simS_of_sim {A B} P (R : A -> B -> Prop) m1 m2 : sim R m1 m2 -> simS P R m1 m2.
      Proof. intros Hs s1 s2 _ Hb. apply Hs; exact Hb. Qed.
      Lemma sim_of_simS {A B} (R : A -> B -> Prop) m1 m2 : simS (fun _ => True) R m1 m2 -> sim R m1 m2.
      Proof. intros Hs s1 s2 Hb. apply Hs; [exact I|exact Hb]. Qed.
      Lemma simS_bind {A B C D0} (P Q : st -> Prop) (R : A -> B -> Prop) (R' : C -> D0 -> Prop) m1 m2 k1 k2 :
        simS P R m1 m2 -> (forall s a s', P s -> m1 s = (Ok a, s') -> Q s') ->
        (forall a b, R a b -> simS Q R' (k1 a) (k2 b)) -> simS P R' (bind m1 k1) (bind m2 k2).
      Proof.
        intros Hm Hpost Hk s1 s2 HP Hb. unfold bind. specialize (Hm s1 s2 HP Hb). specialize (Hpost s1).
        destruct (m1 s1) as [r1 s1'], (m2 s2) as [r2 s2']. cbn [fst snd] in Hm. destruct Hm as [Hr Hs].
        destruct r1, r2; cbn [rres] in Hr; try contradiction; try (split; [exact Hr|exact Hs]).
        apply Hk; [exact Hr|eapply Hpost; [exact HP|reflexivity]|exact Hs].
      Qed.
      Lemma simS_catch {A B} P (R : A -> B -> Prop) m1 m2 : simS P R m1 m2 -> simS P (rres R) (catch m1) (catch m2).
      Proof.
        intros Hm s1 s2 HP Hb. unfold catch. specialize (Hm s1 s2 HP Hb).
        destruct (m1 s1) as [r1 s1'], (m2 s2) as [r2 s2']. cbn [fst snd] in Hm. destruct Hm as [Hr Hs].
        destruct r1, r2; cbn [rres] in Hr; try contradiction; (split; [cbn; try exact Hr; try exact I|exact Hs]).
      Qed.
      Lemma simS_quiet_at {A B C} (P : st -> Prop) (R : B -> C -> Prop) (m : M A) a k m2 :
        (forall s, P s -> fst (m s) = Ok a /\ beq (snd (m s)) s) -> sim R (k a) m2 -> simS P R (bind m k) m2.
      Proof.
        intros Hq Hk s1 s2 HP Hb. unfold bind. specialize (Hq s1 HP). destruct (m s1) as [r s1']. cbn [fst snd] in Hq.
        destruct Hq as [-> Hs]. apply Hk. eapply beq_trans; eassumption.
      Qed.

      (* the payload of the [exception] event of a simple handler is quiet once the type name is known to be bound
         and the handler's own name (if any) has just been assigned *)
      Lemma payload_quiet tryn ty name e s :
        simple_handler ty = true ->
        (match ty with Some (EName _ x _) => lookup_val x s <> None | _ => True end) ->
        (match name with Some nm => lookup_val nm s = Some e | None => True end) ->
        fst ((bind (reval_opt rc0 ty) (fun tv2 =>
              bind (match name with Some x => bind (lookup x) (fun v => ret (AV v)) | None => ret ANone end) (fun nv =>
              bind (announce true true tryn) (fun _ =>
              bind (ev "exception" tryn [match tv2 with Some v => AV v | None => ANone end; nv]) (fun _ => ret tt))))) s) = Ok tt
        /\ beq (snd ((bind (reval_opt rc0 ty) (fun tv2 =>
              bind (match name with Some x => bind (lookup x) (fun v => ret (AV v)) | None => ret ANone end) (fun nv =>
              bind (announce true true tryn) (fun _ =>
              bind (ev "exception" tryn [match tv2 with Some v => AV v | None => ANone end; nv]) (fun _ => ret tt))))) s)) s.
      Proof.
        intros Hsimple Hty Hname.
        assert (Htail : forall tv2 nv, quiet (bind (announce true true tryn) (fun _ =>
                          bind (ev "exception" tryn [match tv2 with Some v => AV v | None => ANone end; nv]) (fun _ => ret tt))) tt).
        { intros tv2 nv. qq. }
        assert (Hok : forall A B (m : M A) (k : A -> M B) s0 a s', m s0 = (Ok a, s') -> bind m k s0 = k a s').
        { intros A B m k s0 a s' E. unfold bind. rewrite E. reflexivity. }
        assert (Hnv : forall K : earg -> M unit, (forall nv, quiet (K nv) tt) ->
                  fst (bind (match name with Some x => bind (lookup x) (fun v => ret (AV v)) | None => ret ANone end) K s) = Ok tt
                  /\ beq (snd (bind (match name with Some x => bind (lookup x) (fun v => ret (AV v)) | None => ret ANone end) K s)) s).
        { intros K HK. destruct name as [nm|].
          - rewrite (Hok _ _ _ K s (AV e) s); [apply HK|]. rewrite (Hok _ _ _ _ s e s (lookup_some nm s e Hname)). reflexivity.
          - rewrite (Hok _ _ _ K s ANone s); [apply HK|reflexivity]. }
        destruct ty as [te|].
        - destruct te; try discriminate Hsimple. destruct s0; try discriminate Hsimple.
          all: cbn [reval_opt]; rewrite reval_unfold; cbn [reval_body]; unfold name_cov; rewrite !andb_false_r;
            destruct (lookup_val x s) as [v|] eqn:L; [|contradiction Hty; reflexivity];
            (rewrite (Hok _ _ _ _ s (Some v) s);
               [exact (Hnv (fun nv => bind (announce true true tryn) (fun _ =>
                                       bind (ev "exception" tryn [match Some v with Some v0 => AV v0 | None => ANone end; nv]) (fun _ => ret tt)))
                           (fun nv => Htail (Some v) nv))|]);
            rewrite (Hok _ _ _ _ s v s (lookup_some x s v L)); reflexivity.
        - cbn [reval_opt]. rewrite (Hok _ _ _ _ s None s); [|reflexivity].
          exact (Hnv (fun nv => bind (announce true true tryn) (fun _ =>
                                  bind (ev "exception" tryn [match @None val with Some v0 => AV v0 | None => ANone end; nv]) (fun _ => ret tt)))
                      (fun nv => Htail None nv)).
      Qed.

      Ltac loop_tail IHj :=
        match goal with
        | Hr : rres _ ?ra ?rb |- _ =>
          destruct ra as [[]| | | | | |], rb; cbn [rres] in Hr; try contradiction; subst;
          try (apply sim_ret; reflexivity); try exact IHj; try (apply sim_reraise; cbn; auto)
        end.

      Theorem transp_stmt :
        (forall s, src_s s = true -> tk_s s = true -> forall k, sim eq (rexec k s) (exec callo bound s))
        /\ (forall ss, src_ss ss = true -> tk_ss ss = true -> forall k, sim eq (rexec_list k ss) (exec_list callo bound ss))
        /\ (forall hs, src_hs hs = true -> tk_hs hs = true -> forall k tryn e,
              sim eq (rexec_handlers k tryn e hs) (exec_handlers callo bound e hs)).
      Proof.
        apply stmt_all_ind.
        - (* SExpr *) intros e Hs _ k. simpl in Hs. Transparent rexec exec. cbn [rexec exec]. Opaque rexec exec.
          sb (exact (proj1 (TE e Hs rc0))). apply sim_ret. reflexivity.
        - (* SAssign *) intros n ts e Hs _ k. simpl in Hs. apply andb_true_iff in Hs; destruct Hs as [Hs1 Hs2].
          Transparent rexec exec. cbn [rexec exec]. Opaque rexec exec.
          sb (exact (proj1 (TE e Hs2 (rc_str rc0)))).
          destruct (cov "write"); qs; apply store_all_sim; assumption.
        - (* SAug *) intros n t o e Hs _ k. simpl in Hs. apply andb_true_iff in Hs; destruct Hs as [Hs1 Hs2].
          Transparent rexec exec. cbn [rexec exec]. Opaque rexec exec.
          destruct t as [x|tn be x|tn be ie]; simpl in Hs1.
          + sb (apply sim_lookup). sb (exact (proj1 (TE e Hs2 (rc_str rc0)))). sb (apply sim_prim).
            eapply sim_quiet_l; [apply raug_quiet|]. apply sim_assign.
          + sb (exact (proj1 (PE be Hs1))). sb (apply sim_prim). sb (exact (proj1 (TE e Hs2 (rc_str rc0)))). sb (apply sim_prim).
            eapply sim_quiet_l; [apply raug_quiet|]. apply sim_prim.
          + apply andb_true_iff in Hs1; destruct Hs1 as [Hb Hi].
            sb (exact (proj1 (PE be Hb))). sb (exact (proj1 (PE ie Hi))). sb (apply sim_prim).
            sb (exact (proj1 (TE e Hs2 (rc_str rc0)))). sb (apply sim_prim).
            eapply sim_quiet_l; [apply raug_quiet|]. apply sim_prim.
        - (* SIf *) intros n c body IHb orelse IHo Hs Hk k. simpl in Hs, Hk.
          apply andb_true_iff in Hs; destruct Hs as [Hs12 Hs3]. apply andb_true_iff in Hs12; destruct Hs12 as [Hs1 Hs2].
          apply andb_true_iff in Hk; destruct Hk as [Hk1 Hk2].
          rewrite rexec_SIf, exec_SIf. sb (apply (stmt_test c "enter_if" n (cov "enter_if") Hs1)).
          apply sim_meq_r with (m2' := bind (if b then exec_list callo bound body else exec_list callo bound orelse) (fun _ => ret tt)).
          { symmetry. rewrite <- (bind_ret_r (if b then exec_list callo bound body else exec_list callo bound orelse)) at 2.
            apply bind_cong; [reflexivity|intros []; reflexivity]. }
          sb (destruct b; [apply IHb|apply IHo]; assumption).
          apply sim_quiet_only with (a := tt); [apply exit_event_quiet|reflexivity].
        - (* SWhile *) intros n c body IHb orelse IHo Hs Hk k. simpl in Hs, Hk.
          apply andb_true_iff in Hs; destruct Hs as [Hs12 Hs3]. apply andb_true_iff in Hs12; destruct Hs12 as [Hs1 Hs2].
          apply andb_true_iff in Hk; destruct Hk as [Hk1 Hk2].
          rewrite rexec_SWhile, exec_SWhile.
          assert (Hloop : forall j, sim eq (rwloop k n c body orelse j) (wloop callo c body orelse j)); [|apply Hloop].
          induction j as [|j IHj]; [apply sim_const; exact I|]. cbn [rwloop wloop].
          sb (apply (stmt_test c "enter_while" n (cov "enter_while") Hs1)). destruct b.
          + sb (apply sim_catch; apply IHb; assumption).
            loop_tail IHj.
          + apply sim_meq_r with (m2' := bind (exec_list callo bound orelse) (fun _ => ret tt)).
            { symmetry. rewrite <- (bind_ret_r (exec_list callo bound orelse)) at 2. apply bind_cong; [reflexivity|intros []; reflexivity]. }
            sb (apply IHo; assumption). destruct (cov "normal_exit_while"); qs; apply sim_ret; reflexivity.
        - (* SFor *) intros n x it body IHb orelse IHo Hs Hk k. simpl in Hs, Hk.
          apply andb_true_iff in Hs; destruct Hs as [Hs12 Hs3]. apply andb_true_iff in Hs12; destruct Hs12 as [Hs1 Hs2].
          apply andb_true_iff in Hk; destruct Hk as [Hk1 Hk2].
          rewrite rexec_SFor, exec_SFor. destruct (src_not_gen it Hs1) as [G1 G2]. rewrite G1, G2.
          sb (exact (proj1 (TE it Hs1 rc0))). sb (apply sim_prim).
          assert (Hloop : forall j, sim eq (rfloop k n x b0 b body orelse j) (floop callo x None b0 b body orelse j)); [|apply Hloop].
          induction j as [|j IHj]; [apply sim_const; exact I|]. cbn [rfloop floop]. unfold for_next.
          sb (apply sim_prim).
          assert (Hnx : sim eq (if cov "enter_for" then
                                  bind (announce true true n) (fun _ =>
                                  bind (ev "enter_control_flow" n [AB (match b1 with Some _ => true | None => false end)]) (fun hi =>
                                  bind (ev "enter_for" n [match b1 with Some v => AV v | None => AO "StopIteration()" end; AV b]) (fun lo =>
                                  rfor_answer n b1 b lo hi)))
                                else ret b1) (ret b1)).
          { destruct (cov "enter_for"); qs; apply sim_ret; reflexivity. }
          apply sim_meq_r with (m2' := bind (ret b1) (fun nx => match nx with
                                  | None => exec_list callo bound orelse
                                  | Some v => bind (assign x v) (fun _ => bind (catch (exec_list callo bound body)) (fun r =>
                                      match r with Ok _ | Cnt => floop callo x None b0 b body orelse j | Brk => ret tt | other => reraise other end))
                                  end)); [intros s; reflexivity|].
          sb (exact Hnx). destruct b2 as [v|].
          + sb (apply sim_assign). sb (apply sim_catch; apply IHb; assumption).
            loop_tail IHj.
          + eapply sim_quiet_l with (a := tt); [destruct (cov "enter_for" || cov "normal_exit_for"); [apply for_exit_quiet|apply quiet_ret]|]. cbv beta.
            apply IHo; assumption.
        - (* SBreak *) intros n _ _ k. Transparent rexec exec. cbn [rexec exec]. Opaque rexec exec. unfold rbrk.
          destruct (r_loop k) as [[l ty]|]; [|apply sim_const; exact I].
          destruct (cov "_break"); [|apply sim_const; exact I].
          destruct ty; qs; cbn [sel2]; (eapply sim_meq_l; [apply bind_cong; [apply truth_true|intros t; apply meq_refl]| ]); stop; apply sim_const; exact I.
        - (* SContinue *) intros n _ _ k. Transparent rexec exec. cbn [rexec exec]. Opaque rexec exec. unfold rbrk.
          destruct (r_loop k) as [[l ty]|]; [|apply sim_const; exact I].
          destruct (cov "_continue"); [|apply sim_const; exact I].
          destruct ty; qs; cbn [sel2]; (eapply sim_meq_l; [apply bind_cong; [apply truth_true|intros t; apply meq_refl]| ]); stop; apply sim_const; exact I.
        - (* SPass *) intros _ _ k. apply sim_ret. reflexivity.
        - (* SAssert *) intros n c m Hs _ k. simpl in Hs. apply andb_true_iff in Hs; destruct Hs as [Hs1 Hs2].
          Transparent rexec exec. cbn [rexec exec]. Opaque rexec exec.
          destruct (TE c Hs1 rc0) as [T1 T2].
          assert (Hfail : sim eq (bind (reval_opt rc0 m) (fun mv => bind (prim_total (p_assertion mv)) (fun e => @raise unit e)))
                                 (bind (eval_opt callo m) (fun mv => bind (prim_total (p_assertion mv)) (fun e => @raise unit e)))).
          { sb (exact (ropt_sim rc0 m Hs2)). sb (apply sim_prim_total). apply sim_raise. }
          destruct (cov "_assert").
          + unfold test_value, decide. destruct (jumpy c) eqn:J.
            * eapply sim_bind with (R := fun xt t0 => snd xt = Some t0);
                [sl (exact T2); apply sim_ret; cbn [snd]; unfold tvr in *; congruence|].
              intros xt t0 Hx. qs. rewrite Hx. stop. destruct t0; [apply sim_ret; reflexivity|exact Hfail].
            * rewrite (eval_test_nonjumpy c J). stop. sb (exact T1). stop. qs. cbn [fst snd sel3]. sb (apply sim_truth).
              destruct b0; [apply sim_ret; reflexivity|exact Hfail].
          + sb (exact T2). unfold tvr in *. subst. destruct (snd a); [apply sim_ret; reflexivity|exact Hfail].
        - (* SRaise *) intros n ex ca Hs _ k. simpl in Hs. apply andb_true_iff in Hs; destruct Hs as [Hs1 Hs2].
          Transparent rexec exec. cbn [rexec exec]. Opaque rexec exec.
          sb (exact (ropt_sim rc0 ex Hs1)). sb (exact (ropt_sim rc0 ca Hs2)).
          eapply sim_quiet_l with (a := tt).
          { destruct (cov "_raise"); [|apply quiet_ret]. eapply quiet_bind; [apply quiet_announce|]. eapply quiet_bind; [apply quiet_ev|]. apply quiet_ret. }
          cbv beta. destruct b as [e0|].
          + sb (apply sim_prim_total). destruct b0 as [cv|]; [sb (apply sim_prim_total)|]; apply sim_raise.
          + sb (apply sim_cur_exc). destruct b as [e|]; [apply sim_raise|apply sim_raise_builtin].
        - (* STry *) intros n body IHb hs IHh orelse IHo final IHf Hs Hk k. simpl in Hs, Hk.
          apply andb_true_iff in Hs; destruct Hs as [Hs123 Hs4]. apply andb_true_iff in Hs123; destruct Hs123 as [Hs12 Hs3].
          apply andb_true_iff in Hs12; destruct Hs12 as [Hs1 Hs2].
          apply andb_true_iff in Hk; destruct Hk as [Hk123 Hk4]. apply andb_true_iff in Hk123; destruct Hk123 as [Hk12 Hk3].
          apply andb_true_iff in Hk12; destruct Hk12 as [Hk1 Hk2].
          rewrite rexec_STry, exec_STry.
          sb (apply sim_catch; eapply sim_quiet_l with (a := tt);
              [destruct (cov "enter_try"); [eapply quiet_bind; [apply quiet_announce|]; eapply quiet_bind; [apply quiet_ev|]; apply quiet_ret|apply quiet_ret]
              |apply IHb; assumption]).
          sb (apply sim_catch;
              match goal with Hr : rres _ ?ra ?rb |- _ =>
                destruct ra as [[]|e1| | | | |], rb; cbn [rres] in Hr; try contradiction; subst;
                [ apply sim_meq_r with (m2' := bind (exec_list callo bound orelse) (fun _ => ret tt));
                  [symmetry; rewrite <- (bind_ret_r (exec_list callo bound orelse)) at 2; apply bind_cong; [reflexivity|intros []; reflexivity]|];
                  sb (apply IHo; assumption); apply sim_quiet_only with (a := tt); [|reflexivity];
                  destruct (cov "clean_exit_try"); [eapply quiet_bind; [apply quiet_announce|]; eapply quiet_bind; [apply quiet_ev|]; apply quiet_ret|apply quiet_ret]
                | apply IHh; assumption
                | apply sim_reraise; cbn; auto ..]
              end).
          sb (apply sim_catch; apply IHf; assumption).
          match goal with Hr : rres _ ?ra ?rb |- sim _ (match ?ra with _ => _ end) _ =>
            destruct ra as [[]| | | | | |], rb; cbn [rres] in Hr; try contradiction; subst; apply sim_reraise; cbn; auto end.
        - (* SReturn *) intros n e Hs _ k. simpl in Hs.
          Transparent rexec exec. cbn [rexec exec]. Opaque rexec exec.
          sb (destruct e as [a|]; [exact (proj1 (TE a Hs rc0))|apply sim_ret; reflexivity]).
          destruct (r_fn k) as [[f name]|]; [destruct (cov "_return")|]; qs; apply sim_const; reflexivity.
        - (* SDef *) intros n fid name _ _ k. Transparent rexec exec. cbn [rexec exec]. Opaque rexec exec. apply sim_assign.
        - (* Snil *) intros _ _ k. apply sim_ret. reflexivity.
        - (* Scons *) intros s IHs r IHr Hs Hk k. simpl in Hs, Hk.
          apply andb_true_iff in Hs; destruct Hs as [Hs1 Hs2]. apply andb_true_iff in Hk; destruct Hk as [Hk1 Hk2].
          rewrite rexec_list_cons, exec_list_cons. sb (apply IHs; assumption). apply IHr; assumption.
        - (* Hnil *) intros _ _ k tryn e. apply sim_raise.
        - (* Hcons *) intros ty name body IHb rest IHr Hs Hk k tryn e. simpl in Hs, Hk.
          apply andb_true_iff in Hs; destruct Hs as [Hs12 Hs3]. apply andb_true_iff in Hs12; destruct Hs12 as [Hs1 Hs2].
          apply andb_true_iff in Hk; destruct Hk as [Hk12 Hk3]. apply andb_true_iff in Hk12; destruct Hk12 as [Hk1 Hk2].
          rewrite rexec_handlers_cons, exec_handlers_cons.
          assert (Hm : sim eq (bind (reval_opt rc0 ty) (fun tv => match tv with None => ret true | Some cls => prim (p_exc_match e cls) end))
                              (match ty with None => ret true | Some te => bind (eval callo te) (fun cls => prim (p_exc_match e cls)) end)).
          { destruct ty as [te|]; cbn [reval_opt]; [|stop; apply sim_ret; reflexivity]. simpl in Hs1. stop.
            sb (exact (proj1 (TE te Hs1 rc0))). apply sim_prim. }
          assert (Htail : forall r1 r2 : res unit, rres eq r1 r2 ->
                    sim eq (bind pop_exc (fun _ => bind (match name with Some x => unbind x | None => ret tt end) (fun _ => @reraise unit r1)))
                           (bind pop_exc (fun _ => bind (match name with Some x => unbind x | None => ret tt end) (fun _ => @reraise unit r2)))).
          { intros r1 r2 Hr. sb (apply sim_pop_exc). sb (destruct name; [apply sim_unbind|apply sim_ret; reflexivity]). apply sim_reraise.
            destruct r1 as [[]| | | | | |], r2; cbn [rres] in Hr; try contradiction; subst; cbn; auto. }
          eapply sim_meq_l; [symmetry; apply bind_assoc|].
          destruct (cov "exception") eqn:C.
          + (* covered: the payload looks the type name and the bound name up once more *)
            cbn [negb orb] in Hk1.
            set (Pty := fun s : st => match ty with Some (EName _ x _) => lookup_val x s <> None | _ => True end).
            set (Pnm := fun s : st => Pty s /\ match name with Some nm => lookup_val nm s = Some e | None => True end).
            assert (Hext : forall s s', genv s' = genv s -> frames s' = frames s -> Pty s -> Pty s').
            { intros s s' Hg Hf. unfold Pty. destruct ty as [te|]; [|auto]. destruct te; auto. rewrite (lookup_val_ext x s s' Hg Hf). auto. }
            apply sim_of_simS.
            eapply simS_bind with (Q := Pty); [apply simS_of_sim; exact Hm| |].
            { (* a successful evaluation of the type leaves its name bound *)
              intros s a s' _. unfold Pty. destruct ty as [te|]; [|auto]. destruct te; auto. destruct s0; try discriminate Hk1.
              all: cbn [reval_opt]; rewrite reval_unfold; cbn [reval_body]; unfold name_cov; rewrite !andb_false_r;
                unfold bind; destruct (lookup x s) as [r s0] eqn:L; destruct r; try discriminate;
                apply lookup_inv in L; destruct L as [Lv ->]; cbn [ret];
                intros E; apply lookup_prim_keeps in E; destruct E as [Eg Ef];
                rewrite (lookup_val_ext x s s' Eg Ef), Lv; discriminate. }
            intros m1 m2 <-. destruct m1; [|apply simS_of_sim; apply IHr; assumption].
            eapply simS_bind with (Q := Pnm); [apply simS_of_sim; destruct name; [apply sim_assign|apply sim_ret; reflexivity]| |].
            { intros s a s' HP E. unfold Pnm. destruct name as [nm|].
              - assert (s' = snd (assign nm e s)) as -> by (rewrite E; reflexivity). split; [|apply lookup_val_assign_same].
                revert HP. unfold Pty. destruct ty as [te|]; [|auto]. destruct te; auto. apply lookup_val_assign_keeps.
              - inversion E; subst. split; [exact HP|exact I]. }
            intros _ _ _.
            eapply simS_bind with (Q := Pnm); [apply simS_of_sim; apply sim_push_exc| |].
            { intros s a s' [HP HN] E. inversion E; subst. split; [apply (Hext s); [reflexivity|reflexivity|exact HP]|].
              destruct name as [nm|]; [|exact I]. rewrite (lookup_val_ext nm s); [exact HN|reflexivity|reflexivity]. }
            intros _ _ _.
            eapply simS_bind with (Q := fun _ => True) (R := rres eq).
            * apply simS_catch. eapply simS_quiet_at with (a := tt); [|apply IHb; assumption].
              intros s [HP HN]. exact (payload_quiet tryn ty name e s Hk1 HP HN).
            * auto.
            * intros r1 r2 Hr. apply simS_of_sim. apply Htail. exact Hr.
          + sb (exact Hm). destruct b; [|apply IHr; assumption].
            sb (destruct name; [apply sim_assign|apply sim_ret; reflexivity]). sb (apply sim_push_exc).
            sb (apply sim_catch; eapply sim_quiet_l with (a := tt); [apply quiet_ret|apply IHb; assumption]).
            apply Htail. assumption.
      Qed.
    End Transparency.


  End Ref.

  (* ---------------------------------------------------------------- functions, fuel, programs *)
  Section Run.
  Variable funs : list fundef.

  Definition push_frame (fd : fundef) (args : list val) : M unit :=
    fun s =>
      if Nat.eqb (length args) (length (f_params fd)) then
        (Ok tt, {| w := w s; genv := genv s;
                   frames := {| locals := combine (f_params fd) args; lnames := f_params fd ++ f_locals fd |} :: frames s;
                   excs := excs s; eng := eng s |})
      else raise_builtin "TypeError" "wrong number of arguments" s.
  Definition pop_frame : M unit :=
    fun s => (Ok tt, {| w := w s; genv := genv s; frames := tl (frames s); excs := excs s; eng := eng s |}).

  Fixpoint run_fun (fuel : nat) (fid : nat) (args : list val) : M val :=
    match fuel with
    | 0 => fun s => (Fuel, s)
    | S f =>
      match nth_error funs fid with
      | None => stuck "no such function"
      | Some fd =>
        push_frame fd args ;;
        do r <- catch (exec_list (run_fun f) f (f_body fd));
        pop_frame ;;
        match r with
        | Ok _ => ret (p_const KNone)
        | Ret v => ret v
        | Brk | Cnt => stuck "break/continue outside loop"
        | other => fun s => (match other with Exc e => Exc e | Fuel => Fuel | Stuck y => Stuck y | _ => Stuck "?" end, s)
        end
      end
    end.

  (* reference-level function call: the body of a covered function is bracketed by function_enter and,
     when control reaches its end, function_exit / implicit_return *)
  Section RefRun.
    Variable H : list string.
    Fixpoint rrun_fun (fuel : nat) (fid : nat) (args : list val) : M val :=
      match fuel with
      | 0 => fun s => (Fuel, s)
      | S f =>
        match nth_error funs fid with
        | None => stuck "no such function"
        | Some fd =>
          let on := cov H "function_enter" || cov H "implicit_return" in
          let n := f_nid fd in
          push_frame fd args ;;
          do r <- catch ((if on then announce true true n ;;
                                     ev "function_enter" n [AL (repeat AThunk (length (f_params fd))); AS (f_name fd); AB false] ;; ret tt
                          else ret tt) ;;
                         rexec_list H (rrun_fun f) f {| r_loop := None; r_fn := Some (n, f_name fd) |} (f_body fd) ;;
                         (if on then announce true true n ;;
                                     ev "function_exit" n [AS (f_name fd); ANone] ;;
                                     ev "implicit_return" n [AI (Z.of_nat n); AS (f_name fd); ANone] ;; ret tt
                          else ret tt));
          pop_frame ;;
          match r with
          | Ok _ => ret (p_const KNone)
          | Ret v => ret v
          | Brk | Cnt => stuck "break/continue outside loop"
          | other => fun s => (match other with Exc e => Exc e | Fuel => Fuel | Stuck y => Stuck y | _ => Stuck "?" end, s)
          end
        end
      end.

    Definition rrun_module (fuel : nat) (wrapped : bool) (main : stmts) : M unit :=
      (if wrapped then notify "begin_execution" [] ;; ret tt else ret tt) ;;
      do r <- catch (rexec_list H (rrun_fun fuel) fuel {| r_loop := None; r_fn := None |} main);
      match r with
      | Exc e =>
        if wrapped && p_is_exception e then
          notify "runtime_event" [AS ""; AI (-1)] ;;
          notify "uncaught_exception" [AV e; AO "<traceback>"] ;;
          (notify "end_execution" [] ;; ret tt) ;;
          raise e
        else (if wrapped then notify "end_execution" [] ;; ret tt else ret tt) ;; raise e
      | other => (if wrapped then notify "end_execution" [] ;; ret tt else ret tt) ;; reraise other
      end.
  End RefRun.

  (* the module body; [wrapped] = the instrumenter inserted the try/except wrapper (something was instrumented) *)
  Definition end_execution : M unit := notify "end_execution" [] ;; ret tt.

  Definition run_module (fuel : nat) (wrapped : bool) (main : stmts) : M unit :=
    (if wrapped then notify "begin_execution" [] ;; ret tt else ret tt) ;;
    do r <- catch (exec_list (run_fun fuel) fuel main);
    match r with
    | Exc e =>
      if wrapped && p_is_exception e then
        (* _catch_: runtime_event("", -1), uncaught_exception, end_execution, re-raise *)
        notify "runtime_event" [AS ""; AI (-1)] ;;
        notify "uncaught_exception" [AV e; AO "<traceback>"] ;;
        end_execution ;;
        raise e
      else (if wrapped then end_execution else ret tt) ;; raise e
    | other => (if wrapped then end_execution else ret tt) ;; reraise other
    end.
  End Run.

  (* ================================================================ refinement at function and module level
     The instrumented program (instrumented bodies, called through the instrumented function table) under the
     runtime model = the reference semantics of the source program (source bodies, source function table). *)
  Section RunRefinement.
    Variable H : list string.
    Variable funs : list fundef.
    Variable tr : val -> bool.
    Hypothesis truth_pure : forall v w0, p_truth v w0 = (POk (tr v), w0).
    Hypothesis tr_bool : forall b, tr (p_const (KBool b)) = b.
    Hypothesis unbound_same : forall x w0, p_exc "NameError:free" x w0 = p_exc "UnboundLocalError" x w0.

    Definition fun_ok (fd : fundef) : bool := src_ss (f_body fd) && ok_ss H (f_body fd).
    Hypothesis funs_ok : forallb fun_ok funs = true.

    Ltac mstep := apply bind_cong; [reflexivity|intros ?].
    Ltac mtop := repeat match goal with
      | |- meq (bind (bind ?m ?k) ?h) _ => apply (meq_rw_l _ _ _ (bind_assoc m k h)); cbv beta
      | |- meq (bind (ret ?a) ?k) _ => apply (meq_rw_l _ _ _ (bind_ret_l a k)); cbv beta
      | |- meq _ (bind (bind ?m ?k) ?h) => apply (meq_rw_r _ _ _ (bind_assoc m k h)); cbv beta
      | |- meq _ (bind (ret ?a) ?k) => apply (meq_rw_r _ _ _ (bind_ret_l a k)); cbv beta
      end.
    Ltac ms := mtop; mstep.

    Theorem refine_fun : forall fuel fid args,
      meq (run_fun (map (instr_fun H) funs) fuel fid args) (rrun_fun funs H fuel fid args).
    Proof.
      induction fuel as [|f IH]; intros fid args; [reflexivity|].
      cbn [run_fun rrun_fun]. rewrite nth_error_map.
      destruct (nth_error funs fid) as [fd|] eqn:E; cbn [option_map]; [|reflexivity].
      assert (Hfd : fun_ok fd = true).
      { apply nth_error_In in E. rewrite forallb_forall in funs_ok. apply funs_ok; exact E. }
      unfold fun_ok in Hfd. apply andb_true_iff in Hfd; destruct Hfd as [Hs Ho].
      cbv zeta.
      change (push_frame (instr_fun H fd) args) with (push_frame fd args). mstep.
      apply bind_cong; [apply catch_cong|intros r; reflexivity].
      pose (k := {| r_loop := None; r_fn := Some (f_nid fd, f_name fd) |}).
      assert (Hbody : meq (exec_list (run_fun (map (instr_fun H) funs) f) f (instr_ss H {| loop := None; fn := Some (f_nid fd, f_name fd) |} (f_body fd)))
                          (rexec_list H (rrun_fun funs H f) f k (f_body fd))).
      { exact (proj1 (proj2 (refine_stmt H (rrun_fun funs H f) f tr truth_pure (run_fun (map (instr_fun H) funs) f) IH unbound_same tr_bool)) (f_body fd) Hs Ho k). }
      set (ci := run_fun (map (instr_fun H) funs) f) in *.
      unfold instr_fun. cbn [f_body f_nid f_name f_params].
      change (sel H "function_enter" || sel H "implicit_return") with (cov H "function_enter" || cov H "implicit_return").
      destruct (cov H "function_enter" || cov H "implicit_return").
      - unfold rstmt. rewrite exec_list_cons.
        change (exec ci f (SExpr (RFuncEntry (f_nid fd) (f_params fd) (f_name fd))))
          with (bind (eval ci (RFuncEntry (f_nid fd) (f_params fd) (f_name fd))) (fun _ => ret tt)).
        rewrite eval_unfold. cbn [eval_body]. unfold rt_func_entry. rewrite announce_on_cf. ms. ms. ms. mtop.
        rewrite exec_list_app. rewrite Hbody. mstep. unfold s1. rewrite exec_list_cons, exec_list_nil.
        change (exec ci f (SExpr (RFuncExit (f_nid fd) (f_name fd))))
          with (bind (eval ci (RFuncExit (f_nid fd) (f_name fd))) (fun _ => ret tt)).
        rewrite eval_unfold. cbn [eval_body]. unfold rt_func_exit. rewrite announce_on_cf. ms. ms. ms. ms. mtop. reflexivity.
      - mtop. rewrite Hbody. rewrite <- (bind_ret_r (rexec_list H (rrun_fun funs H f) f k (f_body fd))) at 1.
        mstep. destruct a0. reflexivity.
    Qed.

    Theorem refine_module fuel wrapped main :
      src_ss main = true -> ok_ss H main = true ->
      meq (run_module (map (instr_fun H) funs) fuel wrapped (instr_ss H {| loop := None; fn := None |} main))
          (rrun_module funs H fuel wrapped main).
    Proof.
      intros Hs Ho. unfold run_module, rrun_module. mstep.
      apply bind_cong; [apply catch_cong|intros r; reflexivity].
      exact (proj1 (proj2 (refine_stmt H (rrun_fun funs H fuel) fuel tr truth_pure (run_fun (map (instr_fun H) funs) fuel)
                                       (refine_fun fuel) unbound_same tr_bool)) main Hs Ho {| r_loop := None; r_fn := None |}).
    Qed.
  End RunRefinement.

  (* ================================================================ transparency at function and module level *)
  Section RunTransparency.
    Variable H : list string.
    Variable funs : list fundef.
    Hypothesis observing_all : Forall (observing earg) analyses.
    Variable mkl : list val -> val.
    Hypothesis mklist_pure : forall l w0, p_mklist l w0 = (mkl l, w0).
    Hypothesis tuple_of_list_spec : forall l w0, p_tuple_of_list (mkl l) w0 = p_mktuple l w0.
    Hypothesis truth_bool : forall b w0, p_truth (p_const (KBool b)) w0 = (POk b, w0).

    Definition fun_tk (fd : fundef) : bool := src_ss (f_body fd) && tk_ss H (f_body fd).
    Hypothesis funs_tk : forallb fun_tk funs = true.

    Lemma sim_push_frame fd args : sim eq (push_frame fd args) (push_frame fd args).
    Proof.
      intros s1 s2 Hb. pose proof Hb as [Hw [Hg [Hf He]]]. unfold push_frame.
      destruct (Nat.eqb (length args) (length (f_params fd))).
      - split; [reflexivity|repeat split; cbn; congruence].
      - apply (sim_raise_builtin eq "TypeError" "wrong number of arguments" s1 s2 Hb).
    Qed.
    Lemma sim_pop_frame : sim eq pop_frame pop_frame.
    Proof. intros s1 s2 [Hw [Hg [Hf He]]]. split; [reflexivity|repeat split; cbn; congruence]. Qed.

    Ltac qq := repeat first [ apply quiet_ret | eapply quiet_bind; [first [apply quiet_announce|apply quiet_ev|apply quiet_notify|apply quiet_ret]; assumption|] ].

    Theorem transp_fun : forall fuel fid args, sim eq (rrun_fun funs H fuel fid args) (run_fun funs fuel fid args).
    Proof.
      induction fuel as [|f IH]; intros fid args; [apply sim_const; exact I|].
      cbn [run_fun rrun_fun]. destruct (nth_error funs fid) as [fd|] eqn:E; [|apply sim_stuck].
      assert (Hfd : fun_tk fd = true).
      { apply nth_error_In in E. rewrite forallb_forall in funs_tk. apply funs_tk; exact E. }
      unfold fun_tk in Hfd. apply andb_true_iff in Hfd; destruct Hfd as [Hs Hk]. cbv zeta.
      eapply sim_bind; [apply sim_push_frame|intros ? ? _].
      eapply sim_bind with (R := rres eq).
      - apply sim_catch.
        eapply sim_quiet_l with (a := tt); [destruct (cov H "function_enter" || cov H "implicit_return"); qq|]. cbv beta.
        apply sim_meq_r with (m2' := bind (exec_list (run_fun funs f) f (f_body fd)) (fun _ => ret tt)).
        { symmetry. rewrite <- (bind_ret_r (exec_list (run_fun funs f) f (f_body fd))) at 2. apply bind_cong; [reflexivity|intros []; reflexivity]. }
        eapply sim_bind; [exact (proj1 (proj2 (transp_stmt H (rrun_fun funs H f) f observing_all mkl mklist_pure tuple_of_list_spec truth_bool (run_fun funs f) IH)) (f_body fd) Hs Hk _)|].
        intros ? ? _. apply sim_quiet_only with (a := tt); [|reflexivity].
        destruct (cov H "function_enter" || cov H "implicit_return"); qq.
      - intros r1 r2 Hr. eapply sim_bind; [apply sim_pop_frame|intros ? ? _].
        destruct r1 as [[]|e| | |v| |y], r2; cbn [rres] in Hr; try contradiction; subst;
          first [apply sim_ret; reflexivity | apply sim_stuck | apply sim_const; cbn; auto].
    Qed.

    Theorem transp_module fuel wrapped main :
      src_ss main = true -> tk_ss H main = true ->
      sim eq (rrun_module funs H fuel wrapped main) (run_module funs fuel false main).
    Proof.
      intros Hs Hk. unfold rrun_module, run_module, end_execution.
      eapply sim_quiet_l with (a := tt); [destruct wrapped; qq|]. cbv beta.
      eapply sim_meq_r; [apply bind_ret_l|]. cbv beta.
      eapply sim_bind with (R := rres eq).
      - apply sim_catch.
        exact (proj1 (proj2 (transp_stmt H (rrun_fun funs H fuel) fuel observing_all mkl mklist_pure tuple_of_list_spec truth_bool (run_fun funs fuel) (transp_fun fuel))) main Hs Hk _).
      - intros r1 r2 Hr.
        destruct r1 as [[]|e| | |v| |y], r2; cbn [rres] in Hr; try contradiction; subst; cbn [andb].
        all: try (eapply sim_quiet_l with (a := tt); [destruct wrapped; qq|]; cbv beta; eapply sim_meq_r; [apply bind_ret_l|]; cbv beta; apply sim_reraise; cbn; auto).
        destruct (wrapped && p_is_exception e0).
        + eapply sim_quiet_l with (a := None); [apply quiet_notify; assumption|]. cbv beta.
          eapply sim_quiet_l with (a := None); [apply quiet_notify; assumption|]. cbv beta.
          eapply sim_quiet_l with (a := tt); [qq|]. cbv beta. eapply sim_meq_r; [apply bind_ret_l|]. apply sim_raise.
        + eapply sim_quiet_l with (a := tt); [destruct wrapped; qq|]. cbv beta. eapply sim_meq_r; [apply bind_ret_l|]. apply sim_raise.
    Qed.
  End RunTransparency.

  (* ================================================================ what a hook receives does not depend on the other hooks
     For a leaf hook h and two hook selections that both contain h: under analyses whose hooks return nothing the
     reference semantics of a source program delivers to h the same sequence of events (analysis index, arguments)
     and behaves the same.  (C08 for the reference semantics; the instrumented program equals the reference
     semantics by the refinement theorem.) *)
  Section HookIndependence.
    Variable h : string.
    Hypothesis observing_all : Forall (observing earg) analyses.
    (* h is a leaf hook of a construct: not one of the generic names that every covered construct reports to, and not an
       execution-level hook (those depend on whether the module was wrapped at all) *)
    Definition generic_names : list string :=
      ["runtime_event"; "control_flow_event"; "operation"; "binary_operation"; "unary_operation"; "comparison"; "literal";
       "memory_access"; "read"; "enter_control_flow"; "exit_control_flow"; "exit_for"; "exit_while"; "augmented_assignment"; "function_exit";
       "begin_execution"; "end_execution"; "uncaught_exception"].
    Hypothesis h_leaf : mem_str h generic_names = false.
    (* building a list is not a program-visible effect, and tuple(list) is the tuple of the elements *)
    Variable mkl : list val -> val.
    Hypothesis mklist_pure : forall l w0, p_mklist l w0 = (mkl l, w0).
    Hypothesis tuple_of_list_spec : forall l w0, p_tuple_of_list (mkl l) w0 = p_mktuple l w0.
    Hypothesis truth_bool : forall b w0, p_truth (p_const (KBool b)) w0 = (POk b, w0).

    Definition hproj (s : st) : list (delivery earg) := filter (fun d => String.eqb (d_hook d) h) (dels (eng s)).
    Definition heq (s1 s2 : st) : Prop := beq s1 s2 /\ hproj s1 = hproj s2.
    Definition sim2 {A B} (R : A -> B -> Prop) (m1 : M A) (m2 : M B) : Prop :=
      forall s1 s2, heq s1 s2 -> rres R (fst (m1 s1)) (fst (m2 s2)) /\ heq (snd (m1 s1)) (snd (m2 s2)).
    (* a computation that only reports to hooks other than h *)
    Definition hquiet {A} (m : M A) (a : A) : Prop :=
      forall s, fst (m s) = Ok a /\ beq (snd (m s)) s /\ hproj (snd (m s)) = hproj s.

    Lemma heq_refl s : heq s s. Proof. split; [apply beq_refl|reflexivity]. Qed.

    Lemma sim2_ret {A B} (R : A -> B -> Prop) a b : R a b -> sim2 R (ret a) (ret b).
    Proof. intros HR s1 s2 Hb. split; [exact HR|exact Hb]. Qed.
    Lemma sim2_bind {A B C D0} (R : A -> B -> Prop) (Q : C -> D0 -> Prop) m1 m2 k1 k2 :
      sim2 R m1 m2 -> (forall a b, R a b -> sim2 Q (k1 a) (k2 b)) -> sim2 Q (bind m1 k1) (bind m2 k2).
    Proof.
      intros Hm Hk s1 s2 Hb. unfold bind. specialize (Hm s1 s2 Hb).
      destruct (m1 s1) as [r1 s1'], (m2 s2) as [r2 s2']. cbn [fst snd] in Hm. destruct Hm as [Hr Hs].
      destruct r1, r2; cbn [rres] in Hr; try contradiction; try (split; [exact Hr|exact Hs]).
      apply Hk; assumption.
    Qed.
    Lemma sim2_hquiet_l {A B C} (R : B -> C -> Prop) (m : M A) a k m2 :
      hquiet m a -> sim2 R (k a) m2 -> sim2 R (bind m k) m2.
    Proof.
      intros Hq Hk s1 s2 [Hb Hp]. unfold bind. specialize (Hq s1). destruct (m s1) as [r s1']. cbn [fst snd] in Hq.
      destruct Hq as [-> [Hs Hh]]. apply Hk. split; [eapply beq_trans; eassumption|congruence].
    Qed.
    Lemma sim2_hquiet_r {A B C} (R : B -> C -> Prop) (m : M A) a k m1 :
      hquiet m a -> sim2 R m1 (k a) -> sim2 R m1 (bind m k).
    Proof.
      intros Hq Hk s1 s2 [Hb Hp]. unfold bind. specialize (Hq s2). destruct (m s2) as [r s2']. cbn [fst snd] in Hq.
      destruct Hq as [-> [Hs Hh]]. apply Hk. split; [eapply beq_trans; [exact Hb|apply beq_sym; exact Hs]|congruence].
    Qed.
    Lemma sim2_bind_l {A B C} (R' : A -> B -> Prop) (R : C -> B -> Prop) m1 m2 k :
      sim2 R' m1 m2 -> (forall a b, R' a b -> sim2 R (k a) (ret b)) -> sim2 R (bind m1 k) m2.
    Proof.
      intros Hm Hk s1 s2 Hb. unfold bind. specialize (Hm s1 s2 Hb).
      destruct (m1 s1) as [r1 s1'] eqn:E1. destruct (m2 s2) as [r2 s2'] eqn:E2. cbn [fst snd] in Hm. destruct Hm as [Hr Hs].
      destruct r1, r2; cbn [rres] in Hr; try contradiction; try (split; [exact Hr|exact Hs]).
      match goal with Hr' : R' ?x ?y |- _ => specialize (Hk x y Hr' s1' s2' Hs) end. cbn [ret fst snd] in Hk. exact Hk.
    Qed.
    Lemma sim2_bind_r {A B C} (R' : A -> B -> Prop) (R : A -> C -> Prop) m1 m2 k :
      sim2 R' m1 m2 -> (forall a b, R' a b -> sim2 R (ret a) (k b)) -> sim2 R m1 (bind m2 k).
    Proof.
      intros Hm Hk s1 s2 Hb. unfold bind. specialize (Hm s1 s2 Hb).
      destruct (m1 s1) as [r1 s1'] eqn:E1. destruct (m2 s2) as [r2 s2'] eqn:E2. cbn [fst snd] in Hm. destruct Hm as [Hr Hs].
      destruct r1, r2; cbn [rres] in Hr; try contradiction; try (split; [exact Hr|exact Hs]).
      match goal with Hr' : R' ?x ?y |- _ => specialize (Hk x y Hr' s1' s2' Hs) end. cbn [ret fst snd] in Hk. exact Hk.
    Qed.
    Lemma sim2_meq_l {A B} (R : A -> B -> Prop) m m' m2 : meq m m' -> sim2 R m' m2 -> sim2 R m m2.
    Proof. intros E Hs s1 s2 Hb. rewrite (E s1). apply Hs; exact Hb. Qed.
    Lemma sim2_meq_r {A B} (R : A -> B -> Prop) m m2 m2' : meq m2 m2' -> sim2 R m m2' -> sim2 R m m2.
    Proof. intros E Hs s1 s2 Hb. rewrite (E s2). apply Hs; exact Hb. Qed.

    Lemma hquiet_ret {A} (a : A) : hquiet (ret a) a.
    Proof. intros s. split; [reflexivity|split; [apply beq_refl|reflexivity]]. Qed.
    Lemma hquiet_bind {A B} (m : M A) a (k : A -> M B) b : hquiet m a -> hquiet (k a) b -> hquiet (bind m k) b.
    Proof.
      intros Hm Hk s. unfold bind. specialize (Hm s). destruct (m s) as [r s']. cbn [fst snd] in Hm. destruct Hm as [-> [Hs Hh]].
      specialize (Hk s'). destruct Hk as [E [Hs' Hh']]. split; [exact E|split; [eapply beq_trans; eassumption|congruence]].
    Qed.

    (* the engine: what one notification appends *)
    Lemma notify_state f args s :
      fst (notify f args s) = Ok None
      /\ beq (snd (notify f args s)) s
      /\ dels (eng (snd (notify f args s))) =
         dels (eng s) ++ map (DispatchProofs.mkd earg f args) (DispatchProofs.sel earg e_filt_str 0 analyses f args).
    Proof.
      Transparent notify. unfold notify.
      pose proof (call_if_exists_observing earg e_filt_str e_as_path e_is_iid line_of analyses f args (eng s) observing_all) as E.
      pose proof (cie_loop_dels earg e_filt_str e_as_path e_is_iid line_of analyses 0 f args (eng s) None) as [Dl _].
      unfold call_if_exists in *.
      destruct (cie_loop earg e_filt_str e_as_path e_is_iid line_of 0 analyses f args (eng s) None) as [r e'].
      cbn [fst snd] in *. subst r. split; [reflexivity|]. split; [repeat split|exact Dl]. Opaque notify.
    Qed.
    Lemma filter_mkd_other f args l : String.eqb f h = false ->
      filter (fun d : delivery earg => String.eqb (d_hook d) h) (map (DispatchProofs.mkd earg f args) l) = [].
    Proof. intros E. induction l as [|i r IH]; [reflexivity|]. cbn. rewrite E. exact IH. Qed.
    Lemma hquiet_notify f args : String.eqb f h = false -> hquiet (notify f args) None.
    Proof.
      intros E s. destruct (notify_state f args s) as [A [B Dl]]. split; [exact A|split; [exact B|]].
      unfold hproj. rewrite Dl, filter_app, filter_mkd_other, app_nil_r; [reflexivity|exact E].
    Qed.
    Lemma sim2_notify f args : sim2 (fun a b => a = None /\ b = None) (notify f args) (notify f args).
    Proof.
      intros s1 s2 [Hb Hp]. destruct (notify_state f args s1) as [A1 [B1 D1]]. destruct (notify_state f args s2) as [A2 [B2 D2]].
      rewrite A1, A2. split; [cbn; auto|]. split.
      - eapply beq_trans; [exact B1|]. eapply beq_trans; [exact Hb|apply beq_sym; exact B2].
      - unfold hproj in *. rewrite D1, D2, !filter_app, Hp. reflexivity.
    Qed.

    (* operations on the program-visible state leave the engine alone *)
    Lemma vis2 {A} (m : M A) : sim eq m m -> (forall s, eng (snd (m s)) = eng s) -> sim2 eq m m.
    Proof.
      intros Hs He s1 s2 [Hb Hp]. destruct (Hs s1 s2 Hb) as [Hr Hb']. split; [exact Hr|]. split; [exact Hb'|].
      unfold hproj. rewrite (He s1), (He s2). exact Hp.
    Qed.
    Lemma eng_prim {A} (p : world -> pres A * world) s : eng (snd (prim p s)) = eng s.
    Proof. Transparent prim. unfold prim. destruct (p (w s)) as [r w']. destruct r; reflexivity. Opaque prim. Qed.
    Lemma eng_prim_total {A} (p : world -> A * world) s : eng (snd (prim_total p s)) = eng s.
    Proof. Transparent prim_total. unfold prim_total. destruct (p (w s)) as [r w']. reflexivity. Opaque prim_total. Qed.
    Lemma eng_raise_builtin {A} c m s : eng (snd (@raise_builtin A c m s)) = eng s.
    Proof.
      Transparent raise_builtin prim_total. unfold raise_builtin, bind, prim_total, raise. destruct (p_exc c m (w s)). reflexivity.
      Opaque raise_builtin prim_total.
    Qed.
    Lemma eng_lookup x s : eng (snd (lookup x s)) = eng s.
    Proof.
      Transparent lookup. unfold lookup. destruct (frames s) as [|fr r].
      - destruct (alookup x (genv s)); [reflexivity|apply eng_raise_builtin].
      - destruct (mem_str x (lnames fr)); [destruct (alookup x (locals fr))|destruct (alookup x (genv s))];
          first [reflexivity|apply eng_raise_builtin].
      Opaque lookup.
    Qed.
    Lemma eng_assign x v s : eng (snd (assign x v s)) = eng s.
    Proof. unfold assign. destruct (frames s) as [|fr r]; [|destruct (mem_str x (lnames fr))]; reflexivity. Qed.
    Lemma eng_unbind x s : eng (snd (unbind x s)) = eng s.
    Proof. unfold unbind. destruct (frames s) as [|fr r]; [|destruct (mem_str x (lnames fr))]; reflexivity. Qed.

    Lemma s2_prim {A} (p : world -> pres A * world) : sim2 eq (prim p) (prim p).
    Proof. apply vis2; [apply sim_prim|apply eng_prim]. Qed.
    Lemma s2_prim_total {A} (p : world -> A * world) : sim2 eq (prim_total p) (prim_total p).
    Proof. apply vis2; [apply sim_prim_total|apply eng_prim_total]. Qed.
    Lemma s2_truth v : sim2 eq (truth v) (truth v).
    Proof. Transparent truth. unfold truth. Opaque truth. apply s2_prim. Qed.
    Lemma s2_lookup x : sim2 eq (lookup x) (lookup x).
    Proof. apply vis2; [apply sim_lookup|apply eng_lookup]. Qed.
    Lemma s2_assign x v : sim2 eq (assign x v) (assign x v).
    Proof. apply vis2; [apply sim_assign|apply eng_assign]. Qed.
    Lemma s2_unbind x : sim2 eq (unbind x) (unbind x).
    Proof. apply vis2; [apply sim_unbind|apply eng_unbind]. Qed.
    Lemma s2_push_exc e : sim2 eq (push_exc e) (push_exc e).
    Proof. apply vis2; [apply sim_push_exc|reflexivity]. Qed.
    Lemma s2_pop_exc : sim2 eq pop_exc pop_exc.
    Proof. apply vis2; [apply sim_pop_exc|reflexivity]. Qed.
    Lemma s2_cur_exc : sim2 eq cur_exc cur_exc.
    Proof. apply vis2; [apply sim_cur_exc|reflexivity]. Qed.
    Lemma s2_raise {A B} (R : A -> B -> Prop) e : sim2 R (raise e) (raise e).
    Proof. intros s1 s2 Hb. split; [reflexivity|exact Hb]. Qed.
    Lemma s2_raise_builtin {A B} (R : A -> B -> Prop) c m : sim2 R (raise_builtin c m) (raise_builtin c m).
    Proof.
      Transparent raise_builtin. unfold raise_builtin. Opaque raise_builtin.
      eapply sim2_bind; [apply s2_prim_total|]. intros a b ->. apply s2_raise.
    Qed.
    Lemma s2_const {A B} (R : A -> B -> Prop) (r1 : res A) (r2 : res B) : rres R r1 r2 ->
      sim2 R (fun s => (r1, s)) (fun s => (r2, s)).
    Proof. intros Hr s1 s2 Hb. split; [exact Hr|exact Hb]. Qed.
    Lemma s2_reraise {A B} (R : A -> B -> Prop) (r1 : res A) (r2 : res B) : rres R r1 r2 -> sim2 R (reraise r1) (reraise r2).
    Proof. apply s2_const. Qed.
    Lemma s2_stuck {A B} (R : A -> B -> Prop) y : sim2 R (stuck y) (stuck y).
    Proof. intros s1 s2 Hb. split; [reflexivity|exact Hb]. Qed.
    Lemma s2_catch {A B} (R : A -> B -> Prop) m1 m2 : sim2 R m1 m2 -> sim2 (rres R) (catch m1) (catch m2).
    Proof.
      intros Hm s1 s2 Hb. unfold catch. specialize (Hm s1 s2 Hb).
      destruct (m1 s1) as [r1 s1'], (m2 s2) as [r2 s2']. cbn [fst snd] in Hm. destruct Hm as [Hr Hs].
      destruct r1, r2; cbn [rres] in Hr; try contradiction; (split; [cbn; try exact Hr; try exact I|exact Hs]).
    Qed.

    (* events *)
    Lemma gen_ne g : mem_str g generic_names = true -> String.eqb g h = false.
    Proof.
      intros Hin. destruct (String.eqb_spec g h) as [->|]; [|reflexivity]. rewrite h_leaf in Hin. discriminate Hin.
    Qed.
    Lemma cov_ne Hs x : cov Hs h = true -> cov Hs x = false -> String.eqb x h = false.
    Proof. intros A B. destruct (String.eqb_spec x h) as [->|]; [congruence|reflexivity]. Qed.
    Lemma cov_us_ne Hs x : cov Hs h = true -> cov_us Hs x = false -> String.eqb x h = false.
    Proof. unfold cov_us. intros A B. apply orb_false_iff in B. destruct B as [B _]. exact (cov_ne Hs x A B). Qed.
    Lemma hquiet_ev f n args : String.eqb f h = false -> hquiet (ev f n args) None.
    Proof. Transparent ev. unfold ev. Opaque ev. apply hquiet_notify. Qed.
    Lemma s2_ev f n args : sim2 (fun a b => a = None /\ b = None) (ev f n args) (ev f n args).
    Proof. Transparent ev. unfold ev. Opaque ev. apply sim2_notify. Qed.
    Lemma hquiet_RE n : hquiet (RE n) tt.
    Proof.
      Transparent RE. unfold RE. Opaque RE. eapply hquiet_bind; [apply hquiet_ev, gen_ne; reflexivity|apply hquiet_ret].
    Qed.
    Lemma hquiet_CF n : hquiet (CF n) tt.
    Proof.
      Transparent CF. unfold CF. Opaque CF. eapply hquiet_bind; [apply hquiet_ev, gen_ne; reflexivity|apply hquiet_ret].
    Qed.
    Lemma hquiet_announce on cf n : hquiet (announce on cf n) tt.
    Proof.
      Transparent announce. unfold announce. Opaque announce.
      destruct on; [|apply hquiet_ret]. eapply hquiet_bind; [apply hquiet_RE|]. destruct cf; [apply hquiet_CF|apply hquiet_ret].
    Qed.

    Lemma hquiet_mklist l : hquiet (bind (prim_total (p_mklist l)) (fun _ => ret tt)) tt.
    Proof.
      intros s. rewrite (bind_cong _ _ _ _ (mklist_ret mkl mklist_pure l) (fun _ => meq_refl _) s).
      split; [reflexivity|split; [apply beq_refl|reflexivity]].
    Qed.

    Lemma hquiet_mklist' l : hquiet (prim_total (p_mklist l)) (mkl l).
    Proof.
      intros s. rewrite (mklist_ret mkl mklist_pure l s). split; [reflexivity|split; [apply beq_refl|reflexivity]].
    Qed.

    (* ---- two hook selections that both contain h, two callee semantics that are related *)
    Variables H1 H2 : list string.
    Hypothesis h_in1 : cov H1 h = true.
    Hypothesis h_in2 : cov H2 h = true.
    Variables call1 call2 : nat -> list val -> M val.
    Variable bound : nat.
    Hypothesis Hcalls : forall f a, sim2 eq (call1 f a) (call2 f a).

    Ltac stop2 := repeat match goal with
      | |- sim2 _ (bind (bind ?m ?k) ?h0) _ => eapply sim2_meq_l; [apply bind_assoc|]; cbv beta
      | |- sim2 _ (bind (ret ?a) ?k) _ => eapply sim2_meq_l; [apply bind_ret_l|]; cbv beta
      | |- sim2 _ _ (bind (bind ?m ?k) ?h0) => eapply sim2_meq_r; [apply bind_assoc|]; cbv beta
      | |- sim2 _ _ (bind (ret ?a) ?k) => eapply sim2_meq_r; [apply bind_ret_l|]; cbv beta
      end.
    (* the name of an event is not h: a generic name, or a leaf that one of the two selections does not contain *)
    Ltac nh := first [ apply gen_ne; reflexivity
                     | eapply (cov_ne H1); [exact h_in1|eassumption]
                     | eapply (cov_ne H2); [exact h_in2|eassumption]
                     | eapply (cov_us_ne H1); [exact h_in1|eassumption]
                     | eapply (cov_us_ne H2); [exact h_in2|eassumption] ].
    Ltac hq1 := first [ apply hquiet_announce | apply hquiet_RE | apply hquiet_CF | apply hquiet_mklist | apply hquiet_mklist' | apply hquiet_ret | apply hquiet_ev; nh | apply hquiet_notify; nh ].
    Ltac hql := (eapply sim2_hquiet_l; [hq1|]); cbv beta.
    Ltac hqr := (eapply sim2_hquiet_r; [hq1|]); cbv beta.
    Ltac norm2 := stop2; repeat (progress cbn [fst snd sel3 sel2]; stop2).
    Ltac hs := repeat (norm2; first [hql | hqr]); norm2.
    Ltac same_ev := (eapply sim2_bind; [apply s2_ev|intros ? ? [? ?]; subst]); cbv beta.
    Tactic Notation "sb2" tactic3(t) := (eapply sim2_bind; [t|intros ? ? ?; try subst]); cbv beta.
    Ltac fin := apply sim2_ret; reflexivity.
    (* events of one covered construct: strip what is not for h, match what may be *)
    Ltac evs := repeat (hs; try same_ev).

    Notation tvr2 := (@eq (val * bool)%type).

    Lemma tv_default2 c e : jumpy e = false -> sim2 eq (reval H1 call1 c e) (reval H2 call2 c e) ->
      sim2 tvr2 (reval_tv H1 call1 c e) (reval_tv H2 call2 c e).
    Proof.
      intros Hj E. rewrite !reval_tv_unfold. rewrite <- !reval_unfold.
      destruct e; try discriminate Hj; try (destruct o; try discriminate Hj);
        (sb2 (exact E); sb2 (apply s2_truth); apply sim2_ret; reflexivity).
    Qed.

    Lemma reval_tv_nonjumpy Hs cl c e : jumpy e = false ->
      meq (reval_tv Hs cl c e) (bind (reval Hs cl c e) (fun v => bind (truth v) (fun b => ret (v, b)))).
    Proof.
      intros J. rewrite reval_tv_unfold, reval_unfold.
      destruct e; try discriminate J; try (destruct o; try discriminate J); apply meq_refl.
    Qed.
    Ltac tvx J := try (eapply sim2_meq_l; [apply bind_cong; [apply (reval_tv_nonjumpy H1 call1 _ _ J)|intros ?; apply meq_refl]|]);
                  try (eapply sim2_meq_r; [apply bind_cong; [apply (reval_tv_nonjumpy H2 call2 _ _ J)|intros ?; apply meq_refl]|]).

    Lemma rnot2 n v t : sim2 tvr2 (rnot_events H1 n v t) (rnot_events H2 n v t).
    Proof.
      Transparent rnot_events. unfold rnot_events. Opaque rnot_events.
      destruct (cov_us H1 (snake (unop_cls UNot))) eqn:C1, (cov_us H2 (snake (unop_cls UNot))) eqn:C2; evs; fin.
    Qed.

    Ltac flags := repeat match goal with
                         | |- context [cov_us ?Hs ?x] => let E := fresh "C" in destruct (cov_us Hs x) eqn:E
                         | |- context [cov ?Hs ?x] => let E := fresh "C" in destruct (cov Hs x) eqn:E
                         end; cbn [andb orb negb].
    Ltac basic := first [ eassumption | apply s2_prim | apply s2_prim_total | apply s2_truth | apply s2_lookup | apply rnot2 ].
    Tactic Notation "sl2" tactic3(t) := (eapply sim2_bind_l; [t|intros ? ? ?; try subst]); cbv beta.
    Tactic Notation "sr2" tactic3(t) := (eapply sim2_bind_r; [t|intros ? ? ?; try subst]); cbv beta.
    Ltac auto2 := repeat (hs; first [ fin | same_ev | sb2 basic | basic | sl2 basic | sr2 basic
                                    | match goal with |- sim2 _ (if ?b then _ else _) (if ?b then _ else _) => destruct b end
                                    | match goal with |- sim2 _ (bind (if ?b then _ else _) _) (bind (if ?b then _ else _) _) => destruct b end
                                    | match goal with |- sim2 _ (bind (if ?b then _ else _) _) (if ?b then _ else _) => destruct b end
                                    | match goal with |- sim2 _ (if ?b then _ else _) (bind (if ?b then _ else _) _) => destruct b end
                                    | match goal with |- context [match ?p with pair _ _ => _ end] => is_var p; destruct p end ]).

    Fixpoint links_h (r : cmps) : bool :=
      match r with Cnil => false | Ccons o _ rest => String.eqb (snake (cmpop_cls o)) h || links_h rest end.
    Lemma links_cov Hs r : cov Hs h = true -> links_h r = true -> cmps_cov Hs r = true.
    Proof.
      intros Hh. induction r as [|o e rest IH]; cbn; [discriminate|]. intros E. apply orb_true_iff in E. destruct E as [E|E].
      - apply String.eqb_eq in E. rewrite E, Hh. reflexivity.
      - rewrite (IH E). apply orb_true_r.
    Qed.

    Theorem hi_expr :
      (forall e, src_e e = true -> forall c,
          sim2 eq (reval H1 call1 c e) (reval H2 call2 c e) /\ sim2 tvr2 (reval_tv H1 call1 c e) (reval_tv H2 call2 c e))
      /\ (forall es, src_es es = true -> forall c, sim2 eq (reval_list H1 call1 c es) (reval_list H2 call2 c es))
      /\ (forall r, src_c r = true -> forall c n on1 on2 ann first l, (on1 = on2 \/ links_h r = false) ->
            sim2 eq (reval_cmps H1 call1 c n on1 ann first l r) (reval_cmps H2 call2 c n on2 ann first l r))
      /\ (forall r : rcmps, True).
    Proof.
      apply expr_all_ind; try (intros; discriminate); try (intros; exact I).
      - (* EConst *) intros n k _ c.
        assert (E : sim2 eq (reval H1 call1 c (EConst n k)) (reval H2 call2 c (EConst n k))).
        { rewrite !reval_unfold. cbn [reval_body]. destruct k; unfold const_cov; cbn [const_hook lit_hook]; destruct (r_tgt c), (r_str c); flags; auto2. }
        split; [exact E|apply tv_default2; [reflexivity|exact E]].
      - (* EName *) intros n x b _ c.
        assert (E : sim2 eq (reval H1 call1 c (EName n x b)) (reval H2 call2 c (EName n x b))).
        { rewrite !reval_unfold. cbn [reval_body]. unfold name_cov.
          destruct (negb (mem_str x _)), (negb (r_tgt c)), b; cbn [andb]; flags; auto2. }
        split; [exact E|apply tv_default2; [reflexivity|exact E]].
      - (* EUn *) intros n o a IHa Hs c. simpl in Hs. destruct (IHa Hs c) as [A1 A2].
        assert (E : sim2 eq (reval H1 call1 c (EUn n o a)) (reval H2 call2 c (EUn n o a))).
        { rewrite !reval_unfold. cbn [reval_body]. destruct o; flags; auto2. }
        split; [exact E|]. destruct o; try (apply tv_default2; [reflexivity|exact E]).
        rewrite (reval_tv_unfold H1 call1 c (EUn n UNot a)), (reval_tv_unfold H2 call2 c (EUn n UNot a)). auto2.
      - (* EBin *) intros n o a IHa b IHb Hs c. simpl in Hs. apply andb_true_iff in Hs; destruct Hs as [Hs1 Hs2].
        destruct (IHa Hs1 (rc_str c)) as [A1 A2]. destruct (IHb Hs2 (rc_str c)) as [B1 B2].
        assert (E : sim2 eq (reval H1 call1 c (EBin n o a b)) (reval H2 call2 c (EBin n o a b))).
        { rewrite !reval_unfold. cbn [reval_body]. flags; auto2. }
        split; [exact E|apply tv_default2; [reflexivity|exact E]].
      - (* EBool *) intros n o a IHa b IHb Hs c. simpl in Hs. apply andb_true_iff in Hs; destruct Hs as [Hs1 Hs2].
        destruct (IHa Hs1 c) as [A1 A2]. destruct (IHb Hs2 c) as [B1 B2]. split.
        + rewrite !reval_unfold. cbn [reval_body]. destruct o; flags; auto2.
        + rewrite (reval_tv_unfold H1 call1 c (EBool n o a b)), (reval_tv_unfold H2 call2 c (EBool n o a b)). cbv zeta.
          destruct o; flags; hs; sb2 (exact A2);
            match goal with x : (val * bool)%type |- _ => destruct x as [l t]; destruct t; cbn [negb] end; auto2.
      - (* ECmp *) intros n a IHa r IHr Hs c. simpl in Hs. apply andb_true_iff in Hs; destruct Hs as [Hs1 Hs2].
        destruct (IHa Hs1 c) as [A1 A2]. specialize (IHr Hs2 c).
        assert (E : sim2 eq (reval H1 call1 c (ECmp n a r)) (reval H2 call2 c (ECmp n a r))).
        { rewrite !reval_unfold. cbn [reval_body]. sb2 (exact A1). apply IHr.
          destruct (links_h r) eqn:L; [left; rewrite !links_cov by assumption; reflexivity|right; reflexivity]. }
        split; [exact E|apply tv_default2; [reflexivity|exact E]].
      - (* EIfExp *) intros n t IHt a IHa b IHb Hs c. simpl in Hs. apply andb_true_iff in Hs; destruct Hs as [Hs12 Hs3].
        apply andb_true_iff in Hs12; destruct Hs12 as [Hs1 Hs2].
        destruct (IHt Hs1 c) as [T1 T2]. destruct (IHa Hs2 c) as [A1 A2]. destruct (IHb Hs3 c) as [B1 B2]. split.
        + rewrite (reval_unfold H1 call1 c (EIfExp n t a b)), (reval_unfold H2 call2 c (EIfExp n t a b)). cbn [reval_body].
          destruct (jumpy t) eqn:J; flags; [auto2..| | | |]; tvx J; auto2.
        + rewrite (reval_tv_unfold H1 call1 c (EIfExp n t a b)), (reval_tv_unfold H2 call2 c (EIfExp n t a b)). cbv zeta.
          rewrite <- !reval_unfold. destruct (jumpy t) eqn:J; flags; tvx J; auto2.
      - (* EAttr *) intros n a IHa x Hs c. simpl in Hs. destruct (IHa Hs c) as [A1 A2].
        assert (E : sim2 eq (reval H1 call1 c (EAttr n a x)) (reval H2 call2 c (EAttr n a x))).
        { rewrite (reval_unfold H1 call1 c (EAttr n a x)), (reval_unfold H2 call2 c (EAttr n a x)). cbn [reval_body].
          destruct (negb (r_tgt c)); flags; auto2. }
        split; [exact E|apply tv_default2; [reflexivity|exact E]].
      - (* ESub *) intros n a IHa i IHi Hs c. simpl in Hs. apply andb_true_iff in Hs; destruct Hs as [Hs1 Hs2].
        destruct (IHa Hs1 c) as [A1 A2]. destruct (IHi Hs2 c) as [I1 I2].
        assert (E : sim2 eq (reval H1 call1 c (ESub n a i)) (reval H2 call2 c (ESub n a i))).
        { rewrite (reval_unfold H1 call1 c (ESub n a i)), (reval_unfold H2 call2 c (ESub n a i)). cbn [reval_body].
          destruct (negb (r_tgt c)); flags; auto2. }
        split; [exact E|apply tv_default2; [reflexivity|exact E]].
      - (* ECall *) intros n f IHf args IHargs Hs c. simpl in Hs. apply andb_true_iff in Hs; destruct Hs as [Hs1 Hs2].
        destruct (IHf Hs1 c) as [F1 F2]. specialize (IHargs Hs2 (rc_str c)).
        assert (HC : forall fv vs, sim2 eq (r_do_call call1 fv vs) (r_do_call call2 fv vs)).
        { intros fv vs. unfold r_do_call. destruct (as_fun fv); [apply Hcalls|apply s2_prim]. }
        assert (E : sim2 eq (reval H1 call1 c (ECall n f args)) (reval H2 call2 c (ECall n f args))).
        { rewrite (reval_unfold H1 call1 c (ECall n f args)), (reval_unfold H2 call2 c (ECall n f args)). cbn [reval_body].
          sb2 (exact F1). sb2 (exact IHargs).
          match goal with |- context [r_do_call call1 ?fv ?vs] => pose proof (HC fv vs) end.
          flags; auto2. }
        split; [exact E|apply tv_default2; [reflexivity|exact E]].
      - (* EList *) intros n es IHes Hs c. simpl in Hs. specialize (IHes Hs c).
        assert (E : sim2 eq (reval H1 call1 c (EList n es)) (reval H2 call2 c (EList n es))).
        { rewrite (reval_unfold H1 call1 c (EList n es)), (reval_unfold H2 call2 c (EList n es)). cbn [reval_body].
          destruct (negb (r_tgt c)); flags; auto2. }
        split; [exact E|apply tv_default2; [reflexivity|exact E]].
      - (* ETuple *) intros n es IHes Hs c. simpl in Hs. specialize (IHes Hs c).
        assert (HT : forall vs, meq (prim_total (p_tuple_of_list (mkl vs))) (prim_total (p_mktuple vs))).
        { intros vs. apply (tuple_meq mkl tuple_of_list_spec). }
        assert (E : sim2 eq (reval H1 call1 c (ETuple n es)) (reval H2 call2 c (ETuple n es))).
        { rewrite (reval_unfold H1 call1 c (ETuple n es)), (reval_unfold H2 call2 c (ETuple n es)). cbn [reval_body].
          sb2 (exact IHes). destruct (negb (r_tgt c)); flags; hs;
            try (eapply sim2_meq_l; [apply bind_cong; [apply HT|intros ?; apply meq_refl]|]);
            try (eapply sim2_meq_r; [apply bind_cong; [apply HT|intros ?; apply meq_refl]|]); auto2. }
        split; [exact E|apply tv_default2; [reflexivity|exact E]].
      - (* Enil *) intros _ c. apply sim2_ret. reflexivity.
      - (* Econs *) intros e IHe r IHr Hs c. simpl in Hs. apply andb_true_iff in Hs; destruct Hs as [Hs1 Hs2].
        destruct (IHe Hs1 c) as [E1 E2]. specialize (IHr Hs2 c). rewrite (reval_list_unfold H1 call1), (reval_list_unfold H2 call2).
        auto2.
      - (* Cnil *) intros _ c n on1 on2 ann first l _. apply sim2_ret. reflexivity.
      - (* Ccons *) intros o e IHe r IHr Hs c n on1 on2 ann first l Hon. simpl in Hs. apply andb_true_iff in Hs; destruct Hs as [Hs1 Hs2].
        destruct (IHe Hs1 c) as [E1 E2]. specialize (IHr Hs2 c).
        rewrite (reval_cmps_unfold H1 call1), (reval_cmps_unfold H2 call2).
        assert (Hrest : on1 = on2 \/ links_h r = false).
        { destruct Hon as [->|L]; [left; reflexivity|]. cbn [links_h] in L. apply orb_false_iff in L. right. exact (proj2 L). }
        assert (Hleaf : on1 = on2 \/ String.eqb (snake (cmpop_cls o)) h = false).
        { destruct Hon as [->|L]; [left; reflexivity|]. cbn [links_h] in L. apply orb_false_iff in L. right. exact (proj1 L). }
        sb2 (exact E1). hs. sb2 (apply s2_prim).
        assert (Hv : sim2 eq (if on1 then
                                bind (ev "operation" n [AS (cmpop_cls o); AL [AV first; AV b]; AV b0]) (fun _ =>
                                bind (ev "comparison" n [AV l; AS (cmpop_cls o); AV b; AV b0]) (fun hi =>
                                bind (ev (snake (cmpop_cls o)) n [AV l; AV b; AV b0]) (fun lo => ret (sel3 lo hi b0))))
                              else ret b0)
                             (if on2 then
                                bind (ev "operation" n [AS (cmpop_cls o); AL [AV first; AV b]; AV b0]) (fun _ =>
                                bind (ev "comparison" n [AV l; AS (cmpop_cls o); AV b; AV b0]) (fun hi =>
                                bind (ev (snake (cmpop_cls o)) n [AV l; AV b; AV b0]) (fun lo => ret (sel3 lo hi b0))))
                              else ret b0)).
        { destruct Hleaf as [->|Hl].
          - destruct on2; auto2.
          - destruct on1, on2; hs; try (eapply sim2_hquiet_l; [apply hquiet_ev; exact Hl|]; cbv beta);
              try (eapply sim2_hquiet_r; [apply hquiet_ev; exact Hl|]; cbv beta); auto2. }
        sb2 (exact Hv). destruct r as [|o2 e2 r2]; [fin|]. sb2 (apply s2_truth).
        match goal with |- sim2 _ (if ?bb then _ else _) _ => destruct bb end; [apply IHr; exact Hrest|fin].
    Qed.

    Lemma plain_sim2 :
      (forall e, src_e e = true -> sim2 eq (eval call1 e) (eval call2 e) /\ sim2 eq (eval_test call1 e) (eval_test call2 e))
      /\ (forall es, src_es es = true -> sim2 eq (eval_list call1 es) (eval_list call2 es))
      /\ (forall r, src_c r = true -> forall l, sim2 eq (eval_cmps call1 l r) (eval_cmps call2 l r))
      /\ (forall r : rcmps, True).
    Proof.
      assert (Hdef : forall e, sim2 eq (eval call1 e) (eval call2 e) ->
                sim2 eq (bind (eval call1 e) (fun v => truth v)) (bind (eval call2 e) (fun v => truth v))).
      { intros e E. sb2 (exact E). apply s2_truth. }
      apply expr_all_ind; try (intros; discriminate); try (intros; exact I).
      - intros n k _. split; [rewrite !eval_unfold; apply sim2_ret; reflexivity|].
        rewrite (eval_test_unfold call1), (eval_test_unfold call2). apply Hdef. rewrite !eval_unfold; apply sim2_ret; reflexivity.
      - intros n x b _. split; [rewrite !eval_unfold; apply s2_lookup|].
        rewrite (eval_test_unfold call1), (eval_test_unfold call2). apply Hdef. rewrite !eval_unfold; apply s2_lookup.
      - intros n o a IHa Hs. simpl in Hs. destruct (IHa Hs) as [A1 A2].
        assert (E : sim2 eq (eval call1 (EUn n o a)) (eval call2 (EUn n o a))).
        { rewrite (eval_unfold call1), (eval_unfold call2). cbn [eval_body]. destruct o; try (sb2 (exact A1); apply s2_prim).
          sb2 (exact A2). apply sim2_ret. reflexivity. }
        split; [exact E|]. rewrite (eval_test_unfold call1), (eval_test_unfold call2). destruct o; try (apply Hdef; exact E).
        sb2 (exact A2). apply sim2_ret. reflexivity.
      - intros n o a IHa b IHb Hs. simpl in Hs. apply andb_true_iff in Hs; destruct Hs as [Hs1 Hs2].
        destruct (IHa Hs1) as [A1 A2]. destruct (IHb Hs2) as [B1 B2].
        assert (E : sim2 eq (eval call1 (EBin n o a b)) (eval call2 (EBin n o a b))).
        { rewrite (eval_unfold call1), (eval_unfold call2). cbn [eval_body]. sb2 (exact A1). sb2 (exact B1). apply s2_prim. }
        split; [exact E|]. rewrite (eval_test_unfold call1), (eval_test_unfold call2). apply Hdef; exact E.
      - intros n o a IHa b IHb Hs. simpl in Hs. apply andb_true_iff in Hs; destruct Hs as [Hs1 Hs2].
        destruct (IHa Hs1) as [A1 A2]. destruct (IHb Hs2) as [B1 B2]. split.
        + rewrite (eval_unfold call1), (eval_unfold call2). cbn [eval_body]. sb2 (exact A1). sb2 (apply s2_truth).
          destruct (match o with BAnd => b1 | BOr => negb b1 end); [exact B1|apply sim2_ret; reflexivity].
        + rewrite (eval_test_unfold call1), (eval_test_unfold call2). destruct o; sb2 (exact A2); destruct b0; try assumption; apply sim2_ret; reflexivity.
      - intros n a IHa r IHr Hs. simpl in Hs. apply andb_true_iff in Hs; destruct Hs as [Hs1 Hs2].
        destruct (IHa Hs1) as [A1 A2]. specialize (IHr Hs2).
        assert (E : sim2 eq (eval call1 (ECmp n a r)) (eval call2 (ECmp n a r))).
        { rewrite (eval_unfold call1), (eval_unfold call2). cbn [eval_body]. sb2 (exact A1). apply IHr. }
        split; [exact E|]. rewrite (eval_test_unfold call1), (eval_test_unfold call2). apply Hdef; exact E.
      - intros n t IHt a IHa b IHb Hs. simpl in Hs. apply andb_true_iff in Hs; destruct Hs as [Hs12 Hs3].
        apply andb_true_iff in Hs12; destruct Hs12 as [Hs1 Hs2].
        destruct (IHt Hs1) as [T1 T2]. destruct (IHa Hs2) as [A1 A2]. destruct (IHb Hs3) as [B1 B2]. split.
        + rewrite (eval_unfold call1), (eval_unfold call2). cbn [eval_body]. sb2 (exact T2). destruct b0; assumption.
        + rewrite (eval_test_unfold call1), (eval_test_unfold call2). sb2 (exact T2). destruct b0; assumption.
      - intros n a IHa x Hs. simpl in Hs. destruct (IHa Hs) as [A1 A2].
        assert (E : sim2 eq (eval call1 (EAttr n a x)) (eval call2 (EAttr n a x))).
        { rewrite (eval_unfold call1), (eval_unfold call2). cbn [eval_body]. sb2 (exact A1). apply s2_prim. }
        split; [exact E|]. rewrite (eval_test_unfold call1), (eval_test_unfold call2). apply Hdef; exact E.
      - intros n a IHa i IHi Hs. simpl in Hs. apply andb_true_iff in Hs; destruct Hs as [Hs1 Hs2].
        destruct (IHa Hs1) as [A1 A2]. destruct (IHi Hs2) as [I1 I2].
        assert (E : sim2 eq (eval call1 (ESub n a i)) (eval call2 (ESub n a i))).
        { rewrite (eval_unfold call1), (eval_unfold call2). cbn [eval_body]. sb2 (exact A1). sb2 (exact I1). apply s2_prim. }
        split; [exact E|]. rewrite (eval_test_unfold call1), (eval_test_unfold call2). apply Hdef; exact E.
      - intros n f IHf args IHargs Hs. simpl in Hs. apply andb_true_iff in Hs; destruct Hs as [Hs1 Hs2].
        destruct (IHf Hs1) as [F1 F2]. specialize (IHargs Hs2).
        assert (E : sim2 eq (eval call1 (ECall n f args)) (eval call2 (ECall n f args))).
        { rewrite (eval_unfold call1), (eval_unfold call2). cbn [eval_body]. sb2 (exact F1). sb2 (exact IHargs).
          unfold do_call. destruct (as_fun b); [apply Hcalls|apply s2_prim]. }
        split; [exact E|]. rewrite (eval_test_unfold call1), (eval_test_unfold call2). apply Hdef; exact E.
      - intros n es IHes Hs. simpl in Hs. specialize (IHes Hs).
        assert (E : sim2 eq (eval call1 (EList n es)) (eval call2 (EList n es))).
        { rewrite (eval_unfold call1), (eval_unfold call2). cbn [eval_body]. sb2 (exact IHes). apply s2_prim_total. }
        split; [exact E|]. rewrite (eval_test_unfold call1), (eval_test_unfold call2). apply Hdef; exact E.
      - intros n es IHes Hs. simpl in Hs. specialize (IHes Hs).
        assert (E : sim2 eq (eval call1 (ETuple n es)) (eval call2 (ETuple n es))).
        { rewrite (eval_unfold call1), (eval_unfold call2). cbn [eval_body]. sb2 (exact IHes). apply s2_prim_total. }
        split; [exact E|]. rewrite (eval_test_unfold call1), (eval_test_unfold call2). apply Hdef; exact E.
      - intros _. apply sim2_ret. reflexivity.
      - intros e IHe r IHr Hs. simpl in Hs. apply andb_true_iff in Hs; destruct Hs as [Hs1 Hs2].
        destruct (IHe Hs1) as [E1 E2]. specialize (IHr Hs2). rewrite (eval_list_unfold call1), (eval_list_unfold call2).
        sb2 (exact E1). sb2 (exact IHr). apply sim2_ret. reflexivity.
      - intros _ l. apply sim2_ret. reflexivity.
      - intros o e IHe r IHr Hs l. simpl in Hs. apply andb_true_iff in Hs; destruct Hs as [Hs1 Hs2].
        destruct (IHe Hs1) as [E1 E2]. specialize (IHr Hs2). rewrite (eval_cmps_unfold call1), (eval_cmps_unfold call2).
        destruct r as [|o2 e2 r2]; [sb2 (exact E1); apply s2_prim|].
        sb2 (exact E1). sb2 (apply s2_prim). sb2 (apply s2_truth).
        match goal with |- sim2 _ _ (if ?bb then _ else _) => destruct bb end; [apply IHr|apply sim2_ret; reflexivity].
    Qed.



    Notation HE := (proj1 hi_expr).
    Notation PE2 := (proj1 plain_sim2).

    (* guard of the theorem (a place where the reference semantics, like the implementation, lets another hook influence
       what happens around an event): unless both selections agree on the exception hook, a handler's type is absent or a
       (non-local) name -- the payload of the event evaluates the type expression once more *)
    Definition exc_agree : bool := Bool.eqb (cov H1 "exception") (cov H2 "exception").
    Fixpoint g8_s (s : stmt) : bool :=
      match s with
      | SIf _ _ b o | SWhile _ _ b o | SFor _ _ _ b o => g8_ss b && g8_ss o
      | STry _ b hs o f => g8_ss b && g8_hs hs && g8_ss o && g8_ss f
      | _ => true
      end
    with g8_ss (ss : stmts) : bool := match ss with Snil => true | Scons s r => g8_s s && g8_ss r end
    with g8_hs (hs : handlers) : bool :=
      match hs with
      | Hnil => true
      | Hcons ty name b r => (exc_agree || simple_handler ty) && g8_ss b && g8_hs r
      end.

    Lemma ropt2 c o : src_oe o = true -> sim2 eq (reval_opt H1 call1 c o) (reval_opt H2 call2 c o).
    Proof.
      destruct o as [e|]; intros Hs; [|apply sim2_ret; reflexivity]. simpl in Hs. unfold reval_opt.
      sb2 (exact (proj1 (HE e Hs c))). apply sim2_ret. reflexivity.
    Qed.
    Lemma store2 t v : src_t t = true -> sim2 eq (rstore H1 call1 t v) (rstore H2 call2 t v).
    Proof.
      destruct t as [x|n e x|n e i]; intros Hs; simpl in Hs; cbn [rstore]; [apply s2_assign| |].
      - sb2 (exact (proj1 (HE e Hs rc_tgt))). apply s2_prim.
      - apply andb_true_iff in Hs; destruct Hs as [Hs1 Hs2].
        sb2 (exact (proj1 (HE e Hs1 rc_tgt))). sb2 (exact (proj1 (HE i Hs2 rc_tgt))). apply s2_prim.
    Qed.
    Lemma store_all2 ts v : forallb src_t ts = true -> sim2 eq (rstore_all H1 call1 ts v) (rstore_all H2 call2 ts v).
    Proof.
      induction ts as [|t r IH]; intros Hs; simpl in Hs; cbn [rstore_all]; [apply sim2_ret; reflexivity|].
      apply andb_true_iff in Hs; destruct Hs as [Hs1 Hs2]. sb2 (exact (store2 t v Hs1)). apply IH; exact Hs2.
    Qed.

    Ltac basic ::= first [ eassumption | apply s2_prim | apply s2_prim_total | apply s2_truth | apply s2_lookup | apply rnot2
                         | apply s2_assign | apply s2_cur_exc | apply s2_raise | apply s2_raise_builtin | apply s2_push_exc | apply s2_pop_exc
                         | apply s2_unbind | apply s2_stuck ].

    (* a test in statement position *)
    Lemma stmt_test2 c leaf n : src_e c = true ->
      sim2 eq (if cov H1 leaf then
                 bind (test_value H1 call1 rc0 c) (fun vt =>
                 bind (announce true true n) (fun _ =>
                 bind (ev "enter_control_flow" n [AV (fst vt)]) (fun hi =>
                 bind (ev leaf n [AV (fst vt)]) (fun lo => decide vt lo hi))))
               else bind (reval_tv H1 call1 rc0 c) (fun ct => ret (snd ct)))
              (if cov H2 leaf then
                 bind (test_value H2 call2 rc0 c) (fun vt =>
                 bind (announce true true n) (fun _ =>
                 bind (ev "enter_control_flow" n [AV (fst vt)]) (fun hi =>
                 bind (ev leaf n [AV (fst vt)]) (fun lo => decide vt lo hi))))
               else bind (reval_tv H2 call2 rc0 c) (fun ct => ret (snd ct))).
    Proof.
      intros Hs. destruct (HE c Hs rc0) as [T1 T2]. unfold test_value, decide.
      destruct (jumpy c) eqn:J; flags; tvx J; auto2.
    Qed.

    Lemma assign_name_plain o : get_name (snake (binop_cls o ++ "Assign")) = snake (binop_cls o ++ "Assign").
    Proof. destruct o; vm_compute; reflexivity. Qed.

    Lemma raug2 on1 on2 n o l r v :
      (on1 = on2 \/ (String.eqb "write" h = false /\ String.eqb (get_name (snake (binop_cls o ++ "Assign"))) h = false)) ->
      sim2 eq (raug_events on1 n o l r v) (raug_events on2 n o l r v).
    Proof.
      Transparent raug_events. unfold raug_events. Opaque raug_events. intros [->|[Hw Ha]].
      - destruct on2; auto2.
      - destruct on1, on2; hs;
          repeat first [ eapply sim2_hquiet_l; [apply hquiet_ev; first [exact Hw|exact Ha]|]; cbv beta; hs
                       | eapply sim2_hquiet_r; [apply hquiet_ev; first [exact Hw|exact Ha]|]; cbv beta; hs ]; auto2.
    Qed.

    Ltac loop_tail2 IHj :=
      match goal with
      | Hr : rres _ ?ra ?rb |- _ =>
        destruct ra as [[]| | | | | |], rb; cbn [rres] in Hr; try contradiction; subst;
        try (apply sim2_ret; reflexivity); try exact IHj; try (apply s2_reraise; cbn; auto)
      end.

    Definition simS2 {A B} (P1 P2 : st -> Prop) (R : A -> B -> Prop) (m1 : M A) (m2 : M B) : Prop :=
      forall s1 s2, P1 s1 -> P2 s2 -> heq s1 s2 -> rres R (fst (m1 s1)) (fst (m2 s2)) /\ heq (snd (m1 s1)) (snd (m2 s2)).
    Lemma simS2_of_sim2 {A B} P1 P2 (R : A -> B -> Prop) m1 m2 : sim2 R m1 m2 -> simS2 P1 P2 R m1 m2.
    Proof. intros Hs s1 s2 _ _ Hb. apply Hs; exact Hb. Qed.
    Lemma sim2_of_simS2 {A B} (R : A -> B -> Prop) m1 m2 : simS2 (fun _ => True) (fun _ => True) R m1 m2 -> sim2 R m1 m2.
    Proof. intros Hs s1 s2 Hb. apply Hs; [exact I|exact I|exact Hb]. Qed.
    Lemma simS2_bind {A B C D0} (P1 P2 Q1 Q2 : st -> Prop) (R : A -> B -> Prop) (R' : C -> D0 -> Prop) m1 m2 k1 k2 :
      simS2 P1 P2 R m1 m2 ->
      (forall s a s', P1 s -> m1 s = (Ok a, s') -> Q1 s') -> (forall s a s', P2 s -> m2 s = (Ok a, s') -> Q2 s') ->
      (forall a b, R a b -> simS2 Q1 Q2 R' (k1 a) (k2 b)) -> simS2 P1 P2 R' (bind m1 k1) (bind m2 k2).
    Proof.
      intros Hm Hp1 Hp2 Hk s1 s2 HP1 HP2 Hb. unfold bind. specialize (Hm s1 s2 HP1 HP2 Hb). specialize (Hp1 s1). specialize (Hp2 s2).
      destruct (m1 s1) as [r1 s1'], (m2 s2) as [r2 s2']. cbn [fst snd] in Hm. destruct Hm as [Hr Hs].
      destruct r1, r2; cbn [rres] in Hr; try contradiction; try (split; [exact Hr|exact Hs]).
      apply Hk; [exact Hr|eapply Hp1; [exact HP1|reflexivity]|eapply Hp2; [exact HP2|reflexivity]|exact Hs].
    Qed.
    Lemma simS2_catch {A B} P1 P2 (R : A -> B -> Prop) m1 m2 : simS2 P1 P2 R m1 m2 -> simS2 P1 P2 (rres R) (catch m1) (catch m2).
    Proof.
      intros Hm s1 s2 HP1 HP2 Hb. unfold catch. specialize (Hm s1 s2 HP1 HP2 Hb).
      destruct (m1 s1) as [r1 s1'], (m2 s2) as [r2 s2']. cbn [fst snd] in Hm. destruct Hm as [Hr Hs].
      destruct r1, r2; cbn [rres] in Hr; try contradiction; (split; [cbn; try exact Hr; try exact I|exact Hs]).
    Qed.
    Lemma simS2_hq_l {A B C} (P1 P2 : st -> Prop) (R : B -> C -> Prop) (m : M A) a k m2 :
      (forall s, P1 s -> fst (m s) = Ok a /\ beq (snd (m s)) s /\ hproj (snd (m s)) = hproj s) -> sim2 R (k a) m2 ->
      simS2 P1 P2 R (bind m k) m2.
    Proof.
      intros Hq Hk s1 s2 HP1 _ [Hb Hp]. unfold bind. specialize (Hq s1 HP1). destruct (m s1) as [r s1']. cbn [fst snd] in Hq.
      destruct Hq as [-> [Hs Hh]]. apply Hk. split; [eapply beq_trans; eassumption|congruence].
    Qed.
    Lemma simS2_hq_r {A B C} (P1 P2 : st -> Prop) (R : B -> C -> Prop) (m : M A) a k m1 :
      (forall s, P2 s -> fst (m s) = Ok a /\ beq (snd (m s)) s /\ hproj (snd (m s)) = hproj s) -> sim2 R m1 (k a) ->
      simS2 P1 P2 R m1 (bind m k).
    Proof.
      intros Hq Hk s1 s2 _ HP2 [Hb Hp]. unfold bind. specialize (Hq s2 HP2). destruct (m s2) as [r s2']. cbn [fst snd] in Hq.
      destruct Hq as [-> [Hs Hh]]. apply Hk. split; [eapply beq_trans; [exact Hb|apply beq_sym; exact Hs]|congruence].
    Qed.

    (* the payload of the [exception] event of a simple handler, when that hook is not h *)
    Lemma payload_hquiet Hs cl tryn ty name e s :
      String.eqb "exception" h = false -> simple_handler ty = true ->
      (match ty with Some (EName _ x _) => lookup_val x s <> None | _ => True end) ->
      (match name with Some nm => lookup_val nm s = Some e | None => True end) ->
      let P := bind (reval_opt Hs cl rc0 ty) (fun tv2 =>
               bind (match name with Some x => bind (lookup x) (fun v => ret (AV v)) | None => ret ANone end) (fun nv =>
               bind (announce true true tryn) (fun _ =>
               bind (ev "exception" tryn [match tv2 with Some v => AV v | None => ANone end; nv]) (fun _ => ret tt)))) in
      fst (P s) = Ok tt /\ beq (snd (P s)) s /\ hproj (snd (P s)) = hproj s.
    Proof.
      intros Hne Hsimple Hty Hname P. subst P.
      assert (Htail : forall tv2 nv, hquiet (bind (announce true true tryn) (fun _ =>
                        bind (ev "exception" tryn [match tv2 with Some v => AV v | None => ANone end; nv]) (fun _ => ret tt))) tt).
      { intros tv2 nv. eapply hquiet_bind; [apply hquiet_announce|]. eapply hquiet_bind; [apply hquiet_ev; exact Hne|apply hquiet_ret]. }
      assert (Hok : forall A B (m : M A) (k : A -> M B) s0 a s', m s0 = (Ok a, s') -> bind m k s0 = k a s').
      { intros A B m k s0 a s' E. unfold bind. rewrite E. reflexivity. }
      assert (Hnv : forall K : earg -> M unit, (forall nv, hquiet (K nv) tt) ->
                fst (bind (match name with Some x => bind (lookup x) (fun v => ret (AV v)) | None => ret ANone end) K s) = Ok tt
                /\ beq (snd (bind (match name with Some x => bind (lookup x) (fun v => ret (AV v)) | None => ret ANone end) K s)) s
                /\ hproj (snd (bind (match name with Some x => bind (lookup x) (fun v => ret (AV v)) | None => ret ANone end) K s)) = hproj s).
      { intros K HK. destruct name as [nm|].
        - rewrite (Hok _ _ _ K s (AV e) s); [apply HK|]. rewrite (Hok _ _ _ _ s e s (lookup_some nm s e Hname)). reflexivity.
        - rewrite (Hok _ _ _ K s ANone s); [apply HK|reflexivity]. }
      destruct ty as [te|].
      - destruct te; try discriminate Hsimple. destruct s0; try discriminate Hsimple.
        all: cbn [reval_opt]; rewrite reval_unfold; cbn [reval_body]; unfold name_cov; rewrite !andb_false_r;
          destruct (lookup_val x s) as [v|] eqn:L; [|contradiction Hty; reflexivity];
          (rewrite (Hok _ _ _ _ s (Some v) s);
             [exact (Hnv (fun nv => bind (announce true true tryn) (fun _ =>
                                     bind (ev "exception" tryn [match Some v with Some v0 => AV v0 | None => ANone end; nv]) (fun _ => ret tt)))
                         (fun nv => Htail (Some v) nv))|]);
          rewrite (Hok _ _ _ _ s v s (lookup_some x s v L)); reflexivity.
      - cbn [reval_opt]. rewrite (Hok _ _ _ _ s None s); [|reflexivity].
        exact (Hnv (fun nv => bind (announce true true tryn) (fun _ =>
                                bind (ev "exception" tryn [match @None val with Some v0 => AV v0 | None => ANone end; nv]) (fun _ => ret tt)))
                    (fun nv => Htail None nv)).
    Qed.
    (* a successful evaluation of a simple handler type leaves its name bound *)
    Lemma ropt_post Hs cl ty s a s' : simple_handler ty = true -> reval_opt Hs cl rc0 ty s = (Ok a, s') ->
      match ty with Some (EName _ x _) => lookup_val x s' <> None | _ => True end.
    Proof.
      intros Hsimple. destruct ty as [te|]; [|auto]. destruct te; auto. destruct s0; try discriminate Hsimple.
      all: cbn [reval_opt]; rewrite reval_unfold; cbn [reval_body]; unfold name_cov; rewrite !andb_false_r;
        unfold bind; destruct (lookup x s) as [r s0] eqn:L; destruct r; try discriminate;
        apply lookup_inv in L; destruct L as [Lv ->]; cbn [ret]; intros E; inversion E; subst; rewrite Lv; discriminate.
    Qed.

    Theorem hi_stmt :
      (forall s, src_s s = true -> g8_s s = true -> forall k, sim2 eq (rexec H1 call1 bound k s) (rexec H2 call2 bound k s))
      /\ (forall ss, src_ss ss = true -> g8_ss ss = true -> forall k, sim2 eq (rexec_list H1 call1 bound k ss) (rexec_list H2 call2 bound k ss))
      /\ (forall hs, src_hs hs = true -> g8_hs hs = true -> forall k tryn e,
            sim2 eq (rexec_handlers H1 call1 bound k tryn e hs) (rexec_handlers H2 call2 bound k tryn e hs)).
    Proof.
      apply stmt_all_ind.
      - (* SExpr *) intros e Hs _ k. simpl in Hs. Transparent rexec. cbn [rexec]. Opaque rexec.
        sb2 (exact (proj1 (HE e Hs rc0))). fin.
      - (* SAssign *) intros n ts e Hs _ k. simpl in Hs. apply andb_true_iff in Hs; destruct Hs as [Hs1 Hs2].
        Transparent rexec. cbn [rexec]. Opaque rexec.
        sb2 (exact (proj1 (HE e Hs2 (rc_str rc0)))). flags; hs; try same_ev; hs; apply store_all2; assumption.
      - (* SAug *) intros n t o e Hs _ k. simpl in Hs. apply andb_true_iff in Hs; destruct Hs as [Hs1 Hs2].
        Transparent rexec. cbn [rexec]. Opaque rexec.
        assert (Hon : forall l r v, sim2 eq (raug_events (cov H1 "write" || cov H1 (snake (binop_cls o ++ "Assign"))) n o l r v)
                                          (raug_events (cov H2 "write" || cov H2 (snake (binop_cls o ++ "Assign"))) n o l r v)).
        { intros l r v. apply raug2.
          destruct (cov H1 "write") eqn:W1, (cov H2 "write") eqn:W2, (cov H1 (snake (binop_cls o ++ "Assign"))) eqn:A1,
                   (cov H2 (snake (binop_cls o ++ "Assign"))) eqn:A2; cbn [orb]; try (left; reflexivity); right; rewrite assign_name_plain; split; nh. }
        destruct t as [x|tn be x|tn be ie]; simpl in Hs1.
        + sb2 (apply s2_lookup). sb2 (exact (proj1 (HE e Hs2 (rc_str rc0)))). sb2 (apply s2_prim). sb2 (apply Hon). apply s2_assign.
        + sb2 (exact (proj1 (PE2 be Hs1))). sb2 (apply s2_prim). sb2 (exact (proj1 (HE e Hs2 (rc_str rc0)))). sb2 (apply s2_prim).
          sb2 (apply Hon). apply s2_prim.
        + apply andb_true_iff in Hs1; destruct Hs1 as [Hb Hi].
          sb2 (exact (proj1 (PE2 be Hb))). sb2 (exact (proj1 (PE2 ie Hi))). sb2 (apply s2_prim).
          sb2 (exact (proj1 (HE e Hs2 (rc_str rc0)))). sb2 (apply s2_prim). sb2 (apply Hon). apply s2_prim.
      - (* SIf *) intros n c body IHb orelse IHo Hs Hk k. simpl in Hs, Hk.
        apply andb_true_iff in Hs; destruct Hs as [Hs12 Hs3]. apply andb_true_iff in Hs12; destruct Hs12 as [Hs1 Hs2].
        apply andb_true_iff in Hk; destruct Hk as [Hk1 Hk2].
        rewrite (rexec_SIf H1 call1), (rexec_SIf H2 call2). sb2 (apply (stmt_test2 c "enter_if" n Hs1)).
        sb2 (destruct b; [apply IHb|apply IHo]; assumption). unfold exit_event. flags; auto2.
      - (* SWhile *) intros n c body IHb orelse IHo Hs Hk k. simpl in Hs, Hk.
        apply andb_true_iff in Hs; destruct Hs as [Hs12 Hs3]. apply andb_true_iff in Hs12; destruct Hs12 as [Hs1 Hs2].
        apply andb_true_iff in Hk; destruct Hk as [Hk1 Hk2].
        rewrite (rexec_SWhile H1 call1), (rexec_SWhile H2 call2).
        assert (Hloop : forall j, sim2 eq (rwloop H1 call1 bound k n c body orelse j) (rwloop H2 call2 bound k n c body orelse j)); [|apply Hloop].
        induction j as [|j IHj]; [apply s2_const; exact I|]. cbn [rwloop].
        sb2 (apply (stmt_test2 c "enter_while" n Hs1)). destruct b.
        + sb2 (apply s2_catch; apply IHb; assumption). loop_tail2 IHj.
        + sb2 (apply IHo; assumption). flags; auto2.
      - (* SFor *) intros n x it body IHb orelse IHo Hs Hk k. simpl in Hs, Hk.
        apply andb_true_iff in Hs; destruct Hs as [Hs12 Hs3]. apply andb_true_iff in Hs12; destruct Hs12 as [Hs1 Hs2].
        apply andb_true_iff in Hk; destruct Hk as [Hk1 Hk2].
        rewrite (rexec_SFor H1 call1), (rexec_SFor H2 call2).
        sb2 (exact (proj1 (HE it Hs1 rc0))). sb2 (apply s2_prim).
        assert (Hloop : forall j, sim2 eq (rfloop H1 call1 bound k n x b0 b body orelse j) (rfloop H2 call2 bound k n x b0 b body orelse j)); [|apply Hloop].
        induction j as [|j IHj]; [apply s2_const; exact I|]. cbn [rfloop]. unfold for_exit, rfor_answer.
        pose proof (IHo Hs3 Hk2 k) as HO.
        sb2 (apply s2_prim). destruct b1 as [v|]; flags; auto2;
          try (sb2 (apply s2_catch; apply IHb; assumption); loop_tail2 IHj).
      - (* SBreak *) intros n _ _ k. Transparent rexec. cbn [rexec]. Opaque rexec. unfold rbrk.
        destruct (r_loop k) as [[l ty]|]; [|apply s2_const; exact I].
        destruct ty; flags; hs; try same_ev; hs; cbn [sel2];
          try (eapply sim2_meq_l; [apply bind_cong; [apply (truth_true truth_bool)|intros ?; apply meq_refl]|]);
          try (eapply sim2_meq_r; [apply bind_cong; [apply (truth_true truth_bool)|intros ?; apply meq_refl]|]);
          stop2; apply s2_const; exact I.
      - (* SContinue *) intros n _ _ k. Transparent rexec. cbn [rexec]. Opaque rexec. unfold rbrk.
        destruct (r_loop k) as [[l ty]|]; [|apply s2_const; exact I].
        destruct ty; flags; hs; try same_ev; hs; cbn [sel2];
          try (eapply sim2_meq_l; [apply bind_cong; [apply (truth_true truth_bool)|intros ?; apply meq_refl]|]);
          try (eapply sim2_meq_r; [apply bind_cong; [apply (truth_true truth_bool)|intros ?; apply meq_refl]|]);
          stop2; apply s2_const; exact I.
      - (* SPass *) intros _ _ k. apply sim2_ret. reflexivity.
      - (* SAssert *) intros n c m Hs _ k. simpl in Hs. apply andb_true_iff in Hs; destruct Hs as [Hs1 Hs2].
        Transparent rexec. cbn [rexec]. Opaque rexec.
        destruct (HE c Hs1 rc0) as [T1 T2]. pose proof (ropt2 rc0 m Hs2) as HM.
        unfold test_value, decide. destruct (jumpy c) eqn:J; flags; tvx J; auto2.
      - (* SRaise *) intros n ex ca Hs _ k. simpl in Hs. apply andb_true_iff in Hs; destruct Hs as [Hs1 Hs2].
        Transparent rexec. cbn [rexec]. Opaque rexec.
        sb2 (exact (ropt2 rc0 ex Hs1)). sb2 (exact (ropt2 rc0 ca Hs2)).
        flags; hs; try same_ev; hs; (destruct b as [e0|]; [|auto2; match goal with x : option val |- _ => destruct x end; auto2]);
          sb2 (apply s2_prim_total); (destruct b0 as [cv|]; auto2).
      - (* STry *) intros n body IHb hs0 IHh orelse IHo final IHf Hs Hk k. simpl in Hs, Hk.
        apply andb_true_iff in Hs; destruct Hs as [Hs123 Hs4]. apply andb_true_iff in Hs123; destruct Hs123 as [Hs12 Hs3].
        apply andb_true_iff in Hs12; destruct Hs12 as [Hs1 Hs2].
        apply andb_true_iff in Hk; destruct Hk as [Hk123 Hk4]. apply andb_true_iff in Hk123; destruct Hk123 as [Hk12 Hk3].
        apply andb_true_iff in Hk12; destruct Hk12 as [Hk1 Hk2].
        rewrite (rexec_STry H1 call1), (rexec_STry H2 call2).
        sb2 (apply s2_catch; flags; hs; try same_ev; hs; apply IHb; assumption).
        sb2 (apply s2_catch;
             match goal with Hr : rres _ ?ra ?rb |- _ =>
               destruct ra as [[]|e1| | | | |], rb; cbn [rres] in Hr; try contradiction; subst;
               [ sb2 (apply IHo; assumption); flags; auto2
               | apply IHh; assumption
               | apply s2_reraise; cbn; auto .. ]
             end).
        sb2 (apply s2_catch; apply IHf; assumption).
        match goal with Hr : rres _ ?ra ?rb |- sim2 _ (match ?ra with _ => _ end) _ =>
          destruct ra as [[]| | | | | |], rb; cbn [rres] in Hr; try contradiction; subst; apply s2_reraise; cbn; auto end.
      - (* SReturn *) intros n e Hs _ k. simpl in Hs.
        Transparent rexec. cbn [rexec]. Opaque rexec.
        sb2 (destruct e as [a|]; [exact (proj1 (HE a Hs rc0))|apply sim2_ret; reflexivity]).
        destruct (r_fn k) as [[f name]|]; [|apply s2_const; reflexivity].
        flags; hs; repeat (first [same_ev | (eapply sim2_bind; [apply sim2_notify|intros ? ? [? ?]; subst]); cbv beta]; hs); apply s2_const; reflexivity.
      - (* SDef *) intros n fid name _ _ k. Transparent rexec. cbn [rexec]. Opaque rexec. apply s2_assign.
      - (* Snil *) intros _ _ k. apply sim2_ret. reflexivity.
      - (* Scons *) intros s0 IHs r IHr Hs Hk k. simpl in Hs, Hk.
        apply andb_true_iff in Hs; destruct Hs as [Hs1 Hs2]. apply andb_true_iff in Hk; destruct Hk as [Hk1 Hk2].
        rewrite !rexec_list_cons. sb2 (apply IHs; assumption). apply IHr; assumption.
      - (* Hnil *) intros _ _ k tryn e. apply s2_raise.
      - (* Hcons *) intros ty name body IHb rest IHr Hs Hk k tryn e. simpl in Hs, Hk.
        apply andb_true_iff in Hs; destruct Hs as [Hs12 Hs3]. apply andb_true_iff in Hs12; destruct Hs12 as [Hs1 Hs2].
        apply andb_true_iff in Hk; destruct Hk as [Hk12 Hk3]. apply andb_true_iff in Hk12; destruct Hk12 as [Hk1 Hk2].
        rewrite (rexec_handlers_cons H1 call1), (rexec_handlers_cons H2 call2).
        assert (Htail : forall r1 r2 : res unit, rres eq r1 r2 ->
                  sim2 eq (bind pop_exc (fun _ => bind (match name with Some x => unbind x | None => ret tt end) (fun _ => @reraise unit r1)))
                          (bind pop_exc (fun _ => bind (match name with Some x => unbind x | None => ret tt end) (fun _ => @reraise unit r2)))).
        { intros r1 r2 Hr. sb2 (apply s2_pop_exc). sb2 (destruct name; [apply s2_unbind|apply sim2_ret; reflexivity]).
          apply s2_reraise. destruct r1 as [[]| | | | | |], r2; cbn [rres] in Hr; try contradiction; subst; cbn; auto. }
        unfold exc_agree in Hk1.
        destruct (cov H1 "exception") eqn:C1, (cov H2 "exception") eqn:C2; cbn [Bool.eqb orb] in Hk1.
        + sb2 (exact (ropt2 rc0 ty Hs1)). sb2 (destruct b as [cls|]; [apply s2_prim|apply sim2_ret; reflexivity]).
          destruct b0; [|apply IHr; assumption].
          sb2 (destruct name; [apply s2_assign|apply sim2_ret; reflexivity]). sb2 (apply s2_push_exc).
          eapply sim2_bind with (R := rres eq); [|intros r1 r2 Hr; apply Htail; exact Hr]. apply s2_catch.
          pose proof (ropt2 rc0 ty Hs1) as HT. stop2. sb2 (exact HT). destruct name; hs; try (sb2 (apply s2_lookup); hs); same_ev; hs; apply IHb; assumption.
        + (* only the first selection reports the handler *)
          set (Pty := fun s : st => match ty with Some (EName _ x _) => lookup_val x s <> None | _ => True end).
          set (Pnm := fun s : st => Pty s /\ match name with Some nm => lookup_val nm s = Some e | None => True end).
          assert (Hext : forall s s', genv s' = genv s -> frames s' = frames s -> Pty s -> Pty s').
          { intros s s' Hg Hf. unfold Pty. destruct ty as [te|]; [|auto]. destruct te; auto. rewrite (lookup_val_ext x s s' Hg Hf). auto. }
          assert (Hasg : forall s a s', Pty s -> (match name with Some x => assign x e | None => ret tt end) s = (Ok a, s') -> Pnm s').
          { intros s a s' HP E. unfold Pnm. destruct name as [nm|].
            - assert (s' = snd (assign nm e s)) as -> by (rewrite E; reflexivity). split; [|apply lookup_val_assign_same].
              revert HP. unfold Pty. destruct ty as [te|]; [|auto]. destruct te; auto. apply lookup_val_assign_keeps.
            - inversion E; subst. split; [exact HP|exact I]. }
          assert (Hpsh : forall s a s', Pnm s -> push_exc e s = (Ok a, s') -> Pnm s').
          { intros s a s' [HP HN] E. inversion E; subst. split; [apply (Hext s); [reflexivity|reflexivity|exact HP]|].
            destruct name as [nm|]; [|exact I]. rewrite (lookup_val_ext nm s); [exact HN|reflexivity|reflexivity]. }
          assert (Hprim : forall s (a : bool) s' tv, Pty s -> (match tv with None => ret true | Some cls => prim (p_exc_match e cls) end) s = (Ok a, s') -> Pty s').
          { intros s a s' tv HP E. destruct tv as [cls|]; [|inversion E; subst; exact HP].
            apply lookup_prim_keeps in E. destruct E as [Eg Ef]. apply (Hext s); assumption. }
          apply sim2_of_simS2.
          eapply simS2_bind with (Q1 := Pty) (Q2 := Pty); [apply simS2_of_sim2; exact (ropt2 rc0 ty Hs1)| | |].
          { intros s a s' _ E. exact (ropt_post H1 call1 ty s a s' Hk1 E). }
          { intros s a s' _ E. exact (ropt_post H2 call2 ty s a s' Hk1 E). }
          intros tv1 tv2 <-.
          eapply simS2_bind with (Q1 := Pty) (Q2 := Pty);
            [apply simS2_of_sim2; destruct tv1 as [cls|]; [apply s2_prim|apply sim2_ret; reflexivity]
            |intros s a s' HP E; exact (Hprim s a s' tv1 HP E)|intros s a s' HP E; exact (Hprim s a s' tv1 HP E)|].
          intros m1 m2 <-. destruct m1; [|apply simS2_of_sim2; apply IHr; assumption].
          eapply simS2_bind with (Q1 := Pnm) (Q2 := Pnm);
            [apply simS2_of_sim2; destruct name; [apply s2_assign|apply sim2_ret; reflexivity]|exact Hasg|exact Hasg|].
          intros _ _ _.
          eapply simS2_bind with (Q1 := Pnm) (Q2 := Pnm); [apply simS2_of_sim2; apply s2_push_exc|exact Hpsh|exact Hpsh|].
          intros _ _ _.
          eapply simS2_bind with (Q1 := fun _ => True) (Q2 := fun _ => True) (R := rres eq); [| auto | auto |].
          * apply simS2_catch. eapply simS2_hq_l with (a := tt).
            -- intros s [HP HN]. apply (payload_hquiet H1 call1 tryn ty name e s); [nh|exact Hk1|exact HP|exact HN].
            -- hs. apply IHb; assumption.
          * intros r1 r2 Hr. apply simS2_of_sim2. apply Htail. exact Hr.
        + (* only the second selection reports the handler *)
          set (Pty := fun s : st => match ty with Some (EName _ x _) => lookup_val x s <> None | _ => True end).
          set (Pnm := fun s : st => Pty s /\ match name with Some nm => lookup_val nm s = Some e | None => True end).
          assert (Hext : forall s s', genv s' = genv s -> frames s' = frames s -> Pty s -> Pty s').
          { intros s s' Hg Hf. unfold Pty. destruct ty as [te|]; [|auto]. destruct te; auto. rewrite (lookup_val_ext x s s' Hg Hf). auto. }
          assert (Hasg : forall s a s', Pty s -> (match name with Some x => assign x e | None => ret tt end) s = (Ok a, s') -> Pnm s').
          { intros s a s' HP E. unfold Pnm. destruct name as [nm|].
            - assert (s' = snd (assign nm e s)) as -> by (rewrite E; reflexivity). split; [|apply lookup_val_assign_same].
              revert HP. unfold Pty. destruct ty as [te|]; [|auto]. destruct te; auto. apply lookup_val_assign_keeps.
            - inversion E; subst. split; [exact HP|exact I]. }
          assert (Hpsh : forall s a s', Pnm s -> push_exc e s = (Ok a, s') -> Pnm s').
          { intros s a s' [HP HN] E. inversion E; subst. split; [apply (Hext s); [reflexivity|reflexivity|exact HP]|].
            destruct name as [nm|]; [|exact I]. rewrite (lookup_val_ext nm s); [exact HN|reflexivity|reflexivity]. }
          assert (Hprim : forall s (a : bool) s' tv, Pty s -> (match tv with None => ret true | Some cls => prim (p_exc_match e cls) end) s = (Ok a, s') -> Pty s').
          { intros s a s' tv HP E. destruct tv as [cls|]; [|inversion E; subst; exact HP].
            apply lookup_prim_keeps in E. destruct E as [Eg Ef]. apply (Hext s); assumption. }
          apply sim2_of_simS2.
          eapply simS2_bind with (Q1 := Pty) (Q2 := Pty); [apply simS2_of_sim2; exact (ropt2 rc0 ty Hs1)| | |].
          { intros s a s' _ E. exact (ropt_post H1 call1 ty s a s' Hk1 E). }
          { intros s a s' _ E. exact (ropt_post H2 call2 ty s a s' Hk1 E). }
          intros tv1 tv2 <-.
          eapply simS2_bind with (Q1 := Pty) (Q2 := Pty);
            [apply simS2_of_sim2; destruct tv1 as [cls|]; [apply s2_prim|apply sim2_ret; reflexivity]
            |intros s a s' HP E; exact (Hprim s a s' tv1 HP E)|intros s a s' HP E; exact (Hprim s a s' tv1 HP E)|].
          intros m1 m2 <-. destruct m1; [|apply simS2_of_sim2; apply IHr; assumption].
          eapply simS2_bind with (Q1 := Pnm) (Q2 := Pnm);
            [apply simS2_of_sim2; destruct name; [apply s2_assign|apply sim2_ret; reflexivity]|exact Hasg|exact Hasg|].
          intros _ _ _.
          eapply simS2_bind with (Q1 := Pnm) (Q2 := Pnm); [apply simS2_of_sim2; apply s2_push_exc|exact Hpsh|exact Hpsh|].
          intros _ _ _.
          eapply simS2_bind with (Q1 := fun _ => True) (Q2 := fun _ => True) (R := rres eq); [| auto | auto |].
          * apply simS2_catch. eapply simS2_hq_r with (a := tt).
            -- intros s [HP HN]. apply (payload_hquiet H2 call2 tryn ty name e s); [nh|exact Hk1|exact HP|exact HN].
            -- hs. apply IHb; assumption.
          * intros r1 r2 Hr. apply simS2_of_sim2. apply Htail. exact Hr.
        + sb2 (exact (ropt2 rc0 ty Hs1)). sb2 (destruct b as [cls|]; [apply s2_prim|apply sim2_ret; reflexivity]).
          destruct b0; [|apply IHr; assumption].
          sb2 (destruct name; [apply s2_assign|apply sim2_ret; reflexivity]). sb2 (apply s2_push_exc).
          eapply sim2_bind with (R := rres eq); [|intros r1 r2 Hr; apply Htail; exact Hr]. apply s2_catch. hs. apply IHb; assumption.
    Qed.
  End HookIndependence.

  Section HookIndependenceRun.
    Variable h : string.
    Hypothesis observing_all : Forall (observing earg) analyses.
    Hypothesis h_leaf : mem_str h generic_names = false.
    Variable mkl : list val -> val.
    Hypothesis mklist_pure : forall l w0, p_mklist l w0 = (mkl l, w0).
    Hypothesis tuple_of_list_spec : forall l w0, p_tuple_of_list (mkl l) w0 = p_mktuple l w0.
    Hypothesis truth_bool : forall b w0, p_truth (p_const (KBool b)) w0 = (POk b, w0).
    Variables H1 H2 : list string.
    Hypothesis h_in1 : cov H1 h = true.
    Hypothesis h_in2 : cov H2 h = true.
    Variable funs : list fundef.
    Definition fun_g8 (fd : fundef) : bool := src_ss (f_body fd) && g8_ss H1 H2 (f_body fd).
    Hypothesis funs_g8 : forallb fun_g8 funs = true.

    Lemma s2_push_frame fd args : sim2 h eq (push_frame fd args) (push_frame fd args).
    Proof.
      intros s1 s2 [Hb Hp]. pose proof Hb as [Hw [Hg [Hf He]]]. unfold push_frame.
      destruct (Nat.eqb (length args) (length (f_params fd))).
      - split; [reflexivity|]. split; [repeat split; cbn; congruence|exact Hp].
      - apply (s2_raise_builtin h eq "TypeError" "wrong number of arguments" s1 s2 (conj Hb Hp)).
    Qed.
    Lemma s2_pop_frame : sim2 h eq pop_frame pop_frame.
    Proof. intros s1 s2 [[Hw [Hg [Hf He]]] Hp]. split; [reflexivity|]. split; [repeat split; cbn; congruence|exact Hp]. Qed.

    Ltac nh := first [ apply (gen_ne h h_leaf); reflexivity
                     | eapply (cov_ne h H1); [exact h_in1|eassumption]
                     | eapply (cov_ne h H2); [exact h_in2|eassumption] ].
    Ltac hq1 := first [ apply hquiet_announce; assumption | apply hquiet_ret | apply hquiet_ev; [assumption|nh] | apply hquiet_notify; [assumption|nh] ].
    Ltac stop2 := repeat match goal with
      | |- sim2 _ _ (bind (bind ?m ?k) ?h0) _ => eapply sim2_meq_l; [apply bind_assoc|]; cbv beta
      | |- sim2 _ _ (bind (ret ?a) ?k) _ => eapply sim2_meq_l; [apply bind_ret_l|]; cbv beta
      | |- sim2 _ _ _ (bind (bind ?m ?k) ?h0) => eapply sim2_meq_r; [apply bind_assoc|]; cbv beta
      | |- sim2 _ _ _ (bind (ret ?a) ?k) => eapply sim2_meq_r; [apply bind_ret_l|]; cbv beta
      end.
    Ltac hs := repeat (stop2; first [ (eapply sim2_hquiet_l; [hq1|]); cbv beta | (eapply sim2_hquiet_r; [hq1|]); cbv beta ]); stop2.
    Ltac same_ev := (eapply sim2_bind; [first [apply s2_ev; assumption | apply sim2_notify; assumption]|intros ? ? [? ?]; subst]); cbv beta.
    Ltac flags := repeat match goal with |- context [cov ?Hs ?x] => let E := fresh "C" in destruct (cov Hs x) eqn:E end; cbn [andb orb negb].

    Theorem hi_fun : forall fuel fid args, sim2 h eq (rrun_fun funs H1 fuel fid args) (rrun_fun funs H2 fuel fid args).
    Proof.
      induction fuel as [|f IH]; intros fid args; [apply s2_const; exact I|].
      cbn [rrun_fun]. destruct (nth_error funs fid) as [fd|] eqn:E; [|apply s2_stuck].
      assert (Hfd : fun_g8 fd = true).
      { apply nth_error_In in E. rewrite forallb_forall in funs_g8. apply funs_g8; exact E. }
      unfold fun_g8 in Hfd. apply andb_true_iff in Hfd; destruct Hfd as [Hs Hk]. cbv zeta.
      eapply sim2_bind; [apply s2_push_frame|intros ? ? _].
      eapply sim2_bind with (R := rres eq).
      - apply s2_catch.
        assert (HB : sim2 h eq (rexec_list H1 (rrun_fun funs H1 f) f {| r_loop := None; r_fn := Some (f_nid fd, f_name fd) |} (f_body fd))
                               (rexec_list H2 (rrun_fun funs H2 f) f {| r_loop := None; r_fn := Some (f_nid fd, f_name fd) |} (f_body fd))).
        { eapply hi_stmt; eauto. }
        flags; hs; repeat (same_ev; hs); (eapply sim2_bind; [exact HB|intros ? ? _]); hs; repeat (same_ev; hs); apply sim2_ret; reflexivity.
      - intros r1 r2 Hr. eapply sim2_bind; [apply s2_pop_frame|intros ? ? _].
        destruct r1 as [[]|e| | |v| |y], r2; cbn [rres] in Hr; try contradiction; subst;
          first [apply sim2_ret; reflexivity | apply s2_stuck | apply s2_const; cbn; auto].
    Qed.

    Theorem hi_module fuel w1 w2 main :
      src_ss main = true -> g8_ss H1 H2 main = true ->
      sim2 h eq (rrun_module funs H1 fuel w1 main) (rrun_module funs H2 fuel w2 main).
    Proof.
      intros Hs Hk. unfold rrun_module.
      assert (HB : sim2 h eq (rexec_list H1 (rrun_fun funs H1 fuel) fuel {| r_loop := None; r_fn := None |} main)
                             (rexec_list H2 (rrun_fun funs H2 fuel) fuel {| r_loop := None; r_fn := None |} main)).
      { eapply hi_stmt; eauto. intros; apply hi_fun. }
      destruct w1, w2; hs; (eapply sim2_bind with (R := rres eq); [apply s2_catch; exact HB|]);
        intros r1 r2 Hr; (destruct r1 as [[]|e| | |v| |y], r2; cbn [rres] in Hr; try contradiction; subst; cbn [andb]);
        try (destruct (p_is_exception e0)); hs; first [apply s2_raise | apply s2_reraise; cbn; auto].
    Qed.
  End HookIndependenceRun.

  (* ================================================================ the delivery log only grows
     Whatever a source program does under the reference semantics, deliveries are appended in the order the
     notifications happen and never dropped or rewritten (for arbitrary analyses).  Consequence: the bracket
     structure of the events of one construct, e.g. a covered call whose callee returns: everything the callee
     reports lies between the pre_call and the post_call deliveries of that call. *)
  Section Grows.
    Definition grows {A} (m : M A) : Prop :=
      forall s, exists d, dels (eng (snd (m s))) = dels (eng s) ++ d.

    Lemma grows_ret {A} (a : A) : grows (ret a).
    Proof. intros s. exists []. rewrite app_nil_r. reflexivity. Qed.
    Lemma grows_keep {A} (m : M A) : (forall s, eng (snd (m s)) = eng s) -> grows m.
    Proof. intros He s. exists []. rewrite He, app_nil_r. reflexivity. Qed.
    Lemma grows_bind {A B} (m : M A) (k : A -> M B) : grows m -> (forall a, grows (k a)) -> grows (bind m k).
    Proof.
      intros Hm Hk s. unfold bind. destruct (Hm s) as [d1 E1]. destruct (m s) as [r s1]. cbn [snd] in E1.
      destruct r; try (exists d1; exact E1).
      destruct (Hk a s1) as [d2 E2]. exists (d1 ++ d2). rewrite E2, E1, app_assoc. reflexivity.
    Qed.
    Lemma grows_catch {A} (m : M A) : grows m -> grows (catch m).
    Proof.
      intros Hm s. unfold catch. destruct (Hm s) as [d E]. destruct (m s) as [r s1]. cbn [snd] in E.
      exists d. destruct r; exact E.
    Qed.
    Lemma grows_const {A} (r : res A) : grows (fun s => (r, s)).
    Proof. intros s. exists []. rewrite app_nil_r. reflexivity. Qed.
    Lemma grows_notify f args : grows (notify f args).
    Proof.
      Transparent notify. intros s. unfold notify.
      pose proof (cie_loop_dels earg e_filt_str e_as_path e_is_iid line_of analyses 0 f args (eng s) None) as [Dl _].
      unfold call_if_exists. destruct (cie_loop earg e_filt_str e_as_path e_is_iid line_of 0 analyses f args (eng s) None) as [r e'].
      cbn [fst snd eng] in *. eexists. exact Dl. Opaque notify.
    Qed.
    Lemma grows_ev f n args : grows (ev f n args).
    Proof. Transparent ev. unfold ev. Opaque ev. apply grows_notify. Qed.
    Lemma grows_prim {A} (p : world -> pres A * world) : grows (prim p).
    Proof. apply grows_keep. apply eng_prim. Qed.
    Lemma grows_prim_total {A} (p : world -> A * world) : grows (prim_total p).
    Proof. apply grows_keep. apply eng_prim_total. Qed.
    Lemma grows_raise_builtin {A} c m : grows (@raise_builtin A c m).
    Proof. apply grows_keep. apply eng_raise_builtin. Qed.
    Lemma grows_lookup x : grows (lookup x).
    Proof. apply grows_keep. apply eng_lookup. Qed.
    Lemma grows_assign x v : grows (assign x v).
    Proof. apply grows_keep. apply eng_assign. Qed.
    Lemma grows_unbind x : grows (unbind x).
    Proof. apply grows_keep. apply eng_unbind. Qed.
    Lemma grows_truth v : grows (truth v).
    Proof. Transparent truth. unfold truth. Opaque truth. apply grows_prim. Qed.
    Lemma grows_RE n : grows (RE n).
    Proof. Transparent RE. unfold RE. Opaque RE. apply grows_bind; [apply grows_ev|intros; apply grows_ret]. Qed.
    Lemma grows_CF n : grows (CF n).
    Proof. Transparent CF. unfold CF. Opaque CF. apply grows_bind; [apply grows_ev|intros; apply grows_ret]. Qed.
    Lemma grows_announce on cf n : grows (announce on cf n).
    Proof.
      Transparent announce. unfold announce. Opaque announce. destruct on; [|apply grows_ret].
      apply grows_bind; [apply grows_RE|intros; destruct cf; [apply grows_CF|apply grows_ret]].
    Qed.

    Ltac gr := repeat first
      [ apply grows_ret | apply grows_ev | apply grows_notify | apply grows_prim | apply grows_prim_total | apply grows_truth
      | apply grows_lookup | apply grows_assign | apply grows_unbind | apply grows_raise_builtin | apply grows_announce
      | apply grows_RE | apply grows_CF | apply grows_const | apply (grows_keep); reflexivity
      | eassumption
      | apply grows_catch
      | apply grows_bind; [|intros ?]
      | match goal with |- grows (if ?b then _ else _) => destruct b end
      | match goal with |- grows (match ?x with _ => _ end) => destruct x end ].

    Variable H : list string.
    Variable call : nat -> list val -> M val.
    Variable bound : nat.
    Hypothesis Hcall : forall f a, grows (call f a).

    Lemma grows_rnot n v t : grows (rnot_events H n v t).
    Proof. Transparent rnot_events. unfold rnot_events. Opaque rnot_events. gr. Qed.

    Theorem grows_expr :
      (forall e, src_e e = true -> forall c, grows (reval H call c e) /\ grows (reval_tv H call c e))
      /\ (forall es, src_es es = true -> forall c, grows (reval_list H call c es))
      /\ (forall r, src_c r = true -> forall c n on ann first l, grows (reval_cmps H call c n on ann first l r))
      /\ (forall r : rcmps, True).
    Proof.
      assert (Hdef : forall e c, jumpy e = false -> grows (reval H call c e) -> grows (reval_tv H call c e)).
      { intros e c J G. rewrite reval_tv_unfold, <- reval_unfold.
        destruct e; try discriminate J; try (destruct o; try discriminate J); gr. }
      Ltac ih := match goal with
        | IH : forall c : rctx, grows (reval _ _ c ?e) /\ _ |- grows (reval _ _ ?c' ?e) => exact (proj1 (IH c'))
        | IH : forall c : rctx, _ /\ grows (reval_tv _ _ c ?e) |- grows (reval_tv _ _ ?c' ?e) => exact (proj2 (IH c'))
        | IH : forall c : rctx, grows (reval_list _ _ c ?es) |- grows (reval_list _ _ ?c' ?es) => exact (IH c')
        | IH : forall (c : rctx) (n : nid) (on ann : bool) (first l : val), grows (reval_cmps _ _ c n on ann first l ?r)
          |- grows (reval_cmps _ _ ?c' ?n' ?on' ?ann' ?f' ?l' ?r) => exact (IH c' n' on' ann' f' l')
        end.
      Ltac gr2 := repeat first [ ih | apply Hcall | apply grows_rnot
        | match goal with |- grows (reval_body _ _ _ _ _ _ ?c ?e) => is_var e; rewrite <- (reval_unfold H call c e) end
        | apply grows_ret | apply grows_ev | apply grows_notify | apply grows_prim | apply grows_prim_total | apply grows_truth
        | apply grows_lookup | apply grows_assign | apply grows_unbind | apply grows_raise_builtin | apply grows_announce
        | apply grows_RE | apply grows_CF | apply grows_const | apply grows_catch
        | apply grows_bind; [|intros ?]
        | match goal with |- grows (if ?b then _ else _) => destruct b end
        | match goal with |- grows (let (_, _) := ?p in _) => destruct p end
        | match goal with |- grows (match ?x with _ => _ end) => destruct x end ].
      Ltac spl := repeat match goal with Hs : (_ && _) = true |- _ => apply andb_true_iff in Hs; destruct Hs end.
      Ltac useih := repeat match goal with
        | IH : ?P = true -> _, Hs : ?P = true |- _ => specialize (IH Hs)
        end.
      apply expr_all_ind; try (intros; discriminate); try (intros; exact I).
      1-12: (intros; match goal with Hs : src_e _ = true |- _ => simpl in Hs end; spl; useih; split;
             [ rewrite reval_unfold; cbn [reval_body]; unfold r_do_call, stuck; gr2
             | first [ apply Hdef; [reflexivity|rewrite reval_unfold; cbn [reval_body]; unfold r_do_call, stuck; gr2]
                     | rewrite reval_tv_unfold; cbv zeta; unfold stuck; gr2 ] ]).
      all: try (intros; match goal with Hs : _ = true |- _ => simpl in Hs end; spl; useih; first [rewrite reval_list_unfold|rewrite reval_cmps_unfold]; gr2).
    Qed.

    Notation GE := (proj1 grows_expr).
    Lemma grows_ropt c o : src_oe o = true -> grows (reval_opt H call c o).
    Proof. destruct o as [e|]; intros Hs; unfold reval_opt; [|apply grows_ret]. apply grows_bind; [exact (proj1 (GE e Hs c))|intros; apply grows_ret]. Qed.
    Lemma grows_store t v : src_t t = true -> grows (rstore H call t v).
    Proof.
      destruct t as [x|n e x|n e i]; intros Hs; simpl in Hs; cbn [rstore]; [apply grows_assign| |].
      - apply grows_bind; [exact (proj1 (GE e Hs rc_tgt))|intros; apply grows_prim].
      - apply andb_true_iff in Hs; destruct Hs as [Hs1 Hs2].
        apply grows_bind; [exact (proj1 (GE e Hs1 rc_tgt))|intros]. apply grows_bind; [exact (proj1 (GE i Hs2 rc_tgt))|intros; apply grows_prim].
    Qed.
    Lemma grows_store_all ts v : forallb src_t ts = true -> grows (rstore_all H call ts v).
    Proof.
      induction ts as [|t r IH]; intros Hs; simpl in Hs; cbn [rstore_all]; [apply grows_ret|].
      apply andb_true_iff in Hs; destruct Hs as [Hs1 Hs2]. apply grows_bind; [exact (grows_store t v Hs1)|intros; apply IH; exact Hs2].
    Qed.
    (* plain evaluation (targets of augmented assignments) leaves the engine alone through program-function calls only *)
    Lemma grows_plain :
      (forall e, src_e e = true -> grows (eval call e) /\ grows (eval_test call e))
      /\ (forall es, src_es es = true -> grows (eval_list call es))
      /\ (forall r, src_c r = true -> forall l, grows (eval_cmps call l r))
      /\ (forall r : rcmps, True).
    Proof.
      Ltac ihp := match goal with
        | IH : grows (eval _ ?e) /\ _ |- grows (eval _ ?e) => exact (proj1 IH)
        | IH : _ /\ grows (eval_test _ ?e) |- grows (eval_test _ ?e) => exact (proj2 IH)
        | IH : grows (eval_list _ ?es) |- grows (eval_list _ ?es) => exact IH
        | IH : forall l, grows (eval_cmps _ l ?r) |- grows (eval_cmps _ ?l' ?r) => exact (IH l')
        end.
      Ltac grp := repeat first [ ihp | apply Hcall
        | apply grows_ret | apply grows_prim | apply grows_prim_total | apply grows_truth | apply grows_lookup
        | apply grows_bind; [|intros ?]
        | match goal with |- grows (if ?b then _ else _) => destruct b end
        | match goal with |- grows (match ?x with _ => _ end) => destruct x end ].
      apply expr_all_ind; try (intros; discriminate); try (intros; exact I).
      1-12: (intros; match goal with Hs : src_e _ = true |- _ => simpl in Hs end; spl; useih; split;
             [ rewrite eval_unfold; cbn [eval_body]; unfold do_call; grp
             | rewrite eval_test_unfold; try (rewrite eval_unfold; cbn [eval_body]); unfold do_call; grp ]).
      all: try (intros; match goal with Hs : _ = true |- _ => simpl in Hs end; spl; useih; first [rewrite eval_list_unfold|rewrite eval_cmps_unfold]; grp).
    Qed.

    Notation GP := (proj1 grows_plain).
    Theorem grows_stmt :
      (forall s, src_s s = true -> forall k, grows (rexec H call bound k s))
      /\ (forall ss, src_ss ss = true -> forall k, grows (rexec_list H call bound k ss))
      /\ (forall hs, src_hs hs = true -> forall k tryn e, grows (rexec_handlers H call bound k tryn e hs)).
    Proof.
      Ltac ihs := match goal with
        | IH : forall k : rsctx, grows (rexec_list _ _ _ k ?ss) |- grows (rexec_list _ _ _ ?k' ?ss) => exact (IH k')
        | IH : forall k : rsctx, grows (rexec _ _ _ k ?s) |- grows (rexec _ _ _ ?k' ?s) => exact (IH k')
        | IH : forall (k : rsctx) (tryn : nid) (e : val), grows (rexec_handlers _ _ _ k tryn e ?hs)
          |- grows (rexec_handlers _ _ _ ?k' ?t' ?e' ?hs) => exact (IH k' t' e')
        end.
      Ltac grs := repeat first [ ihs | eassumption
        | apply grows_ret | apply grows_ev | apply grows_notify | apply grows_prim | apply grows_prim_total | apply grows_truth
        | apply grows_lookup | apply grows_assign | apply grows_unbind | apply grows_raise_builtin | apply grows_announce
        | apply grows_const | apply grows_catch | apply grows_store_all; assumption | apply grows_ropt; assumption
        | apply (grows_keep); reflexivity
        | apply grows_bind; [|intros ?]
        | match goal with |- grows (if ?b then _ else _) => destruct b end
        | match goal with |- grows (let (_, _) := ?p in _) => destruct p end
        | match goal with |- grows (match ?x with _ => _ end) => destruct x end ].
      assert (Htest : forall c leaf n (on : bool), src_e c = true ->
                grows (if on then
                         bind (test_value H call rc0 c) (fun vt =>
                         bind (announce true true n) (fun _ =>
                         bind (ev "enter_control_flow" n [AV (fst vt)]) (fun hi =>
                         bind (ev leaf n [AV (fst vt)]) (fun lo => decide vt lo hi))))
                       else bind (reval_tv H call rc0 c) (fun ct => ret (snd ct)))).
      { intros c leaf n on Hs. destruct (GE c Hs rc0) as [T1 T2]. unfold test_value, decide. grs. }
      apply stmt_all_ind.
      - (* SExpr *) intros e Hs k. simpl in Hs. Transparent rexec. cbn [rexec]. Opaque rexec. pose proof (proj1 (GE e Hs rc0)). grs.
      - (* SAssign *) intros n ts e Hs k. simpl in Hs. spl. Transparent rexec. cbn [rexec]. Opaque rexec.
        pose proof (proj1 (GE e H1 (rc_str rc0))). grs.
      - (* SAug *) intros n t o e Hs k. simpl in Hs. spl. Transparent rexec raug_events. cbn [rexec]. unfold raug_events. Opaque rexec raug_events.
        pose proof (proj1 (GE e H1 (rc_str rc0))).
        destruct t as [x|tn be x|tn be ie]; simpl in H0; spl;
          repeat match goal with Hb : src_e ?b = true |- _ => pose proof (proj1 (GP b Hb)); clear Hb end; grs.
      - (* SIf *) intros n c body IHb orelse IHo Hs k. simpl in Hs. spl. useih. rewrite rexec_SIf. unfold exit_event.
        pose proof (Htest c "enter_if" n (cov H "enter_if") H0). grs.
      - (* SWhile *) intros n c body IHb orelse IHo Hs k. simpl in Hs. spl. useih. rewrite rexec_SWhile.
        pose proof (Htest c "enter_while" n (cov H "enter_while") H0) as HT.
        assert (Hl : forall j, grows (rwloop H call bound k n c body orelse j)); [|apply Hl].
        induction j as [|j IHj]; [apply grows_const|]. cbn [rwloop]. grs.
      - (* SFor *) intros n x it body IHb orelse IHo Hs k. simpl in Hs. spl. useih. rewrite rexec_SFor.
        pose proof (proj1 (GE it H0 rc0)). apply grows_bind; [assumption|intros iterable]. apply grows_bind; [apply grows_prim|intros itv].
        assert (Hl : forall j, grows (rfloop H call bound k n x itv iterable body orelse j)); [|apply Hl].
        induction j as [|j IHj]; [apply grows_const|]. cbn [rfloop]. unfold for_exit, rfor_answer. grs.
      - (* SBreak *) intros n _ k. Transparent rexec. cbn [rexec]. Opaque rexec. unfold rbrk. grs.
      - (* SContinue *) intros n _ k. Transparent rexec. cbn [rexec]. Opaque rexec. unfold rbrk. grs.
      - (* SPass *) intros _ k. Transparent rexec. cbn [rexec]. Opaque rexec. apply grows_ret.
      - (* SAssert *) intros n c m Hs k. simpl in Hs. spl. Transparent rexec. cbn [rexec]. Opaque rexec.
        destruct (GE c H0 rc0) as [T1 T2]. unfold test_value, decide, stuck. grs.
      - (* SRaise *) intros n ex ca Hs k. simpl in Hs. spl. Transparent rexec. cbn [rexec]. Opaque rexec. unfold stuck. grs.
      - (* STry *) intros n body IHb hs IHh orelse IHo final IHf Hs k. simpl in Hs. spl. useih. rewrite rexec_STry. unfold reraise. grs.
      - (* SReturn *) intros n e Hs k. simpl in Hs. Transparent rexec. cbn [rexec]. Opaque rexec.
        apply grows_bind; [destruct e as [a|]; [exact (proj1 (GE a Hs rc0))|apply grows_ret]|intros v]. grs.
      - (* SDef *) intros n fid name _ k. Transparent rexec. cbn [rexec]. Opaque rexec. apply grows_assign.
      - (* Snil *) intros _ k. rewrite rexec_list_nil. apply grows_ret.
      - (* Scons *) intros s0 IHs r IHr Hs k. simpl in Hs. spl. useih. rewrite rexec_list_cons. grs.
      - (* Hnil *) intros _ k tryn e. rewrite rexec_handlers_nil. apply (grows_const (Exc e)).
      - (* Hcons *) intros ty name body IHb rest IHr Hs k tryn e. simpl in Hs. spl. useih. rewrite rexec_handlers_cons. unfold reraise.
        pose proof (grows_ropt rc0 ty H0). grs.
    Qed.

    (* ---- bracket structure of a covered call that returns: the operands, then the announcement and pre_call, then whatever
            the callee reports, then post_call -- in this order and nothing else *)
    Lemma bind_ok_inv {A B} (m : M A) (k : A -> M B) s v s' :
      bind m k s = (Ok v, s') -> exists a s1, m s = (Ok a, s1) /\ k a s1 = (Ok v, s').
    Proof. unfold bind. destruct (m s) as [r s1]. destruct r; try discriminate. intros E. exists a, s1. split; [reflexivity|exact E]. Qed.

    Definition log (s : st) : list (delivery earg) := dels (eng s).
    (* the deliveries of one notification: one per analysis that implements the hook and is not filtered, in list order *)
    Definition dels_of (f : string) (args : list earg) : list (delivery earg) :=
      map (DispatchProofs.mkd earg f args) (DispatchProofs.sel earg e_filt_str 0 analyses f args).

    Lemma notify_log f args s : exists r, fst (notify f args s) = Ok r /\ log (snd (notify f args s)) = log s ++ dels_of f args.
    Proof.
      Transparent notify. unfold notify, log, dels_of.
      pose proof (cie_loop_dels earg e_filt_str e_as_path e_is_iid line_of analyses 0 f args (eng s) None) as [Dl _].
      unfold call_if_exists. destruct (cie_loop earg e_filt_str e_as_path e_is_iid line_of 0 analyses f args (eng s) None) as [r e'].
      cbn [fst snd eng] in *. exists r. split; [reflexivity|exact Dl]. Opaque notify.
    Qed.
    Lemma ev_log f n args s r s' : ev f n args s = (Ok r, s') -> log s' = log s ++ dels_of f (loc n ++ args).
    Proof.
      Transparent ev. unfold ev. Opaque ev. intros E. destruct (notify_log f (loc n ++ args) s) as [r0 [_ L]]. rewrite E in L. exact L.
    Qed.
    Lemma announce_log n s u s' : announce true true n s = (Ok u, s') ->
      log s' = log s ++ dels_of "runtime_event" (loc n) ++ dels_of "control_flow_event" (loc n).
    Proof.
      Transparent announce RE CF. unfold announce, RE, CF. Opaque announce RE CF. intros E.
      apply bind_ok_inv in E. destruct E as [a [s1 [E1 E2]]].
      apply bind_ok_inv in E1. destruct E1 as [r1 [s1' [E1 E1']]]. inversion E1'; subst.
      apply bind_ok_inv in E2. destruct E2 as [r2 [s2' [E2 E2']]]. inversion E2'; subst.
      apply ev_log in E1. apply ev_log in E2. rewrite E2, E1, !app_nil_r, app_assoc. reflexivity.
    Qed.
    Lemma grows_log {A} (m : M A) s : grows m -> exists d, log (snd (m s)) = log s ++ d.
    Proof. intros G. exact (G s). Qed.

    Theorem call_bracket c n f args s v s' :
      src_e f = true -> src_es args = true ->
      cov H "pre_call" || cov H "post_call" = true ->
      reval H call c (ECall n f args) s = (Ok v, s') ->
      exists fv vs rv d_ops d_callee s2 s3,
        r_do_call call fv vs s2 = (Ok rv, s3) /\ log s3 = log s2 ++ d_callee
        /\ log s' = log s ++ d_ops
                     ++ (dels_of "runtime_event" (loc n) ++ dels_of "control_flow_event" (loc n))
                     ++ dels_of "pre_call" (loc n ++ [AV fv; AL (map AV vs); AD])
                     ++ d_callee
                     ++ dels_of "post_call" (loc n ++ [AV rv; AV fv; AT (map AV vs); AD]).
    Proof.
      intros Hf Ha Hc E. rewrite reval_unfold in E. cbn [reval_body] in E. rewrite Hc in E.
      apply bind_ok_inv in E. destruct E as [fv [sa [Ef E]]].
      apply bind_ok_inv in E. destruct E as [vs [sb [Eargs E]]].
      apply bind_ok_inv in E. destruct E as [u [sc [Eann E]]].
      apply bind_ok_inv in E. destruct E as [rp [sd [Epre E]]].
      apply bind_ok_inv in E. destruct E as [rv [se [Ecall E]]].
      apply bind_ok_inv in E. destruct E as [rq [sf [Epost E]]]. inversion E; subst.
      destruct (grows_log (reval H call c f) s (proj1 (GE f Hf c))) as [d1 L1]. rewrite Ef in L1. cbn [snd] in L1.
      destruct (grows_log (reval_list H call (rc_str c) args) sa (proj1 (proj2 grows_expr) args Ha (rc_str c))) as [d2 L2]. rewrite Eargs in L2. cbn [snd] in L2.
      assert (Gc : grows (r_do_call call fv vs)). { unfold r_do_call. destruct (as_fun fv); [apply Hcall|apply grows_prim]. }
      destruct (grows_log _ sd Gc) as [dc Lc]. rewrite Ecall in Lc. cbn [snd] in Lc.
      exists fv, vs, rv, (d1 ++ d2), dc, sd, se. split; [exact Ecall|]. split; [exact Lc|].
      rewrite (ev_log _ _ _ _ _ _ Epost), Lc, (ev_log _ _ _ _ _ _ Epre), (announce_log _ _ _ _ Eann), L2, L1.
      rewrite <- !app_assoc. reflexivity.
    Qed.

    Lemma dels_of_spec f args : Forall (fun d => d_hook d = f /\ d_args d = args) (dels_of f args).
    Proof. unfold dels_of. apply Forall_forall. intros d Hin. apply in_map_iff in Hin. destruct Hin as [i [<- _]]. split; reflexivity. Qed.

    (* the same, saying only what kind of deliveries each segment consists of *)
    Theorem call_bracket_events c n f args s v s' :
      src_e f = true -> src_es args = true ->
      cov H "pre_call" || cov H "post_call" = true ->
      reval H call c (ECall n f args) s = (Ok v, s') ->
      exists fv vs rv d_ops d_ann d_pre d_callee d_post s2 s3,
        r_do_call call fv vs s2 = (Ok rv, s3) /\ log s3 = log s2 ++ d_callee
        /\ log s' = log s ++ d_ops ++ d_ann ++ d_pre ++ d_callee ++ d_post
        /\ Forall (fun d => d_hook d = "runtime_event" \/ d_hook d = "control_flow_event") d_ann
        /\ Forall (fun d => d_hook d = "pre_call" /\ d_args d = loc n ++ [AV fv; AL (map AV vs); AD]) d_pre
        /\ Forall (fun d => d_hook d = "post_call" /\ d_args d = loc n ++ [AV rv; AV fv; AT (map AV vs); AD]) d_post.
    Proof.
      intros Hf Ha Hc E. destruct (call_bracket c n f args s v s' Hf Ha Hc E) as [fv [vs [rv [d_ops [dc [s2 [s3 [E1 [E2 E3]]]]]]]]].
      exists fv, vs, rv, d_ops, (dels_of "runtime_event" (loc n) ++ dels_of "control_flow_event" (loc n)),
             (dels_of "pre_call" (loc n ++ [AV fv; AL (map AV vs); AD])), dc, (dels_of "post_call" (loc n ++ [AV rv; AV fv; AT (map AV vs); AD])), s2, s3.
      split; [exact E1|]. split; [exact E2|]. split; [exact E3|]. split; [|split; apply dels_of_spec].
      apply Forall_app. split; eapply Forall_impl; try apply dels_of_spec; intros d [Hh _]; [left|right]; exact Hh.
    Qed.
  End Grows.

  Section GrowsRun.
    Variable H : list string.
    Variable funs : list fundef.
    Hypothesis funs_src : forallb (fun fd => src_ss (f_body fd)) funs = true.

    Theorem grows_fun : forall fuel fid args, grows (rrun_fun funs H fuel fid args).
    Proof.
      induction fuel as [|f IH]; intros fid args; [apply grows_const|].
      cbn [rrun_fun]. destruct (nth_error funs fid) as [fd|] eqn:E; [|apply (grows_const (Stuck "no such function"))].
      assert (Hs : src_ss (f_body fd) = true).
      { apply nth_error_In in E. rewrite forallb_forall in funs_src. apply funs_src; exact E. }
      cbv zeta. apply grows_bind.
      - intros s. unfold push_frame. destruct (Nat.eqb (length args) (length (f_params fd))); [exists []; rewrite app_nil_r; reflexivity|apply grows_raise_builtin].
      - intros _. apply grows_bind.
        + apply grows_catch.
          pose proof (proj1 (proj2 (grows_stmt H (rrun_fun funs H f) f IH)) (f_body fd) Hs {| r_loop := None; r_fn := Some (f_nid fd, f_name fd) |}) as HB.
          repeat first [ exact HB | apply grows_ret | apply grows_ev | apply grows_announce | apply grows_bind; [|intros ?]
                       | match goal with |- grows (if ?b then _ else _) => destruct b end ].
        + intros r. apply grows_bind; [apply grows_keep; reflexivity|intros _].
          destruct r; first [apply grows_ret | apply grows_const].
    Qed.

    Theorem grows_module fuel wrapped main : src_ss main = true -> grows (rrun_module funs H fuel wrapped main).
    Proof.
      intros Hs. unfold rrun_module.
      pose proof (proj1 (proj2 (grows_stmt H (rrun_fun funs H fuel) fuel (grows_fun fuel))) main Hs {| r_loop := None; r_fn := None |}) as HB.
      repeat first [ exact HB | apply grows_ret | apply grows_notify | apply grows_catch | apply grows_const | apply (grows_const (Exc _))
                   | apply grows_bind; [|intros ?]
                   | match goal with |- grows (if ?b then _ else _) => destruct b end
                   | match goal with |- grows (match ?x with _ => _ end) => destruct x end ].
    Qed.

    (* ---- frames: a covered function reports its entry before anything its body reports; when control reaches the end of
            the body it reports function_exit and implicit_return last; when an exception leaves the body nothing is
            reported after what the body reported (no exit is invented) *)
    Lemma bind_inv {A B} (m : M A) (k : A -> M B) s r s' :
      bind m k s = (r, s') ->
      (exists a s1, m s = (Ok a, s1) /\ k a s1 = (r, s')) \/ (forall a, fst (m s) <> Ok a) .
    Proof.
      unfold bind. destruct (m s) as [r0 s1] eqn:E. destruct r0; intros E'; try (right; intros a0; cbn; discriminate).
      left. exists a, s1. split; [reflexivity|exact E'].
    Qed.

    Lemma ev_ok f n a s : exists r s1, ev f n a s = (Ok r, s1).
    Proof. Transparent ev notify. unfold ev, notify. destruct (call_if_exists _ _ _ _ _ _ _ _ _). eexists; eexists; reflexivity. Opaque ev notify. Qed.
    Lemma announce_ok n s : exists s1, announce true true n s = (Ok tt, s1).
    Proof.
      Transparent announce RE CF. unfold announce, RE, CF, bind, ret. Opaque announce RE CF.
      destruct (ev_ok "runtime_event" n [] s) as [r1 [s1 E1]]. rewrite E1.
      destruct (ev_ok "control_flow_event" n [] s1) as [r2 [s2 E2]]. rewrite E2. eexists; reflexivity.
    Qed.

    Theorem fun_bracket f fid args fd s r s' :
      nth_error funs fid = Some fd -> length args = length (f_params fd) ->
      cov H "function_enter" || cov H "implicit_return" = true ->
      rrun_fun funs H (S f) fid args s = (r, s') ->
      exists s0 s1 s2 rb d_body,
        push_frame fd args s = (Ok tt, s0) /\ log s0 = log s
        /\ log s1 = log s0 ++ (dels_of "runtime_event" (loc (f_nid fd)) ++ dels_of "control_flow_event" (loc (f_nid fd)))
                           ++ dels_of "function_enter" (loc (f_nid fd) ++ [AL (repeat AThunk (length (f_params fd))); AS (f_name fd); AB false])
        /\ rexec_list H (rrun_fun funs H f) f {| r_loop := None; r_fn := Some (f_nid fd, f_name fd) |} (f_body fd) s1 = (rb, s2)
        /\ log s2 = log s1 ++ d_body
        /\ match rb with
           | Ok _ => log s' = log s2 ++ (dels_of "runtime_event" (loc (f_nid fd)) ++ dels_of "control_flow_event" (loc (f_nid fd)))
                                   ++ dels_of "function_exit" (loc (f_nid fd) ++ [AS (f_name fd); ANone])
                                   ++ dels_of "implicit_return" (loc (f_nid fd) ++ [AI (Z.of_nat (f_nid fd)); AS (f_name fd); ANone])
                     /\ r = Ok (p_const KNone)
           | Exc e => log s' = log s2 /\ r = Exc e
           | Ret v => log s' = log s2 /\ r = Ok v
           | _ => log s' = log s2
           end.
    Proof.
      intros Efd Hlen Hon E. cbn [rrun_fun] in E. rewrite Efd in E. cbv zeta in E. rewrite Hon in E.
      assert (Hpf : exists s0, push_frame fd args s = (Ok tt, s0) /\ log s0 = log s).
      { unfold push_frame. rewrite Hlen, Nat.eqb_refl. eexists. split; reflexivity. }
      destruct Hpf as [s0 [Ep L0]].
      set (body := rexec_list H (rrun_fun funs H f) f {| r_loop := None; r_fn := Some (f_nid fd, f_name fd) |} (f_body fd)) in *.
      destruct (announce_ok (f_nid fd) s0) as [sa Ea]. pose proof (announce_log (f_nid fd) s0 tt sa Ea) as La.
      destruct (ev_ok "function_enter" (f_nid fd) [AL (repeat AThunk (length (f_params fd))); AS (f_name fd); AB false] sa) as [q [se Ee]].
      pose proof (ev_log _ _ _ _ _ _ Ee) as Le.
      destruct (body se) as [rb s2] eqn:Eb.
      assert (Gb : grows body).
      { unfold body. assert (Hs : src_ss (f_body fd) = true).
        { apply nth_error_In in Efd. rewrite forallb_forall in funs_src. apply funs_src; exact Efd. }
        exact (proj1 (proj2 (grows_stmt H (rrun_fun funs H f) f (grows_fun f))) (f_body fd) Hs _). }
      destruct (Gb se) as [db Lb]. rewrite Eb in Lb. cbn [snd] in Lb. fold (log s2) in Lb. fold (log se) in Lb.
      exists s0, se, s2, rb, db. split; [exact Ep|]. split; [exact L0|]. split; [rewrite Le, La, <- app_assoc; reflexivity|].
      split; [exact Eb|]. split; [exact Lb|].
      unfold bind, catch, ret in E. rewrite Ep, Ea, Ee, Eb in E.
      destruct rb as [[]|e| | |v| |y].
      - destruct (announce_ok (f_nid fd) s2) as [sb Eb2]. pose proof (announce_log _ _ _ _ Eb2) as Lb2. rewrite Eb2 in E.
        destruct (ev_ok "function_exit" (f_nid fd) [AS (f_name fd); ANone] sb) as [q1 [sc Ec]]. pose proof (ev_log _ _ _ _ _ _ Ec) as Lc. rewrite Ec in E.
        destruct (ev_ok "implicit_return" (f_nid fd) [AI (Z.of_nat (f_nid fd)); AS (f_name fd); ANone] sc) as [q2 [sd Ed]]. pose proof (ev_log _ _ _ _ _ _ Ed) as Ld. rewrite Ed in E.
        cbn in E. inversion E; subst. split; [|reflexivity]. unfold log in *. cbn [eng]. rewrite Ld, Lc, Lb2, <- !app_assoc. reflexivity.
      - cbn in E. inversion E; subst. split; reflexivity.
      - cbn in E. inversion E; subst. reflexivity.
      - cbn in E. inversion E; subst. reflexivity.
      - cbn in E. inversion E; subst. split; reflexivity.
      - cbn in E. inversion E; subst. reflexivity.
      - cbn in E. inversion E; subst. reflexivity.
    Qed.

    Definition is_announce (d : delivery earg) : Prop := d_hook d = "runtime_event" \/ d_hook d = "control_flow_event".
    Theorem fun_bracket_events f fid args fd s r s' :
      nth_error funs fid = Some fd -> length args = length (f_params fd) ->
      cov H "function_enter" || cov H "implicit_return" = true ->
      rrun_fun funs H (S f) fid args s = (r, s') ->
      exists rb d_ann d_enter d_body d_tail,
        log s' = log s ++ d_ann ++ d_enter ++ d_body ++ d_tail
        /\ Forall is_announce d_ann /\ Forall (fun d => d_hook d = "function_enter") d_enter
        /\ (exists s1 s2, rexec_list H (rrun_fun funs H f) f {| r_loop := None; r_fn := Some (f_nid fd, f_name fd) |} (f_body fd) s1 = (rb, s2)
                          /\ log s2 = log s1 ++ d_body)
        /\ match rb with
           | Ok _ => (exists a x i, d_tail = a ++ x ++ i /\ Forall is_announce a /\ Forall (fun d => d_hook d = "function_exit") x
                                   /\ Forall (fun d => d_hook d = "implicit_return") i) /\ r = Ok (p_const KNone)
           | Exc e => d_tail = [] /\ r = Exc e
           | Ret v => d_tail = [] /\ r = Ok v
           | _ => d_tail = []
           end.
    Proof.
      intros Efd Hlen Hon E.
      destruct (fun_bracket f fid args fd s r s' Efd Hlen Hon E) as [s0 [s1 [s2 [rb [db [Ep [L0 [L1 [Eb [L2 Hr]]]]]]]]]].
      assert (Hann : forall n, Forall is_announce (dels_of "runtime_event" (loc n) ++ dels_of "control_flow_event" (loc n))).
      { intros n. apply Forall_app. split; eapply Forall_impl; try apply dels_of_spec; intros d [Hh _]; [left|right]; exact Hh. }
      assert (Hk : forall h a, Forall (fun d => d_hook d = h) (dels_of h a)).
      { intros h a. eapply Forall_impl; [|apply dels_of_spec]. intros d [Hh _]. exact Hh. }
      exists rb, (dels_of "runtime_event" (loc (f_nid fd)) ++ dels_of "control_flow_event" (loc (f_nid fd))),
             (dels_of "function_enter" (loc (f_nid fd) ++ [AL (repeat AThunk (length (f_params fd))); AS (f_name fd); AB false])), db,
             (match rb with
              | Ok _ => (dels_of "runtime_event" (loc (f_nid fd)) ++ dels_of "control_flow_event" (loc (f_nid fd)))
                        ++ dels_of "function_exit" (loc (f_nid fd) ++ [AS (f_name fd); ANone])
                        ++ dels_of "implicit_return" (loc (f_nid fd) ++ [AI (Z.of_nat (f_nid fd)); AS (f_name fd); ANone])
              | _ => [] end).
      split.
      - destruct rb as [[]|e| | |v| |y]; [destruct Hr as [Hr _]|destruct Hr as [Hr _]| | |destruct Hr as [Hr _]| |];
          rewrite Hr, L2, L1, L0, ?app_nil_r, <- ?app_assoc; reflexivity.
      - split; [apply Hann|]. split; [apply Hk|]. split; [exists s1, s2; split; [exact Eb|exact L2]|].
        destruct rb as [[]|e| | |v| |y]; try reflexivity; try (split; [reflexivity|exact (proj2 Hr)]).
        split; [|exact (proj2 Hr)]. eexists; eexists; eexists. split; [reflexivity|]. split; [apply Hann|]. split; apply Hk.
    Qed.
  End GrowsRun.



End Sem.

Arguments POk {val A}. Arguments PRaise {val A}.
Arguments Ok {val A}. Arguments Exc {val A}. Arguments Brk {val A}. Arguments Cnt {val A}. Arguments Ret {val A}.
Arguments Fuel {val A}. Arguments Stuck {val A}.
Arguments AV {val}. Arguments AS {val}. Arguments AI {val}. Arguments AB {val}. Arguments ANone {val}. Arguments AL {val}. Arguments AT {val}. Arguments AThunk {val}. Arguments AD {val}. Arguments AO {val}.
Arguments w {val world}. Arguments genv {val world}. Arguments frames {val world}. Arguments excs {val world}. Arguments eng {val world}.
Arguments locals {val}. Arguments lnames {val}.
