(* Py/Instr.v -- model of the instrumenter (CodeInstrumenter.py) as a tree transformation on MiniPy.
   [H] is the set of selected LEAF hooks (the keys of selected_hooks after get_used_leaves); filters are
   not modelled here (no instrumentation-time pre-filter: every construct of a selected kind is rewritten).
   Contexts: [instr_ctx] carries what the matcher decorators call_if_inside / call_if_not_inside look at
   (an ancestor Assign/AugAssign/Arg/BinaryOperation for plain strings; an ancestor AssignTarget), the
   enclosing loop and the enclosing function. *)
From Coq Require Import String List ZArith Bool Arith.
From DV Require Import Base.Util Hooks.Names Py.Syntax Py.Ops.
Import ListNotations.
Open Scope string_scope.
Open Scope list_scope.

Section Instr.
  Variable H : list string.
  Definition sel (h : string) : bool := mem_str h H.

  Record ictx := { in_str : bool; in_target : bool }.
  Definition c0 : ictx := {| in_str := false; in_target := false |}.
  Definition with_str (c : ictx) : ictx := {| in_str := true; in_target := in_target c |}.

  (* names the instrumenter never touches (blacklist_names) *)
  Definition blacklist : list string :=
    ["__file__"; "__name__"; "__doc__"; "__package__"; "__class__"; "__module__"; "__builtins__"; "__loader__"; "__spec__";
     "__cached__"; "__annotations__"; "__all__"; "__path__"; "__docformat__"; "__version__"; "__author__"; "__email__"; "__license__"].

  (* leave_UnaryOperation / leave_BooleanOperation: snake(name) or "_" + snake(name) *)
  Definition sel_or_us (h : string) : bool := sel h || sel ("_" ++ h)%string.

  Fixpoint any_cmp_sel (r : cmps) : bool :=
    match r with Cnil => false | Ccons o _ rest => sel (snake (cmpop_cls o)) || any_cmp_sel rest end.

  Fixpoint instr_e (c : ictx) (e : expr) : expr :=
    match e with
    | EConst n k =>
      match k with
      | KBool _ => if sel "boolean" && negb (in_target c) then RLit LBool n e else e
      | KNone => if sel "none" && negb (in_target c) then RLit LNone n e else e
      | KInt _ => if sel "integer" then RLit LInt n e else e
      | KFloat _ => if sel "_float" then RLit LFloat n e else e
      | KImag _ => if sel "imaginary" then RLit LImg n e else e
      | KStr _ => if sel "string" && in_str c then RLit LStr n e else e
      end
    | EName n x s =>
      if mem_str x blacklist || in_target c then e
      else if sel "read_identifier" && (match s with NLocal => true | _ => false end) then RRead n x s
      else e
    | EUn n o a =>
      let a' := instr_e c a in
      if sel_or_us (snake (unop_cls o)) then RUnOp n (unop_code o) a' else EUn n o a'
    | EBin n o a b =>
      let a' := instr_e (with_str c) a in
      let b' := instr_e (with_str c) b in
      if sel (snake (binop_cls o)) then RBinOp n (binop_code o) a' b' else EBin n o a' b'
    | EBool n o a b =>
      let a' := instr_e c a in
      let b' := instr_e c b in
      if sel_or_us (snake (boolop_cls o)) then RBinOp n (boolop_code o) a' b' else EBool n o a' b'
    | ECmp n a r =>
      let a' := instr_e c a in
      if any_cmp_sel r then RCmpOp n a' (instr_rc c r) else ECmp n a' (instr_c c r)
    | EIfExp n t a b =>
      let t' := instr_e c t in let a' := instr_e c a in let b' := instr_e c b in
      if sel "enter_if" || sel "exit_if" then RIfExp n t' a' b' else EIfExp n t' a' b'
    | EAttr n a x =>
      let a' := instr_e c a in
      if sel "read_attribute" && negb (in_target c) then RAttr n a' x else EAttr n a' x
    | ESub n a i =>
      let a' := instr_e c a in let i' := instr_e c i in
      if sel "read_subscript" && negb (in_target c) then RSubs n a' i' else ESub n a' i'
    | ECall n f args =>
      let f' := instr_e c f in
      let args' := instr_es (with_str c) args in      (* arguments are inside cst.Arg *)
      if sel "pre_call" || sel "post_call" then RCall n f' args' else ECall n f' args'
    | EList n es =>
      let es' := instr_es c es in
      if sel "_list" && negb (in_target c) then RLit LList n (EList n es') else EList n es'
    | ETuple n es =>
      let es' := instr_es c es in
      if sel "_tuple" && negb (in_target c) then RLit LTuple n (EList n es') else ETuple n es'
    | other => other
    end
  with instr_es (c : ictx) (es : exprs) : exprs :=
    match es with Enil => Enil | Econs e r => Econs (instr_e c e) (instr_es c r) end
  with instr_c (c : ictx) (r : cmps) : cmps :=
    match r with Cnil => Cnil | Ccons o e rest => Ccons o (instr_e c e) (instr_c c rest) end
  with instr_rc (c : ictx) (r : cmps) : rcmps :=
    match r with Cnil => RCnil | Ccons o e rest => RCcons (cmpop_code o) (instr_e c e) (instr_rc c rest) end.

  Definition instr_oe (c : ictx) (o : option expr) : option expr :=
    match o with Some e => Some (instr_e c e) | None => None end.

  (* assignment targets: inside Assign and inside AssignTarget *)
  Definition tctx : ictx := {| in_str := true; in_target := true |}.
  Definition instr_t (t : target) : target :=
    match t with
    | TName x => TName x
    | TAttr n e x => TAttr n (instr_e tctx e) x
    | TSub n e i => TSub n (instr_e tctx e) (instr_e tctx i)
    end.

  (* the target of an augmented assignment as the expression the thunk `lambda: target` evaluates *)
  Definition target_expr (t : target) : expr :=
    match t with
    | TName x => EName 0 x NNone
    | TAttr n e x => EAttr n e x
    | TSub n e i => ESub n e i
    end.

  Definition rstmt (e : expr) : stmt := SExpr e.

  Fixpoint sapp (a b : stmts) : stmts := match a with Snil => b | Scons s r => Scons s (sapp r b) end.
  Definition s1 (s : stmt) : stmts := Scons s Snil.

  (* enclosing loop (iid, type 0 = while / 1 = for) and enclosing function (iid, name) *)
  Record sctx := { loop : option (nid * Z); fn : option (nid * string) }.

  Fixpoint instr_s (k : sctx) (s : stmt) : stmt :=
    match s with
    | SExpr e => SExpr (instr_e c0 e)
    | SAssign n ts e =>
      let e' := instr_e (with_str c0) e in
      let ts' := map instr_t ts in
      if sel "write" then SAssign n ts' (RWrite n e' (length ts)) else SAssign n ts' e'
    | SAug n t o e =>
      let e' := instr_e (with_str c0) e in
      if sel "write" || sel (snake (binop_cls o ++ "Assign")) then
        SAug n t o (RAug n (binop_code o) (target_expr t) e')      (* statement target = original target *)
      else SAug n t o e'
    | SIf n c body orelse =>
      let c' := instr_e c0 c in
      let test := if sel "enter_if" then REnterIf n c' else c' in
      let body' := instr_ss k body in
      let orelse' := instr_ss k orelse in
      if sel "exit_if" then
        SIf n test (sapp body' (s1 (rstmt (REvent "_exit_if_" n)))) (sapp orelse' (s1 (rstmt (REvent "_exit_if_" n))))
      else SIf n test body' orelse'
    | SWhile n c body orelse =>
      let k' := {| loop := Some (n, 0%Z); fn := fn k |} in
      let c' := instr_e c0 c in
      let test := if sel "enter_while" then REnterWhile n c' else c' in
      let body' := instr_ss k' body in
      let orelse' := instr_ss k orelse in
      SWhile n test body' (if sel "normal_exit_while" then sapp orelse' (s1 (rstmt (REvent "_exit_while_" n))) else orelse')
    | SFor n x it body orelse =>
      let k' := {| loop := Some (n, 1%Z); fn := fn k |} in
      let it' := instr_e c0 it in
      let body' := instr_ss k' body in
      let orelse' := instr_ss k orelse in
      if sel "enter_for" then SFor n x (RGen n it') body' orelse'
      else if sel "normal_exit_for" then SFor n x it' body' (Scons (rstmt (REvent "_exit_for_" n)) orelse')
      else SFor n x it' body' orelse'
    | SBreak n =>
      match loop k with
      | Some (l, ty) => if sel "_break" then SIf 0 (RBrk true n l ty) (s1 (SBreak n)) Snil else s
      | None => s
      end
    | SContinue n =>
      match loop k with
      | Some (l, ty) => if sel "_continue" then SIf 0 (RBrk false n l ty) (s1 (SContinue n)) Snil else s
      | None => s
      end
    | SPass => SPass
    | SAssert n c m =>
      let c' := instr_e c0 c in let m' := instr_oe c0 m in
      if sel "_assert" then SAssert n (RAssertT n c' m') m' else SAssert n c' m'
    | SRaise n e ca =>
      let e' := instr_oe c0 e in let ca' := instr_oe c0 ca in
      if sel "_raise" then rstmt (RRaise n e' ca') else SRaise n e' ca'
    | STry n body hs orelse final =>
      let body' := instr_ss k body in
      let body'' := if sel "enter_try" then Scons (rstmt (REvent "_try_" n)) body' else body' in
      let orelse' := instr_ss k orelse in
      let orelse'' := if sel "clean_exit_try" then sapp orelse' (s1 (rstmt (REvent "_end_try_" n))) else orelse' in
      let hs' := instr_hs k n hs in
      let hs'' := if sel "enter_try" || sel "clean_exit_try" then
                    match hs' with Hnil => Hcons None None (s1 (SRaise 0 None None)) Hnil | _ => hs' end
                  else hs' in
      STry n body'' hs'' orelse'' (instr_ss k final)
    | SReturn n e =>
      let e' := instr_oe c0 e in
      match fn k with
      | Some (f, name) => if sel "_return" then SReturn n (Some (RRet n f name e')) else SReturn n e'
      | None => SReturn n e'
      end
    | SDef n fid name => s
    end
  with instr_ss (k : sctx) (ss : stmts) : stmts :=
    match ss with Snil => Snil | Scons s r => Scons (instr_s k s) (instr_ss k r) end
  with instr_hs (k : sctx) (tryn : nid) (hs : handlers) : handlers :=
    match hs with
    | Hnil => Hnil
    | Hcons ty name body rest =>
      let ty' := instr_oe c0 ty in
      let body' := instr_ss k body in
      Hcons ty' name (if sel "exception" then Scons (rstmt (RExc tryn ty' name)) body' else body') (instr_hs k tryn rest)
    end.

  Definition instr_fun (fd : fundef) : fundef :=
    let body' := instr_ss {| loop := None; fn := Some (f_nid fd, f_name fd) |} (f_body fd) in
    {| f_nid := f_nid fd; f_name := f_name fd; f_params := f_params fd; f_locals := f_locals fd;
       f_body := if sel "function_enter" || sel "implicit_return" then
                   Scons (rstmt (RFuncEntry (f_nid fd) (f_params fd) (f_name fd)))
                         (sapp body' (s1 (rstmt (RFuncExit (f_nid fd) (f_name fd)))))
                 else body' |}.

  Definition instr_prog (p : program) : program :=
    {| p_funs := map instr_fun (p_funs p);
       p_main := instr_ss {| loop := None; fn := None |} (p_main p) |}.
End Instr.

(* does the instrumented program contain any runtime call (to_import non-empty => the module is wrapped)? *)
Fixpoint has_rt_e (e : expr) : bool :=
  match e with
  | EConst _ _ | EName _ _ _ => false
  | EUn _ _ a | EAttr _ a _ => has_rt_e a
  | EBin _ _ a b | EBool _ _ a b | ESub _ a b => has_rt_e a || has_rt_e b
  | ECmp _ a r => has_rt_e a || has_rt_c r
  | EIfExp _ c a b => has_rt_e c || has_rt_e a || has_rt_e b
  | ECall _ f args => has_rt_e f || has_rt_es args
  | EList _ es | ETuple _ es => has_rt_es es
  | _ => true
  end
with has_rt_es (es : exprs) : bool := match es with Enil => false | Econs e r => has_rt_e e || has_rt_es r end
with has_rt_c (r : cmps) : bool := match r with Cnil => false | Ccons _ e r => has_rt_e e || has_rt_c r end.
Definition has_rt_oe (o : option expr) : bool := match o with Some e => has_rt_e e | None => false end.
Definition has_rt_t (t : target) : bool :=
  match t with TName _ => false | TAttr _ e _ => has_rt_e e | TSub _ e i => has_rt_e e || has_rt_e i end.
Fixpoint has_rt_s (s : stmt) : bool :=
  match s with
  | SExpr e => has_rt_e e
  | SAssign _ ts e => existsb has_rt_t ts || has_rt_e e
  | SAug _ t _ e => has_rt_t t || has_rt_e e
  | SIf _ c b o | SWhile _ c b o => has_rt_e c || has_rt_ss b || has_rt_ss o
  | SFor _ _ it b o => has_rt_e it || has_rt_ss b || has_rt_ss o
  | SBreak _ | SContinue _ | SPass | SDef _ _ _ => false
  | SAssert _ c m => has_rt_e c || has_rt_oe m
  | SRaise _ e c => has_rt_oe e || has_rt_oe c
  | STry _ b hs o f => has_rt_ss b || has_rt_hs hs || has_rt_ss o || has_rt_ss f
  | SReturn _ e => has_rt_oe e
  end
with has_rt_ss (ss : stmts) : bool := match ss with Snil => false | Scons s r => has_rt_s s || has_rt_ss r end
with has_rt_hs (hs : handlers) : bool :=
  match hs with Hnil => false | Hcons ty _ b r => has_rt_oe ty || has_rt_ss b || has_rt_hs r end.
Definition has_rt (p : program) : bool := existsb (fun f => has_rt_ss (f_body f)) (p_funs p) || has_rt_ss (p_main p).
