(* Py/Syntax.v -- MiniPy: one AST for source programs and for instrumented programs.
   Source constructors (the E.. and S.. ones) are what the generator and printer produce; runtime-call constructors (R..)
   mirror what the instrumenter emits (calls of the form _rt._xxx_(_dynapyt_ast_, iid, ...)) and never occur in source
   programs (predicate src_e and friends).  Every source node carries a node id [nid]; the id map of the real system
   names the node's source extent, so events are compared by node id. *)
From Coq Require Import String List ZArith Bool.
Import ListNotations.

Definition nid := nat.

Inductive const :=
| KNone | KBool (b : bool) | KInt (z : Z) | KStr (s : string) | KFloat (tok : string) | KImag (tok : string).

Inductive unop := UInvert | UMinus | UNot | UPlus.
Inductive binop :=
| BAdd | BBitAnd | BBitOr | BBitXor | BDivide | BFloorDivide | BLeftShift | BMatrixMultiply
| BModulo | BMultiply | BPower | BRightShift | BSubtract.
Inductive boolop := BAnd | BOr.
Inductive cmpop :=
| CEqual | CGreaterThan | CGreaterThanEqual | CIn | CIs | CLessThan | CLessThanEqual | CNotEqual | CIsNot | CNotIn.

(* how libcst's QualifiedNameProvider classifies a name load (oracle supplied with the program) *)
Inductive nsrc := NLocal | NBuiltin | NImport | NNone.

(* literal wrappers of the runtime *)
Inductive litk := LBool | LInt | LFloat | LStr | LImg | LNone | LList | LTuple.

Inductive expr :=
(* ---- source *)
| EConst (n : nid) (c : const)
| EName (n : nid) (x : string) (s : nsrc)
| EUn (n : nid) (o : unop) (e : expr)
| EBin (n : nid) (o : binop) (a b : expr)
| EBool (n : nid) (o : boolop) (a b : expr)
| ECmp (n : nid) (a : expr) (r : cmps)
| EIfExp (n : nid) (c a b : expr)
| EAttr (n : nid) (e : expr) (x : string)
| ESub (n : nid) (e i : expr)
| ECall (n : nid) (f : expr) (args : exprs)
| EList (n : nid) (es : exprs)
| ETuple (n : nid) (es : exprs)
(* ---- runtime calls (instrumented code only); thunk arguments are evaluated lazily by the runtime *)
| RLit (k : litk) (n : nid) (e : expr)                 (* _bool_/_int_/_float_/_str_/_img_/_none_/_list_/_tuple_ *)
| RRead (n : nid) (x : string) (s : nsrc)              (* _read_(lambda: x) *)
| RUnOp (n : nid) (code : Z) (e : expr)                (* _unary_op_(code, e) *)
| RBinOp (n : nid) (code : Z) (a b : expr)             (* _binary_op_(lambda: a, code, lambda: b) *)
| RCmpOp (n : nid) (a : expr) (r : rcmps)              (* _comp_op_(a, [(code, e) ...]) -- comparators evaluated eagerly *)
| RIfExp (n : nid) (c a b : expr)                      (* _if_expr_(c, lambda: a, lambda: b) *)
| RAttr (n : nid) (e : expr) (x : string)              (* _attr_(e, "x") *)
| RSubs (n : nid) (e i : expr)                         (* _sub_(e, [i]) *)
| RCall (n : nid) (f : expr) (args : exprs)            (* _call_(f, False, [("", a) ...], {}) *)
| RWrite (n : nid) (e : expr) (ntargets : nat)         (* _write_(e, [lambda: t ...]) *)
| RAug (n : nid) (code : Z) (t : expr) (e : expr)      (* _aug_assign_(lambda: t, code, e) *)
| REnterIf (n : nid) (c : expr)                        (* _enter_if_(c) *)
| REnterWhile (n : nid) (c : expr)                     (* _enter_while_(c) *)
| RAssertT (n : nid) (c : expr) (msg : option expr)    (* _assert_(c, msg | None) *)
| RBrk (isbreak : bool) (n : nid) (loop : nid) (ltype : Z)   (* _break_/_continue_(iid, loop_iid, loop_type) *)
| RRet (n : nid) (fn : nid) (name : string) (e : option expr) (* _return_(fn_iid, name[, return_val=e]) *)
| REvent (ep : string) (n : nid)                       (* operand-free entry points: _try_ _end_try_ _exit_if_ _exit_while_ _exit_for_ *)
| RFuncEntry (n : nid) (params : list string) (name : string)  (* _func_entry_([lambda: p ...], "name") *)
| RFuncExit (n : nid) (name : string)                  (* _func_exit_("name") *)
| RExc (n : nid) (ty : option expr) (name : option string)   (* _exc_(try_iid[, exc=ty][, name=e]) *)
| RRaise (n : nid) (exc : option expr) (cause : option expr) (* _raise_([exc=e][, cause=c]) *)
| RGen (n : nid) (it : expr)                           (* _gen_(iter) *)
with exprs := Enil | Econs (e : expr) (r : exprs)
with cmps := Cnil | Ccons (o : cmpop) (e : expr) (r : cmps)
with rcmps := RCnil | RCcons (code : Z) (e : expr) (r : rcmps).

Inductive target :=
| TName (x : string)
| TAttr (n : nid) (e : expr) (x : string)
| TSub (n : nid) (e i : expr).

Inductive stmt :=
| SExpr (e : expr)
| SAssign (n : nid) (ts : list target) (e : expr)
| SAug (n : nid) (t : target) (o : binop) (e : expr)
| SIf (n : nid) (c : expr) (body orelse : stmts)
| SWhile (n : nid) (c : expr) (body orelse : stmts)
| SFor (n : nid) (x : string) (it : expr) (body orelse : stmts)
| SBreak (n : nid)
| SContinue (n : nid)
| SPass
| SAssert (n : nid) (c : expr) (msg : option expr)
| SRaise (n : nid) (exc : option expr) (cause : option expr)
| STry (n : nid) (body : stmts) (hs : handlers) (orelse final : stmts)
| SReturn (n : nid) (e : option expr)
| SDef (n : nid) (fid : nat) (name : string)
with stmts := Snil | Scons (s : stmt) (r : stmts)
with handlers := Hnil | Hcons (ty : option expr) (name : option string) (body : stmts) (r : handlers).

(* a program-defined function: parameters (positional), names local to the body, body *)
Record fundef := { f_nid : nid; f_name : string; f_params : list string; f_locals : list string; f_body : stmts }.

Record program := { p_funs : list fundef; p_main : stmts }.

Scheme expr_mut := Induction for expr Sort Prop
  with exprs_mut := Induction for exprs Sort Prop
  with cmps_mut := Induction for cmps Sort Prop
  with rcmps_mut := Induction for rcmps Sort Prop.
Combined Scheme expr_all_ind from expr_mut, exprs_mut, cmps_mut, rcmps_mut.

Scheme stmt_mut := Induction for stmt Sort Prop
  with stmts_mut := Induction for stmts Sort Prop
  with handlers_mut := Induction for handlers Sort Prop.
Combined Scheme stmt_all_ind from stmt_mut, stmts_mut, handlers_mut.

(* ------------------------------------------------------------------ source programs contain no runtime calls *)
Fixpoint src_e (e : expr) : bool :=
  match e with
  | EConst _ _ | EName _ _ _ => true
  | EUn _ _ e => src_e e
  | EBin _ _ a b | EBool _ _ a b => src_e a && src_e b
  | ECmp _ a r => src_e a && src_c r
  | EIfExp _ c a b => src_e c && src_e a && src_e b
  | EAttr _ e _ => src_e e
  | ESub _ e i => src_e e && src_e i
  | ECall _ f args => src_e f && src_es args
  | EList _ es | ETuple _ es => src_es es
  | _ => false
  end
with src_es (es : exprs) : bool := match es with Enil => true | Econs e r => src_e e && src_es r end
with src_c (r : cmps) : bool := match r with Cnil => true | Ccons _ e r => src_e e && src_c r end.

Definition src_oe (o : option expr) : bool := match o with Some e => src_e e | None => true end.
Definition src_t (t : target) : bool :=
  match t with TName _ => true | TAttr _ e _ => src_e e | TSub _ e i => src_e e && src_e i end.

Fixpoint src_s (s : stmt) : bool :=
  match s with
  | SExpr e => src_e e
  | SAssign _ ts e => forallb src_t ts && src_e e
  | SAug _ t _ e => src_t t && src_e e
  | SIf _ c b o | SWhile _ c b o => src_e c && src_ss b && src_ss o
  | SFor _ _ it b o => src_e it && src_ss b && src_ss o
  | SBreak _ | SContinue _ | SPass | SDef _ _ _ => true
  | SAssert _ c m => src_e c && src_oe m
  | SRaise _ e c => src_oe e && src_oe c
  | STry _ b hs o f => src_ss b && src_hs hs && src_ss o && src_ss f
  | SReturn _ e => src_oe e
  end
with src_ss (ss : stmts) : bool := match ss with Snil => true | Scons s r => src_s s && src_ss r end
with src_hs (hs : handlers) : bool :=
  match hs with Hnil => true | Hcons ty _ b r => src_oe ty && src_ss b && src_hs r end.

Definition src_prog (p : program) : bool := forallb (fun f => src_ss (f_body f)) (p_funs p) && src_ss (p_main p).
