(* Py/Props.v -- what each end-to-end property observes of a run, and the corresponding projections of the
   refinement theorem (Py/Refine.v).  *)
From Coq Require Import String List ZArith Bool Arith.
From DV Require Import Base.Util Hooks.Names Engine.Dispatch Py.Syntax Py.Ops Py.Instr Py.Sem Py.Refine.
Import ListNotations.
Open Scope string_scope.
Open Scope list_scope.

Section Obs.
  Variable D : data.
  Notation state := (state D).
  Notation result := (result D).

  (* what the program can see or leave behind: outcome, external world, module globals, frames, handled exceptions *)
  Definition behaviour (x : result) :=
    (fst x, w (snd x), genv (snd x), frames (snd x), excs (snd x)).
  (* what the analyses were told: every delivery (analysis index, hook, arguments) in order, and the coverage map *)
  Definition deliveries (x : result) : list (delivery (earg (d_val D))) := dels (eng (snd x)).
  Definition coverage (x : result) := Dispatch.cov (eng (snd x)).
  (* the deliveries of the hooks of one family *)
  Definition deliveries_of (hooks : list string) (x : result) :=
    filter (fun d => mem_str (d_hook d) hooks) (deliveries x).
End Obs.

Section Projections.
  Variable D : data.
  Variable analyses : list (analysis (earg (d_val D))).
  Variable modpath : string.
  Variable H : list string.
  Variable p : program.
  Variable fuel : nat.
  Variable s : state D.
  Hypothesis Hpure : pure_truth D.
  Hypothesis Hsrc : src_prog p = true.
  Hypothesis Hok : ok_prog H p = true.

  Let I := inst_run D analyses modpath H fuel p s.
  Let S := ref_run D analyses modpath H fuel p s.

  Lemma same_run : I = S.
  Proof. exact (instrumented_is_reference D analyses modpath H p fuel s Hpure Hsrc Hok). Qed.
  Lemma same_behaviour : behaviour D I = behaviour D S.
  Proof. rewrite same_run. reflexivity. Qed.
  Lemma same_deliveries : deliveries D I = deliveries D S.
  Proof. rewrite same_run. reflexivity. Qed.
  Lemma same_deliveries_of hooks : deliveries_of D hooks I = deliveries_of D hooks S.
  Proof. rewrite same_run. reflexivity. Qed.
  Lemma same_coverage : coverage D I = coverage D S.
  Proof. rewrite same_run. reflexivity. Qed.
End Projections.

(* ================================================================ the delivery log only grows *)
Section LogGrows.
  Variable D : data.
  Variable analyses : list (analysis (earg (d_val D))).
  Variable modpath : string.

  (* whatever the analyses answer: a run appends to the log of deliveries, in the order the notifications happen;
     nothing delivered earlier is dropped, rewritten or reordered *)
  Theorem reference_log_grows (H : list string) (p : program) (fuel : nat) (s : state D) :
    src_prog p = true ->
    exists d, deliveries D (ref_run D analyses modpath H fuel p s) = dels (eng s) ++ d.
  Proof.
    intros Hs. unfold src_prog in Hs. apply andb_true_iff in Hs; destruct Hs as [Hsf Hsm].
    unfold deliveries, ref_run. eapply grows_module; eauto.
  Qed.
  Theorem instrumented_log_grows (H : list string) (p : program) (fuel : nat) (s : state D) :
    pure_truth D -> src_prog p = true -> ok_prog H p = true ->
    exists d, deliveries D (inst_run D analyses modpath H fuel p s) = dels (eng s) ++ d.
  Proof.
    intros Hp Hs Ho. rewrite (instrumented_is_reference D analyses modpath H p fuel s Hp Hs Ho).
    apply reference_log_grows; exact Hs.
  Qed.
End LogGrows.
