(* Py/Props.v -- what each end-to-end property observes of a run, and the corresponding projections of the
   refinement theorem (Py/Refine.v).  *)
From Coq Require Import String List ZArith Bool Arith.
From DV Require Import Base.Util Hooks.Names Engine.Dispatch Py.Syntax Py.Ops Py.Instr Py.Sem Py.Refine.
Import ListNotations.
Open Scope string_scope.
Open Scope list_scope.

Section Obs.
  Variable D : data.
  Notation state := (state D).
  Notation result := (result D).

  (* what the program can see or leave behind: outcome, external world, module globals, frames, handled exceptions *)
  Definition behaviour (x : result) :=
    (fst x, w (snd x), genv (snd x), frames (snd x), excs (snd x)).
  (* what the analyses were told: every delivery (analysis index, hook, arguments) in order, and the coverage map *)
  Definition deliveries (x : result) : list (delivery (earg (d_val D))) := dels (eng (snd x)).
  Definition coverage (x : result) := Dispatch.cov (eng (snd x)).
  (* the deliveries of the hooks of one family *)
  Definition deliveries_of (hooks : list string) (x : result) :=
    filter (fun d => mem_str (d_hook d) hooks) (deliveries x).
End Obs.

Section Projections.
  Variable D : data.
  Variable analyses : list (analysis (earg (d_val D))).
  Variable modpath : string.
  Variable H : list string.
  Variable p : program.
  Variable fuel : nat.
  Variable s : state D.
  Hypothesis Hpure : pure_truth D.
  Hypothesis Hunb : unbound_reads_uniform D.
  Hypothesis Hsrc : src_prog p = true.
  Hypothesis Hok : ok_prog H p = true.

  Let I := inst_run D analyses modpath H fuel p s.
  Let S := ref_run D analyses modpath H fuel p s.

  Lemma same_run : I = S.
  Proof. exact (instrumented_is_reference D analyses modpath H p fuel s Hpure Hunb Hsrc Hok). Qed.
  Lemma same_behaviour : behaviour D I = behaviour D S.
  Proof. rewrite same_run. reflexivity. Qed.
  Lemma same_deliveries : deliveries D I = deliveries D S.
  Proof. rewrite same_run. reflexivity. Qed.
  Lemma same_deliveries_of hooks : deliveries_of D hooks I = deliveries_of D hooks S.
  Proof. rewrite same_run. reflexivity. Qed.
  Lemma same_coverage : coverage D I = coverage D S.
  Proof. rewrite same_run. reflexivity. Qed.
End Projections.

(* ================================================================ the delivery log only grows *)
Section LogGrows.
  Variable D : data.
  Variable analyses : list (analysis (earg (d_val D))).
  Variable modpath : string.

  (* whatever the analyses answer: a run appends to the log of deliveries, in the order the notifications happen;
     nothing delivered earlier is dropped, rewritten or reordered *)
  Theorem reference_log_grows (H : list string) (p : program) (fuel : nat) (s : state D) :
    src_prog p = true ->
    exists d, deliveries D (ref_run D analyses modpath H fuel p s) = dels (eng s) ++ d.
  Proof.
    intros Hs. unfold src_prog in Hs. apply andb_true_iff in Hs; destruct Hs as [Hsf Hsm].
    unfold deliveries, ref_run. eapply grows_module; eauto.
  Qed.
  Theorem instrumented_log_grows (H : list string) (p : program) (fuel : nat) (s : state D) :
    pure_truth D -> unbound_reads_uniform D -> src_prog p = true -> ok_prog H p = true ->
    exists d, deliveries D (inst_run D analyses modpath H fuel p s) = dels (eng s) ++ d.
  Proof.
    intros Hp Hu Hs Ho. rewrite (instrumented_is_reference D analyses modpath H p fuel s Hp Hu Hs Ho).
    apply reference_log_grows; exact Hs.
  Qed.
End LogGrows.

(* ================================================================ bracket structure of a covered call *)
Section CallBracket.
  Variable D : data.
  Variable analyses : list (analysis (earg (d_val D))).
  Variable modpath : string.

  (* the reference evaluation of an expression of a program whose functions are [funs], with call depth [fuel] *)
  Definition ref_call (H : list string) (funs : list fundef) (fuel : nat) : nat -> list (d_val D) -> M (d_val D) (d_world D) (d_val D) :=
    rrun_fun (d_val D) (d_world D) (d_const D) (d_un D) (d_bin D) (d_inplace D) (d_cmp D) (d_truth D) (d_getattr D)
             (d_setattr D) (d_getitem D) (d_setitem D) (d_call D) (d_mklist D) (d_mktuple D) (d_tuple_of_list D)
             (d_iter D) (d_next D) (d_exc_match D) (d_exc D) (d_assertion D) (d_with_cause D) (d_as_exc D)
             (d_as_fun D) (d_mk_fun D) (d_filt_str D) (d_is_int D) (d_line_of D) analyses modpath funs H fuel.
  Definition ref_eval (H : list string) (funs : list fundef) (fuel : nat) (c : rctx) (e : expr) :=
    reval (d_val D) (d_world D) (d_const D) (d_un D) (d_bin D) (d_cmp D) (d_truth D) (d_getattr D) (d_getitem D) (d_call D)
          (d_mklist D) (d_mktuple D) (d_tuple_of_list D) (d_exc D) (d_as_fun D) (d_filt_str D) (d_is_int D) (d_line_of D)
          analyses modpath H (ref_call H funs fuel) c e.

  (* a covered call that returns: its deliveries are, in this order and nothing else, those of the operands, the
     announcement, pre_call (callee and arguments as evaluated), whatever the callee reports, post_call (the returned
     value); for arbitrary analyses, any call depth, any callee (program function or not) *)
  Theorem covered_call_brackets (H : list string) (funs : list fundef) (fuel : nat) c n f args (s s' : state D) v :
    forallb (fun fd => src_ss (f_body fd)) funs = true -> src_e f = true -> src_es args = true ->
    (mem_str "pre_call" H || mem_str "post_call" H) = true ->
    ref_eval H funs fuel c (ECall n f args) s = (Ok v, s') ->
    exists fv vs rv d_ops d_ann d_pre d_callee d_post,
      dels (eng s') = dels (eng s) ++ d_ops ++ d_ann ++ d_pre ++ d_callee ++ d_post
      /\ Forall (fun d => d_hook d = "runtime_event" \/ d_hook d = "control_flow_event") d_ann
      /\ Forall (fun d => d_hook d = "pre_call" /\ d_args d = [AS modpath; AI (Z.of_nat n); AV fv; AL (map AV vs); AD]) d_pre
      /\ Forall (fun d => d_hook d = "post_call" /\ d_args d = [AS modpath; AI (Z.of_nat n); AV rv; AV fv; AT (map AV vs); AD]) d_post.
  Proof.
    intros Hfs Hf Ha Hc E. unfold ref_eval in E.
    eapply call_bracket_events in E; eauto.
    - destruct E as [fv [vs [rv [d_ops [d_ann [d_pre [d_callee [d_post [s2 [s3 [_ [_ [L [A1 [A2 A3]]]]]]]]]]]]]]].
      exists fv, vs, rv, d_ops, d_ann, d_pre, d_callee, d_post. split; [exact L|]. split; [exact A1|]. split; [exact A2|exact A3].
    - intros fid a. unfold ref_call. apply grows_fun. exact Hfs.
  Qed.

  (* a covered program function: entry is reported before anything its body reports; when control reaches the end of the
     body, function_exit and implicit_return are reported last and the call returns None; when an exception leaves the
     body nothing is reported after what the body reported (no exit is invented) and the exception propagates *)
  Theorem covered_function_frames (H : list string) (funs : list fundef) (f fid : nat) (args : list (d_val D)) fd (s s' : state D) r :
    forallb (fun fd => src_ss (f_body fd)) funs = true ->
    nth_error funs fid = Some fd -> length args = length (f_params fd) ->
    (mem_str "function_enter" H || mem_str "implicit_return" H) = true ->
    ref_call H funs (S f) fid args s = (r, s') ->
    exists (rb : res (d_val D) unit) d_ann d_enter d_body d_tail,
      dels (eng s') = dels (eng s) ++ d_ann ++ d_enter ++ d_body ++ d_tail
      /\ Forall (fun d => d_hook d = "runtime_event" \/ d_hook d = "control_flow_event") d_ann
      /\ Forall (fun d => d_hook d = "function_enter") d_enter
      /\ match rb with
         | Ok _ => (exists a x i, d_tail = a ++ x ++ i
                                 /\ Forall (fun d => d_hook d = "runtime_event" \/ d_hook d = "control_flow_event") a
                                 /\ Forall (fun d => d_hook d = "function_exit") x /\ Forall (fun d => d_hook d = "implicit_return") i)
                   /\ r = Ok (d_const D KNone)
         | Exc e => d_tail = [] /\ r = Exc e
         | Ret v => d_tail = [] /\ r = Ok v
         | _ => d_tail = []
         end.
  Proof.
    intros Hfs Efd Hlen Hon E. unfold ref_call in E.
    eapply fun_bracket_events in E; eauto.
    destruct E as [rb [d_ann [d_enter [d_body [d_tail [L [A1 [A2 [_ Hr]]]]]]]]].
    exists rb, d_ann, d_enter, d_body, d_tail. split; [exact L|]. split; [exact A1|]. split; [exact A2|exact Hr].
  Qed.
End CallBracket.
