(* Py/Refine.v -- the refinement theorems of Py/Sem.v packaged at program level.

   [data] bundles a data semantics (values, world, primitive operations); the three runs of a MiniPy program
   that the correspondence check evaluates on the concrete data semantics (Concrete/Run.v) are defined here
   for EVERY data semantics, and the theorem relates them for every program, hook selection, set of analyses,
   fuel and initial state. *)
From Coq Require Import String List ZArith Bool Arith.
From DV Require Import Base.Util Hooks.Names Engine.Dispatch Py.Syntax Py.Ops Py.Instr Py.Sem.
Import ListNotations.
Open Scope string_scope.
Open Scope list_scope.

Record data := {
  d_val : Type;
  d_world : Type;
  d_const : const -> d_val;
  d_un : unop -> d_val -> d_world -> pres d_val d_val * d_world;
  d_bin : binop -> d_val -> d_val -> d_world -> pres d_val d_val * d_world;
  d_inplace : binop -> d_val -> d_val -> d_world -> pres d_val d_val * d_world;
  d_cmp : cmpop -> d_val -> d_val -> d_world -> pres d_val d_val * d_world;
  d_truth : d_val -> d_world -> pres d_val bool * d_world;
  d_getattr : d_val -> string -> d_world -> pres d_val d_val * d_world;
  d_setattr : d_val -> string -> d_val -> d_world -> pres d_val unit * d_world;
  d_getitem : d_val -> d_val -> d_world -> pres d_val d_val * d_world;
  d_setitem : d_val -> d_val -> d_val -> d_world -> pres d_val unit * d_world;
  d_call : d_val -> list d_val -> d_world -> pres d_val d_val * d_world;
  d_mklist : list d_val -> d_world -> d_val * d_world;
  d_mktuple : list d_val -> d_world -> d_val * d_world;
  d_tuple_of_list : d_val -> d_world -> d_val * d_world;
  d_iter : d_val -> d_world -> pres d_val d_val * d_world;
  d_next : d_val -> d_world -> pres d_val (option d_val) * d_world;
  d_exc_match : d_val -> d_val -> d_world -> pres d_val bool * d_world;
  d_exc : string -> string -> d_world -> d_val * d_world;
  d_assertion : option d_val -> d_world -> d_val * d_world;
  d_with_cause : d_val -> d_val -> d_world -> d_val * d_world;
  d_as_exc : d_val -> d_world -> d_val * d_world;
  d_is_exception : d_val -> bool;
  d_as_fun : d_val -> option nat;
  d_mk_fun : nat -> d_val;
  d_filt_str : d_val -> option string;
  d_is_int : d_val -> bool;
  d_line_of : string -> earg d_val -> nat
}.

(* truth tests are total and effect-free, and the booleans test as themselves *)
Definition pure_truth (D : data) : Prop :=
  exists tr : d_val D -> bool,
    (forall v w0, d_truth D v w0 = (POk (tr v), w0)) /\ (forall b, tr (d_const D (KBool b)) = b).

(* the data semantics does not tell apart the two exceptions CPython has for the read of a function local that is
   not bound yet: UnboundLocalError for the direct read, and the NameError ("cannot access free variable ...") of
   the read through `lambda: x`, which is how the instrumented program reads a name whose read is hooked
   (Py/Sem.v, lookup_thunk).  CPython itself does tell them apart: Properties/C01.v, C01_refuted_unbound_local_thunk;
   KNOWN_FINDINGS.jsonl, unbound_local_thunk *)
Definition unbound_reads_uniform (D : data) : Prop :=
  forall x w0, d_exc D "NameError:free" x w0 = d_exc D "UnboundLocalError" x w0.

(* source programs (no runtime-call constructor) *)
Definition src_prog (p : program) : bool :=
  forallb (fun fd => src_ss (f_body fd)) (p_funs p) && src_ss (p_main p).
(* the guard: no construct on which the unchanged implementation is known to deviate (KNOWN_FINDINGS.jsonl:
   chain_eager, assert_msg_eager, aug_assign) *)
Definition ok_prog (H : list string) (p : program) : bool :=
  forallb (fun fd => ok_ss H (f_body fd)) (p_funs p) && ok_ss H (p_main p).

Section Runs.
  Variable D : data.
  Variable analyses : list (analysis (earg (d_val D))).
  Variable modpath : string.

  Definition state := st (d_val D) (d_world D).
  Definition result := (res (d_val D) unit * state)%type.

  Definition run_with (funs : list fundef) (fuel : nat) (wrapped : bool) (main : stmts) : state -> result :=
    run_module (d_val D) (d_world D) (d_const D) (d_un D) (d_bin D) (d_inplace D) (d_cmp D) (d_truth D) (d_getattr D)
               (d_setattr D) (d_getitem D) (d_setitem D) (d_call D) (d_mklist D) (d_mktuple D) (d_tuple_of_list D)
               (d_iter D) (d_next D) (d_exc_match D) (d_exc D) (d_assertion D) (d_with_cause D) (d_as_exc D)
               (d_is_exception D) (d_as_fun D) (d_mk_fun D) (d_filt_str D) (d_is_int D) (d_line_of D)
               analyses modpath funs fuel wrapped main.

  (* the original program: plain semantics, no wrapper *)
  Definition orig_run (fuel : nat) (p : program) : state -> result :=
    run_with (p_funs p) fuel false (p_main p).

  (* the instrumented program under the model of the runtime; the module is wrapped iff something was rewritten *)
  Definition inst_run (H : list string) (fuel : nat) (p : program) : state -> result :=
    let p' := instr_prog H p in run_with (p_funs p') fuel (has_rt p') (p_main p').

  (* the reference semantics of the SOURCE program under hook selection H *)
  Definition ref_run (H : list string) (fuel : nat) (p : program) : state -> result :=
    rrun_module (d_val D) (d_world D) (d_const D) (d_un D) (d_bin D) (d_inplace D) (d_cmp D) (d_truth D) (d_getattr D)
                (d_setattr D) (d_getitem D) (d_setitem D) (d_call D) (d_mklist D) (d_mktuple D) (d_tuple_of_list D)
                (d_iter D) (d_next D) (d_exc_match D) (d_exc D) (d_assertion D) (d_with_cause D) (d_as_exc D)
                (d_is_exception D) (d_as_fun D) (d_mk_fun D) (d_filt_str D) (d_is_int D) (d_line_of D)
                analyses modpath (p_funs p) H fuel (has_rt (instr_prog H p)) (p_main p).

  Theorem instrumented_is_reference (H : list string) (p : program) (fuel : nat) (s : state) :
    pure_truth D -> unbound_reads_uniform D -> src_prog p = true -> ok_prog H p = true ->
    inst_run H fuel p s = ref_run H fuel p s.
  Proof.
    intros [tr [Hp Hb]] Hu Hs Ho. unfold inst_run, ref_run, run_with. cbv zeta.
    unfold src_prog in Hs. unfold ok_prog in Ho.
    apply andb_true_iff in Hs; destruct Hs as [Hsf Hsm]. apply andb_true_iff in Ho; destruct Ho as [Hof Hom].
    unfold instr_prog. cbn [p_funs p_main].
    apply (refine_module (d_val D) (d_world D) (d_const D) (d_un D) (d_bin D) (d_inplace D) (d_cmp D) (d_truth D) (d_getattr D)
               (d_setattr D) (d_getitem D) (d_setitem D) (d_call D) (d_mklist D) (d_mktuple D) (d_tuple_of_list D)
               (d_iter D) (d_next D) (d_exc_match D) (d_exc D) (d_assertion D) (d_with_cause D) (d_as_exc D)
               (d_is_exception D) (d_as_fun D) (d_mk_fun D) (d_filt_str D) (d_is_int D) (d_line_of D)
               analyses modpath H (p_funs p) tr Hp Hb Hu); try assumption.
    apply forallb_forall. intros fd Hin. unfold fun_ok.
    rewrite forallb_forall in Hsf, Hof. rewrite (Hsf fd Hin), (Hof fd Hin). reflexivity.
  Qed.
End Runs.

(* ================================================================ transparency *)
(* analyses whose hooks return nothing *)
Definition observing_analyses (D : data) (analyses : list (analysis (earg (d_val D)))) : Prop :=
  Forall (observing (earg (d_val D))) analyses.
(* building a list has no program-visible effect and tuple(list) is the tuple of the elements *)
Definition list_building_pure (D : data) : Prop :=
  exists mkl : list (d_val D) -> d_val D,
    (forall l w0, d_mklist D l w0 = (mkl l, w0)) /\ (forall l w0, d_tuple_of_list D (mkl l) w0 = d_mktuple D l w0).
(* the truth of a boolean is that boolean, without effect (implied by pure_truth) *)
Definition bool_truth (D : data) : Prop := forall b w0, d_truth D (d_const D (KBool b)) w0 = (POk b, w0).
(* with the [exception] hook selected, the type of a handler is absent or a (non-local) name (see Py/Sem.v, tk_hs) *)
Definition tk_prog (H : list string) (p : program) : bool :=
  forallb (fun fd => tk_ss H (f_body fd)) (p_funs p) && tk_ss H (p_main p).

Lemma pure_truth_bool D : pure_truth D -> bool_truth D.
Proof. intros [tr [Hp Hb]] b w0. rewrite Hp, Hb. reflexivity. Qed.

Section Transparency.
  Variable D : data.
  Variable analyses : list (analysis (earg (d_val D))).
  Variable modpath : string.

  (* outcome, world, globals, frames, handled exceptions: everything but the engine state *)
  Definition visible (x : result D) :=
    (fst x, w (snd x), genv (snd x), frames (snd x), excs (snd x)).

  Lemma rres_eq_eq (r1 r2 : res (d_val D) unit) : rres (d_val D) eq r1 r2 -> r1 = r2.
  Proof. destruct r1, r2; cbn; intros Hr; try contradiction; try reflexivity; congruence. Qed.

  Theorem reference_is_transparent (H : list string) (p : program) (fuel : nat) (s : state D) :
    observing_analyses D analyses -> list_building_pure D -> bool_truth D ->
    src_prog p = true -> tk_prog H p = true ->
    visible (ref_run D analyses modpath H fuel p s) = visible (orig_run D analyses modpath fuel p s).
  Proof.
    intros Hobs [mkl [Hl Ht]] Hb Hs Hk.
    unfold src_prog in Hs. unfold tk_prog in Hk.
    apply andb_true_iff in Hs; destruct Hs as [Hsf Hsm]. apply andb_true_iff in Hk; destruct Hk as [Hkf Hkm].
    assert (Hf : forallb (fun_tk H) (p_funs p) = true).
    { apply forallb_forall. intros fd Hin. unfold fun_tk. rewrite forallb_forall in Hsf, Hkf. rewrite (Hsf fd Hin), (Hkf fd Hin). reflexivity. }
    assert (T : sim (d_val D) (d_world D) eq (ref_run D analyses modpath H fuel p) (orig_run D analyses modpath fuel p)).
    { exact (transp_module (d_val D) (d_world D) (d_const D) (d_un D) (d_bin D) (d_inplace D) (d_cmp D) (d_truth D) (d_getattr D)
               (d_setattr D) (d_getitem D) (d_setitem D) (d_call D) (d_mklist D) (d_mktuple D) (d_tuple_of_list D)
               (d_iter D) (d_next D) (d_exc_match D) (d_exc D) (d_assertion D) (d_with_cause D) (d_as_exc D)
               (d_is_exception D) (d_as_fun D) (d_mk_fun D) (d_filt_str D) (d_is_int D) (d_line_of D)
               analyses modpath H (p_funs p) Hobs mkl Hl Ht Hb Hf fuel (has_rt (instr_prog H p)) (p_main p) Hsm Hkm). }
    specialize (T s s (conj eq_refl (conj eq_refl (conj eq_refl eq_refl)))). destruct T as [Tr [Tw [Tg [Tf Te]]]].
    apply rres_eq_eq in Tr. unfold visible. repeat (apply f_equal2; [|assumption]). exact Tr.
  Qed.

  (* execution transparency of the instrumented program *)
  Theorem instrumented_is_transparent (H : list string) (p : program) (fuel : nat) (s : state D) :
    observing_analyses D analyses -> pure_truth D -> unbound_reads_uniform D -> list_building_pure D ->
    src_prog p = true -> ok_prog H p = true -> tk_prog H p = true ->
    visible (inst_run D analyses modpath H fuel p s) = visible (orig_run D analyses modpath fuel p s).
  Proof.
    intros Hobs Hp Hu Hl Hs Ho Hk.
    rewrite (instrumented_is_reference D analyses modpath H p fuel s Hp Hu Hs Ho).
    apply reference_is_transparent; try assumption. apply pure_truth_bool; exact Hp.
  Qed.
End Transparency.

(* ================================================================ what a hook receives does not depend on the other hooks *)
(* with different selections on the exception hook, the type of a handler is absent or a (non-local) name (Py/Sem.v, g8_hs) *)
Definition g8_prog (H1 H2 : list string) (p : program) : bool :=
  forallb (fun fd => g8_ss H1 H2 (f_body fd)) (p_funs p) && g8_ss H1 H2 (p_main p).
(* h is the hook of a construct: neither a generic name nor an execution-level hook *)
Definition construct_hook (h : string) : bool := negb (mem_str h generic_names).

Section HookIndependence.
  Variable D : data.
  Variable analyses : list (analysis (earg (d_val D))).
  Variable modpath : string.

  (* what the analyses implementing h were told through h: (analysis index, hook, arguments) in order *)
  Definition deliveries_to (h : string) (x : result D) : list (delivery (earg (d_val D))) :=
    filter (fun d => String.eqb (d_hook d) h) (dels (eng (snd x))).

  Theorem reference_hook_independent (H1 H2 : list string) (h : string) (p : program) (fuel : nat) (s : state D) :
    observing_analyses D analyses -> list_building_pure D -> bool_truth D ->
    construct_hook h = true -> mem_str h H1 = true -> mem_str h H2 = true ->
    src_prog p = true -> g8_prog H1 H2 p = true ->
    deliveries_to h (ref_run D analyses modpath H1 fuel p s) = deliveries_to h (ref_run D analyses modpath H2 fuel p s)
    /\ visible D (ref_run D analyses modpath H1 fuel p s) = visible D (ref_run D analyses modpath H2 fuel p s).
  Proof.
    intros Hobs [mkl [Hl Ht]] Hb Hh Hin1 Hin2 Hs Hk.
    unfold construct_hook in Hh. apply negb_true_iff in Hh.
    unfold src_prog in Hs. unfold g8_prog in Hk.
    apply andb_true_iff in Hs; destruct Hs as [Hsf Hsm]. apply andb_true_iff in Hk; destruct Hk as [Hkf Hkm].
    assert (Hf : forallb (fun_g8 H1 H2) (p_funs p) = true).
    { apply forallb_forall. intros fd Hin. unfold fun_g8. rewrite forallb_forall in Hsf, Hkf. rewrite (Hsf fd Hin), (Hkf fd Hin). reflexivity. }
    assert (T : sim2 (d_val D) (d_world D) h eq (ref_run D analyses modpath H1 fuel p) (ref_run D analyses modpath H2 fuel p)).
    { unfold ref_run. eapply hi_module; eauto. }
    specialize (T s s (conj (conj eq_refl (conj eq_refl (conj eq_refl eq_refl))) eq_refl)).
    destruct T as [Tr [[Tw [Tg [Tf Te]]] Tp]]. apply rres_eq_eq in Tr. split.
    - exact Tp.
    - unfold visible. repeat (apply f_equal2; [|assumption]). exact Tr.
  Qed.

  (* the same for the instrumented program, through the refinement theorem *)
  Theorem instrumented_hook_independent (H1 H2 : list string) (h : string) (p : program) (fuel : nat) (s : state D) :
    observing_analyses D analyses -> pure_truth D -> unbound_reads_uniform D -> list_building_pure D ->
    construct_hook h = true -> mem_str h H1 = true -> mem_str h H2 = true ->
    src_prog p = true -> ok_prog H1 p = true -> ok_prog H2 p = true -> g8_prog H1 H2 p = true ->
    deliveries_to h (inst_run D analyses modpath H1 fuel p s) = deliveries_to h (inst_run D analyses modpath H2 fuel p s).
  Proof.
    intros Hobs Hp Hu Hl Hh Hin1 Hin2 Hs Ho1 Ho2 Hk.
    rewrite (instrumented_is_reference D analyses modpath H1 p fuel s Hp Hu Hs Ho1).
    rewrite (instrumented_is_reference D analyses modpath H2 p fuel s Hp Hu Hs Ho2).
    apply reference_hook_independent; try assumption. apply pure_truth_bool; exact Hp.
  Qed.
End HookIndependence.
