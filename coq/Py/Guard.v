(* Py/Guard.v -- decidable guard clauses: the syntactic situations in which the unchanged implementation is
   known to deviate from the reference semantics.  Each clause is one entry of KNOWN_FINDINGS.jsonl; the
   refinement theorem is proved for programs on which every clause holds. *)
From Coq Require Import String List ZArith Bool Arith.
From DV Require Import Base.Util Hooks.Names Py.Syntax Py.Ops Py.Sem Py.Instr.
Import ListNotations.
Open Scope string_scope.
Open Scope list_scope.

Section Guard.
  Variable H : list string.
  Notation sel := (sel H).

  Fixpoint cmps_len (r : cmps) : nat := match r with Cnil => 0 | Ccons _ _ x => S (cmps_len x) end.

  (* does instrumentation touch the evaluation of this test expression or its consumer? *)
  Definition test_hooks (consumer : list string) : bool :=
    existsb sel consumer || sel "_and" || sel "_or" || sel "_not" || sel "enter_if" || sel "exit_if".

  (* clause flags collected over an expression: (comparison chain eagerly evaluated, jump-context boolean re-tested) *)
  Fixpoint ge (e : expr) : bool * bool :=
    let both (a b : bool * bool) := (fst a || fst b, snd a || snd b) in
    match e with
    | EConst _ _ | EName _ _ _ => (false, false)
    | EUn _ o a => both (ge a) (false, match o with UNot => jumpy a && test_hooks [] | _ => false end)
    | EBin _ _ a b | EBool _ _ a b => both (ge a) (ge b)
    | ECmp _ a r => both (ge a) (both (gc r) (Nat.leb 2 (cmps_len r) && any_cmp_sel H r, false))
    | EIfExp _ c a b => both (ge c) (both (ge a) (both (ge b) (false, jumpy c && test_hooks [])))
    | EAttr _ a _ => ge a
    | ESub _ a i => both (ge a) (ge i)
    | ECall _ f args => both (ge f) (ges args)
    | EList _ es | ETuple _ es => ges es
    | _ => (false, false)
    end
  with ges (es : exprs) : bool * bool :=
    match es with Enil => (false, false) | Econs e r => let a := ge e in let b := ges r in (fst a || fst b, snd a || snd b) end
  with gc (r : cmps) : bool * bool :=
    match r with Cnil => (false, false) | Ccons _ e x => let a := ge e in let b := gc x in (fst a || fst b, snd a || snd b) end.

  Definition goe (o : option expr) : bool * bool := match o with Some e => ge e | None => (false, false) end.
  Definition gt (t : target) : bool * bool :=
    match t with TName _ => (false, false) | TAttr _ e _ => ge e
               | TSub _ e i => let a := ge e in let b := ge i in (fst a || fst b, snd a || snd b) end.

  (* clause vector: chain, jump_retest, assert_msg, aug *)
  Record flags := { f_chain : bool; f_jump : bool; f_assert_msg : bool; f_aug : bool }.
  Definition f0 : flags := {| f_chain := false; f_jump := false; f_assert_msg := false; f_aug := false |}.
  Definition fe (x : bool * bool) : flags := {| f_chain := fst x; f_jump := snd x; f_assert_msg := false; f_aug := false |}.
  Definition fo (a b : flags) : flags :=
    {| f_chain := f_chain a || f_chain b; f_jump := f_jump a || f_jump b;
       f_assert_msg := f_assert_msg a || f_assert_msg b; f_aug := f_aug a || f_aug b |}.

  Fixpoint gs (s : stmt) : flags :=
    match s with
    | SExpr e => fe (ge e)
    | SAssign _ ts e => fold_left (fun a t => fo a (fe (gt t))) ts (fe (ge e))
    | SAug _ t o e =>
      fo (fe (gt t)) (fo (fe (ge e))
         {| f_chain := false; f_jump := false; f_assert_msg := false; f_aug := sel "write" || sel (snake (binop_cls o ++ "Assign")) |})
    | SIf _ c b o =>
      fo (fe (ge c)) (fo (gss b) (fo (gss o)
         {| f_chain := false; f_jump := jumpy c && test_hooks ["enter_if"]; f_assert_msg := false; f_aug := false |}))
    | SWhile _ c b o =>
      fo (fe (ge c)) (fo (gss b) (fo (gss o)
         {| f_chain := false; f_jump := jumpy c && test_hooks ["enter_while"]; f_assert_msg := false; f_aug := false |}))
    | SFor _ _ it b o => fo (fe (ge it)) (fo (gss b) (gss o))
    | SBreak _ | SContinue _ | SPass | SDef _ _ _ => f0
    | SAssert _ c m =>
      fo (fe (ge c)) (fo (fe (goe m))
         {| f_chain := false; f_jump := jumpy c && test_hooks ["_assert"];
            f_assert_msg := sel "_assert" && match m with Some _ => true | None => false end; f_aug := false |})
    | SRaise _ e c => fo (fe (goe e)) (fe (goe c))
    | STry _ b hs o f => fo (gss b) (fo (ghs hs) (fo (gss o) (gss f)))
    | SReturn _ e => fe (goe e)
    end
  with gss (ss : stmts) : flags := match ss with Snil => f0 | Scons s r => fo (gs s) (gss r) end
  with ghs (hs : handlers) : flags :=
    match hs with Hnil => f0 | Hcons ty _ b r => fo (fe (goe ty)) (fo (gss b) (ghs r)) end.

  Definition gprog (p : program) : flags := fold_left (fun a f => fo a (gss (f_body f))) (p_funs p) (gss (p_main p)).

  (* failing clauses, by the id used in KNOWN_FINDINGS.jsonl *)
  Definition failing_clauses (p : program) : list string :=
    let f := gprog p in
    (if f_chain f then ["chain_eager"] else []) ++ (if f_jump f then ["truth_retest"] else [])
    ++ (if f_assert_msg f then ["assert_msg_eager"] else []) ++ (if f_aug f then ["aug_assign"] else []).

  Definition guard (p : program) : bool := match failing_clauses p with [] => true | _ => false end.
End Guard.
