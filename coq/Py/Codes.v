(* Py/Codes.v -- the operator names and codes used by the MiniPy models of the instrumenter and of the runtime
   are the ones of the CURRENT source (regenerated tables Gen.OpTables, Gen.Dispatch). *)
From Coq Require Import String List ZArith Bool Arith.
From DV Require Import Base.Util Hooks.Names Hooks.Tables Py.Syntax Py.Ops Py.Sem Gen.OpTables Gen.Dispatch.
Import ListNotations.
Open Scope string_scope.
Open Scope list_scope.

Definition ins_row (cls : string) : option (string * Z) :=
  match alookup cls ins_ops with Some (_, (_, (entry, (code, _)))) => Some (entry, code) | None => None end.

Definition code_ok (cls entry : string) (code : Z) : bool :=
  match ins_row cls with Some (e, c) => String.eqb e entry && Z.eqb c code | None => false end.

(* the hook the runtime dispatches last for (entry, code) is the snake name of the class *)
Definition leaf_ok (cls entry : string) (code : Z) : bool :=
  match rt_lookup entry code rt_ops with
  | Some (_, disp) => match last_opt disp with Some (h, _) => String.eqb h (snake cls) | None => false end
  | None => false
  end.

Definition codes_ok : bool :=
  forallb (fun o => code_ok (unop_cls o) "_unary_op_" (unop_code o) && leaf_ok (unop_cls o) "_unary_op_" (unop_code o)) all_unops
  && forallb (fun o => code_ok (binop_cls o) "_binary_op_" (binop_code o) && leaf_ok (binop_cls o) "_binary_op_" (binop_code o)) all_binops
  && forallb (fun o => code_ok (boolop_cls o) "_binary_op_" (boolop_code o) && leaf_ok (boolop_cls o) "_binary_op_" (boolop_code o)) all_boolops
  && forallb (fun o => code_ok (cmpop_cls o) "_comp_op_" (cmpop_code o) && leaf_ok (cmpop_cls o) "_comp_op_" (cmpop_code o)) all_cmpops
  && forallb (fun o => code_ok (binop_cls o ++ "Assign") "_aug_assign_" (binop_code o)
                       && leaf_ok (binop_cls o ++ "Assign") "_aug_assign_" (binop_code o)) all_binops.

Lemma codes_ok_true : codes_ok = true.
Proof. vm_compute. reflexivity. Qed.

(* the sequences of hooks the entry-point models deliver are the sequences observed on the real entry points
   (Gen.Dispatch: one probe per entry point and mode): hook names in order *)
Definition disp_names (ep mode : string) : list string :=
  match find (fun r => String.eqb (fst (fst r)) ep && String.eqb (snd (fst r)) mode) dispatch with
  | Some r => map fst (snd r)
  | None => ["<missing>"]
  end.

Definition seq_eqb (a b : list string) : bool :=
  Nat.eqb (length a) (length b) && forallb (fun p => String.eqb (fst p) (snd p)) (combine a b).

Definition dispatch_model_ok : bool :=
  seq_eqb (disp_names "_write_" "") ["runtime_event"; "memory_access"; "write"]
  && seq_eqb (disp_names "_binary_op_" "arith") ["runtime_event"; "operation"; "binary_operation"; "add"]
  && seq_eqb (disp_names "_binary_op_" "and_short") ["runtime_event"; "operation"; "binary_operation"; "_and"]
  && seq_eqb (disp_names "_binary_op_" "or_long") ["runtime_event"; "operation"; "binary_operation"; "_or"]
  && seq_eqb (disp_names "_unary_op_" "") ["runtime_event"; "operation"; "unary_operation"; "minus"]
  && seq_eqb (disp_names "_comp_op_" "one") ["runtime_event"; "operation"; "comparison"; "equal"]
  && seq_eqb (disp_names "_comp_op_" "two") ["runtime_event"; "operation"; "comparison"; "less_than"; "operation"; "comparison"; "less_than"]
  && seq_eqb (disp_names "_call_" "full") ["runtime_event"; "control_flow_event"; "pre_call"; "post_call"]
  && seq_eqb (disp_names "_int_" "") ["runtime_event"; "literal"; "integer"]
  && seq_eqb (disp_names "_bool_" "") ["runtime_event"; "literal"; "boolean"]
  && seq_eqb (disp_names "_str_" "") ["runtime_event"; "literal"; "string"]
  && seq_eqb (disp_names "_float_" "") ["runtime_event"; "literal"; "_float"]
  && seq_eqb (disp_names "_none_" "") ["runtime_event"; "literal"; "none"]
  && seq_eqb (disp_names "_list_" "") ["runtime_event"; "literal"; "_list"]
  && seq_eqb (disp_names "_tuple_" "") ["runtime_event"; "literal"; "_tuple"]
  && seq_eqb (disp_names "_attr_" "") ["runtime_event"; "memory_access"; "read"; "read_attribute"]
  && seq_eqb (disp_names "_sub_" "") ["runtime_event"; "memory_access"; "read"; "read_subscript"]
  && seq_eqb (disp_names "_read_" "") ["runtime_event"; "memory_access"; "read"; "read_identifier"]
  && seq_eqb (disp_names "_try_" "") ["runtime_event"; "control_flow_event"; "enter_try"]
  && seq_eqb (disp_names "_end_try_" "") ["runtime_event"; "control_flow_event"; "clean_exit_try"]
  && seq_eqb (disp_names "_exc_" "") ["runtime_event"; "control_flow_event"; "exception"]
  && seq_eqb (disp_names "_raise_" "exc") ["runtime_event"; "control_flow_event"; "_raise"]
  && seq_eqb (disp_names "_if_expr_" "true") ["runtime_event"; "control_flow_event"; "enter_control_flow"; "enter_if"; "runtime_event"; "control_flow_event"; "exit_control_flow"; "exit_if"]
  && seq_eqb (disp_names "_func_entry_" "") ["runtime_event"; "control_flow_event"; "function_enter"]
  && seq_eqb (disp_names "_func_exit_" "") ["runtime_event"; "control_flow_event"; "function_exit"; "implicit_return"]
  && seq_eqb (disp_names "_return_" "") ["runtime_event"; "control_flow_event"; "function_exit"; "_return"]
  && seq_eqb (disp_names "_assert_" "") ["runtime_event"; "control_flow_event"; "_assert"]
  && seq_eqb (disp_names "_break_" "while") ["runtime_event"; "control_flow_event"; "exit_control_flow"; "exit_while"; "_break"]
  && seq_eqb (disp_names "_break_" "for") ["runtime_event"; "control_flow_event"; "exit_control_flow"; "exit_for"; "_break"]
  && seq_eqb (disp_names "_continue_" "while") ["runtime_event"; "control_flow_event"; "exit_control_flow"; "exit_while"; "_continue"]
  && seq_eqb (disp_names "_enter_if_" "") ["runtime_event"; "control_flow_event"; "enter_control_flow"; "enter_if"]
  && seq_eqb (disp_names "_exit_if_" "") ["runtime_event"; "control_flow_event"; "exit_control_flow"; "exit_if"]
  && seq_eqb (disp_names "_enter_while_" "") ["runtime_event"; "control_flow_event"; "enter_control_flow"; "enter_while"]
  && seq_eqb (disp_names "_exit_while_" "") ["runtime_event"; "control_flow_event"; "exit_control_flow"; "exit_while"; "normal_exit_while"]
  && seq_eqb (disp_names "_enter_for_" "") ["runtime_event"; "control_flow_event"; "enter_control_flow"; "enter_for"]
  && seq_eqb (disp_names "_exit_for_" "") ["runtime_event"; "control_flow_event"; "exit_control_flow"; "exit_for"; "normal_exit_for"]
  && seq_eqb (disp_names "_aug_assign_" "") ["runtime_event"; "operation"; "binary_operation"; "add"; "memory_access"; "write"; "augmented_assignment"; "add_assign"]
  && seq_eqb (disp_names "_catch_" "") ["runtime_event"; "uncaught_exception"; "end_execution"].

Lemma dispatch_model_ok_true : dispatch_model_ok = true.
Proof. vm_compute. reflexivity. Qed.
