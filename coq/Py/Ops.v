(* Py/Ops.v -- operator class names, the integer codes of the two hand-maintained tables, and small syntactic helpers
   shared by the instrumenter model (Py/Instr.v) and the semantics (Py/Sem.v). *)
From Coq Require Import String List ZArith Bool Arith.
From DV Require Import Base.Util Hooks.Names Py.Syntax.
Import ListNotations.
Open Scope string_scope.
Open Scope list_scope.

(* ------------------------------------------------------------------ names and codes shared with the instrumenter *)
Definition unop_cls (o : unop) : string :=
  match o with UInvert => "BitInvert" | UMinus => "Minus" | UNot => "Not" | UPlus => "Plus" end.
Definition binop_cls (o : binop) : string :=
  match o with
  | BAdd => "Add" | BBitAnd => "BitAnd" | BBitOr => "BitOr" | BBitXor => "BitXor" | BDivide => "Divide"
  | BFloorDivide => "FloorDivide" | BLeftShift => "LeftShift" | BMatrixMultiply => "MatrixMultiply"
  | BModulo => "Modulo" | BMultiply => "Multiply" | BPower => "Power" | BRightShift => "RightShift" | BSubtract => "Subtract"
  end.
Definition boolop_cls (o : boolop) : string := match o with BAnd => "And" | BOr => "Or" end.
Definition cmpop_cls (o : cmpop) : string :=
  match o with
  | CEqual => "Equal" | CGreaterThan => "GreaterThan" | CGreaterThanEqual => "GreaterThanEqual" | CIn => "In" | CIs => "Is"
  | CLessThan => "LessThan" | CLessThanEqual => "LessThanEqual" | CNotEqual => "NotEqual" | CIsNot => "IsNot" | CNotIn => "NotIn"
  end.

(* the integer codes of the two hand-maintained tables (CodeInstrumenter.py <-> runtime.py); checked against
   the regenerated Gen.OpTables in Py/Codes.v *)
Definition unop_code (o : unop) : Z := match o with UInvert => 0 | UMinus => 1 | UNot => 2 | UPlus => 3 end.
Definition binop_code (o : binop) : Z :=
  match o with
  | BAdd => 0 | BBitAnd => 1 | BBitOr => 2 | BBitXor => 3 | BDivide => 4 | BFloorDivide => 5 | BLeftShift => 6
  | BMatrixMultiply => 7 | BModulo => 8 | BMultiply => 9 | BPower => 10 | BRightShift => 11 | BSubtract => 12
  end.
Definition boolop_code (o : boolop) : Z := match o with BAnd => 13 | BOr => 14 end.
Definition cmpop_code (o : cmpop) : Z :=
  match o with
  | CEqual => 0 | CGreaterThan => 1 | CGreaterThanEqual => 2 | CIn => 3 | CIs => 4 | CLessThan => 5
  | CLessThanEqual => 6 | CNotEqual => 7 | CIsNot => 8 | CNotIn => 9
  end.

Definition all_unops := [UInvert; UMinus; UNot; UPlus].
Definition all_binops := [BAdd; BBitAnd; BBitOr; BBitXor; BDivide; BFloorDivide; BLeftShift; BMatrixMultiply; BModulo; BMultiply; BPower; BRightShift; BSubtract].
Definition all_boolops := [BAnd; BOr].
Definition all_cmpops := [CEqual; CGreaterThan; CGreaterThanEqual; CIn; CIs; CLessThan; CLessThanEqual; CNotEqual; CIsNot; CNotIn].

Definition decode {A} (code : A -> Z) (all : list A) (z : Z) : option A := find (fun o => Z.eqb (code o) z) all.

(* the expressions CPython compiles into jumps when they stand in a boolean context *)
Definition jumpy (e : expr) : bool :=
  match e with
  | EBool _ _ _ _ => true
  | EUn _ UNot _ => true
  | EIfExp _ _ _ _ => true
  | _ => false
  end.

