(* Hooks/TablesProofs.v -- the finite table checks, evaluated by the kernel on the regenerated tables and
   lifted to quantified statements. *)
From Coq Require Import String List Bool Arith ZArith.
From DV Require Import Base.Util Hooks.Names Hooks.Tree Hooks.Bind Hooks.Tables.
From DV Require Import Gen.Hierarchy Gen.Published Gen.RtSigs Gen.OpTables Gen.Dispatch Gen.Shapes Gen.Gates Gen.Footprint Gen.Missing.
Import ListNotations.
Open Scope string_scope.
Open Scope list_scope.

Lemma translator_complete : missing = [].
Proof. assert (H : nothing_missing = true) by (vm_compute; reflexivity). unfold nothing_missing in H. destruct missing; [reflexivity|discriminate]. Qed.

(* ---- C03 *)
Lemma ops_table_ok_true : ops_table_ok = true.
Proof. vm_compute. reflexivity. Qed.

Lemma op_tables_partial : forall cat cls, In (cat, cls) all_ops ->
  op_ok (negb (mem_str cls sem_deviating)) cat cls = true.
Proof.
  intros cat cls H. pose proof ops_table_ok_true as T. unfold ops_table_ok in T.
  apply andb_true_iff in T. destruct T as [T _]. apply andb_true_iff in T. destruct T as [T _].
  rewrite forallb_forall in T. exact (T (cat, cls) H).
Qed.

Lemma instrumenter_ops_are_language_ops : forall r, In r ins_ops -> In (fst r) (map snd all_ops).
Proof.
  intros r H. pose proof ops_table_ok_true as T. unfold ops_table_ok in T.
  apply andb_true_iff in T. destruct T as [T _]. apply andb_true_iff in T. destruct T as [_ T].
  rewrite forallb_forall in T. apply mem_str_In. exact (T r H).
Qed.

Lemma all_ops_count : length all_ops = 42.
Proof. vm_compute. reflexivity. Qed.

(* ---- C09 *)
Lemma all_live_partial_true : all_live_partial = true.
Proof. vm_compute. reflexivity. Qed.

Lemma live_partial : forall h, In h hook_names -> ~ In h known_dead -> live h = true.
Proof.
  intros h H N. pose proof all_live_partial_true as T. unfold all_live_partial in T.
  rewrite forallb_forall in T. specialize (T h H). apply orb_true_iff in T. destruct T as [T|T]; [|exact T].
  apply mem_str_In in T. contradiction.
Qed.

Lemma hook_names_count : length hook_names = 98.
Proof. vm_compute. reflexivity. Qed.

(* ---- C02 *)
Lemma calls_bind_true : calls_bind = true.
Proof. vm_compute. reflexivity. Qed.

Lemma every_shape_binds : forall c, In c shapes ->
  exists s, lookup_sig (fst c) rt_sigs = Some s /\ binds s (fst (snd c)) (snd (snd c)) = true.
Proof.
  intros c H. pose proof calls_bind_true as T. unfold calls_bind in T. rewrite forallb_forall in T.
  specialize (T c H). unfold shape_binds in T. destruct (lookup_sig (fst c) rt_sigs) as [s|]; [|discriminate].
  exists s. split; [reflexivity|exact T].
Qed.

(* ---- C08 *)
Lemma generic_is_leaves_true : generic_is_leaves = true.
Proof. vm_compute. reflexivity. Qed.

Lemma generic_equals_its_leaves : forall g, In g hook_names -> generic_is_leaves_at g = true.
Proof.
  intros g H. pose proof generic_is_leaves_true as T. unfold generic_is_leaves in T. rewrite forallb_forall in T.
  exact (T g H).
Qed.

Lemma used_are_leaves_true : used_are_leaves = true.
Proof. vm_compute. reflexivity. Qed.

(* ---- C15 *)
Lemma footprint_ok_true : footprint_ok = true.
Proof. vm_compute. reflexivity. Qed.

Lemma entry_points_write_nothing : forall name reads writes calls decos,
  In (name, (reads, (writes, (calls, decos)))) footprint ->
  ~ In name engine_setup -> name <> "call_if_exists" -> writes = [].
Proof.
  intros name reads writes calls decos H N1 N2. pose proof footprint_ok_true as T. unfold footprint_ok in T.
  apply andb_true_iff in T. destruct T as [T _]. rewrite forallb_forall in T. specialize (T _ H). unfold fp_row_ok in T.
  destruct (mem_str name engine_setup) eqn:E; [apply mem_str_In in E; contradiction|].
  destruct (String.eqb_spec name "call_if_exists"); [contradiction|]. destruct writes; [reflexivity|discriminate].
Qed.

Lemma dispatch_writes_only_coverage : forall reads writes calls decos,
  In ("call_if_exists", (reads, (writes, (calls, decos)))) footprint ->
  forall w, In w writes -> In w shared_ok.
Proof.
  intros reads writes calls decos H w Hw. pose proof footprint_ok_true as T. unfold footprint_ok in T.
  apply andb_true_iff in T. destruct T as [T _]. rewrite forallb_forall in T. specialize (T _ H). unfold fp_row_ok in T.
  change (mem_str "call_if_exists" engine_setup) with false in T. cbv iota in T.
  rewrite String.eqb_refl in T. rewrite forallb_forall in T. apply mem_str_In. exact (T w Hw).
Qed.
