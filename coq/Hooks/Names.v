(* Hooks/Names.v -- model of utils/hooks.py: snake, get_name (lines 12-24). *)
From Coq Require Import String Ascii List Bool Arith.
From DV Require Import Base.Util Gen.PyNames.
Import ListNotations.
Open Scope string_scope.
Open Scope list_scope.

Definition is_lower (c : ascii) : bool := let n := nat_of_ascii c in Nat.leb 97 n && Nat.leb n 122.
Definition is_upper (c : ascii) : bool := let n := nat_of_ascii c in Nat.leb 65 n && Nat.leb n 90.
Definition to_lower (c : ascii) : ascii := if is_upper c then ascii_of_nat (nat_of_ascii c + 32) else c.

Definition get_name (s : string) : string :=
  if mem_str s builtins_dir || mem_str s keywords then ("_" ++ s)%string else s.

(* res += x[i]; if lower(x[i]) and upper(x[i+1]): res += "_"  ... ; res += x[-1]; then .lower() *)
Fixpoint snake_raw (x : string) : string :=
  match x with
  | EmptyString => EmptyString      (* Python raises IndexError on "" -- never called with "" *)
  | String c rest =>
    match rest with
    | EmptyString => String (to_lower c) EmptyString
    | String d _ =>
      if is_lower c && is_upper d then String (to_lower c) (String "_"%char (snake_raw rest))
      else String (to_lower c) (snake_raw rest)
    end
  end.

Definition snake (x : string) : string := get_name (snake_raw x).

Example snake_ex1 : snake "FloorDivide" = "floor_divide". Proof. reflexivity. Qed.
Example snake_ex2 : snake "And" = "_and". Proof. reflexivity. Qed.
Example snake_ex3 : snake "IsNot" = "is_not". Proof. reflexivity. Qed.
Example snake_ex4 : snake "AddAssign" = "add_assign". Proof. reflexivity. Qed.
