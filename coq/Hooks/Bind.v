(* Hooks/Bind.v -- does a call shape (number of positional arguments, keyword names) bind to a Python
   signature?  Executable decision procedure for the subset of the binding rules an emitted runtime call
   can exercise (no star-arguments at the call site).  Validated against inspect.Signature.bind by the
   correspondence stream of C02. *)
From Coq Require Import String List Bool Arith.
From DV Require Import Base.Util.
Import ListNotations.
Open Scope list_scope.

(* (name, (kind, has_default)); kind 0 = positional-or-keyword, 1 = *args, 2 = keyword-only, 3 = **kwargs, 4 = positional-only *)
Definition param := (string * (nat * bool))%type.
Definition pname (p : param) := fst p.
Definition pkind (p : param) := fst (snd p).
Definition pdef (p : param) := snd (snd p).

Fixpoint nodup_str (l : list string) : bool :=
  match l with [] => true | x :: r => negb (mem_str x r) && nodup_str r end.

Definition binds (sig : list param) (npos : nat) (kws : list string) : bool :=
  let positional := filter (fun p => Nat.eqb (pkind p) 0 || Nat.eqb (pkind p) 4) sig in
  let has_var := existsb (fun p => Nat.eqb (pkind p) 1) sig in
  let has_kw := existsb (fun p => Nat.eqb (pkind p) 3) sig in
  let kwonly := filter (fun p => Nat.eqb (pkind p) 2) sig in
  let bound_pos := firstn npos positional in
  let rest_pos := skipn npos positional in
  (* too many positional arguments *)
  (Nat.leb npos (length positional) || has_var)
  (* no repeated keyword *)
  && nodup_str kws
  (* every keyword names a not-yet-bound positional-or-keyword parameter or a keyword-only one, or **kwargs takes it *)
  && forallb (fun k =>
       (existsb (fun p => String.eqb (pname p) k && Nat.eqb (pkind p) 0) rest_pos
        || existsb (fun p => String.eqb (pname p) k) kwonly)
       || (has_kw && negb (existsb (fun p => String.eqb (pname p) k && Nat.eqb (pkind p) 0) bound_pos))) kws
  (* every remaining positional parameter has a default or is given by keyword (positional-only cannot be) *)
  && forallb (fun p => pdef p || (Nat.eqb (pkind p) 0 && mem_str (pname p) kws)) rest_pos
  && forallb (fun p => pdef p || mem_str (pname p) kws) kwonly.

Fixpoint lookup_sig (n : string) (t : list (string * list param)) : option (list param) :=
  match t with [] => None | (n', s) :: r => if String.eqb n n' then Some s else lookup_sig n r end.

Definition shape_binds (t : list (string * list param)) (c : string * (nat * list string)) : bool :=
  match lookup_sig (fst c) t with
  | Some s => binds s (fst (snd c)) (snd (snd c))
  | None => false
  end.
