(* Hooks/Tree.v -- model of utils/hooks.py: all_leaves, get_used_leaves over the hook hierarchy. *)
From Coq Require Import String List Bool Arith.
From DV Require Import Base.Util Gen.Hierarchy.
Import ListNotations.
Open Scope string_scope.
Open Scope list_scope.

Definition tname (t : tree) : string := match t with Node n _ => n end.
Definition tchildren (t : tree) : list tree := match t with Node _ c => c end.

(* every name occurring in a forest, pre-order *)
Fixpoint names_t (t : tree) : list string :=
  match t with Node n ch => n :: (fix go (l : list tree) := match l with [] => [] | c :: r => names_t c ++ go r end) ch end.
Definition names_f (f : list tree) : list string := flat_map names_t f.

(* leaves of a forest in left-to-right order.  Python's all_leaves pops from a stack and therefore
   returns them in a different order; the order is only used to update a dict with ONE value, so it is
   irrelevant and the model uses the simple order. *)
Fixpoint leaves_t (t : tree) : list string :=
  match t with
  | Node n [] => [n]
  | Node n ch => (fix go (l : list tree) := match l with [] => [] | c :: r => leaves_t c ++ go r end) ch
  end.
Definition leaves_f (f : list tree) : list string := flat_map leaves_t f.

Section Used.
  Context {D : Type}.
  Variable methods : string -> option D.

  Definition upd_all (ks : list string) (d : D) (m : list (string * D)) : list (string * D) :=
    fold_left (fun acc k => aupdate k d acc) ks m.

  (* get_used_leaves, accumulating into the result dict (res.update(...) in source order) *)
  Fixpoint used_t (t : tree) (acc : list (string * D)) : list (string * D) :=
    match t with
    | Node n ch =>
      match methods n with
      | Some d =>
        match ch with
        | [] => aupdate n d acc
        | _ => upd_all ((fix go (l : list tree) := match l with [] => [] | c :: r => leaves_t c ++ go r end) ch) d acc
        end
      | None => (fix go (l : list tree) (a : list (string * D)) := match l with [] => a | c :: r => go r (used_t c a) end) ch acc
      end
    end.
  Definition used_f (f : list tree) : list (string * D) :=
    fold_left (fun a t => used_t t a) f [].
End Used.

Definition all_names : list string := names_f hierarchy.
Definition all_leaves : list string := leaves_f hierarchy.

Fixpoint dedup (l : list string) : list string :=
  match l with [] => [] | x :: r => if mem_str x r then dedup r else x :: dedup r end.

(* leaves under the node(s) called g *)
Fixpoint under_t (g : string) (t : tree) : list string :=
  match t with
  | Node n ch =>
    if String.eqb n g then leaves_t t
    else (fix go (l : list tree) := match l with [] => [] | c :: r => under_t g c ++ go r end) ch
  end.
Definition leaves_under (g : string) : list string := flat_map (under_t g) hierarchy.

Definition single (g : string) (d : nat) : string -> option nat := fun h => if String.eqb h g then Some d else None.
Definition many (gs : list string) (d : nat) : string -> option nat := fun h => if mem_str h gs then Some d else None.

(* map equality on the finite key set all_names *)
Definition same_map (m1 m2 : list (string * nat)) : bool :=
  forallb (fun k => match alookup k m1, alookup k m2 with
                    | Some a, Some b => Nat.eqb a b | None, None => true | _, _ => false end) all_names
  && forallb (fun kv => mem_str (fst kv) all_names) m1
  && forallb (fun kv => mem_str (fst kv) all_names) m2.
