(* Hooks/Tables.v -- decidable checks over the tables regenerated from the source (coq/Gen/*.v).
   Every check is a closed boolean computation: the theorems in Properties/ evaluate them with
   vm_compute on the CURRENT tables and lift them with forallb_forall. *)
From Coq Require Import String List Bool Arith ZArith.
From DV Require Import Base.Util Hooks.Names Hooks.Tree Hooks.Bind.
From DV Require Import Gen.Hierarchy Gen.Published Gen.RtSigs Gen.OpTables Gen.Dispatch Gen.Shapes Gen.Gates Gen.Footprint Gen.Missing.
Import ListNotations.
Open Scope string_scope.
Open Scope list_scope.

(* ---------------------------------------------------------------- lookups *)
Definition published_arity (h : string) : option nat :=
  match alookup h published with Some (n, _) => Some n | None => None end.

Fixpoint rt_lookup (e : string) (c : Z) (t : list (string * (Z * (string * list (string * nat)))))
  : option (string * list (string * nat)) :=
  match t with
  | [] => None
  | (e', (c', v)) :: r => if String.eqb e e' && Z.eqb c c' then Some v else rt_lookup e c r
  end.

(* ---------------------------------------------------------------- C03: operator tables *)
(* The language's meaning of each libcst operator class, in the vocabulary of the runtime probe of
   tools/extract.py: "<dunder>=>R:<dunder>" = that dunder was called once on the operands and its result
   returned; "bool:x" = truth test of operand x; "=>S:l"/"=>S:r" = the left/right operand itself returned;
   for and/or the probe is run with a truthy and a falsy left operand ("|"-separated). *)
Definition expected_exec (cls : string) : string :=
  match cls with
  | "Add" => "add=>R:add" | "BitAnd" => "and=>R:and" | "BitOr" => "or=>R:or" | "BitXor" => "xor=>R:xor"
  | "Divide" => "truediv=>R:truediv" | "FloorDivide" => "floordiv=>R:floordiv" | "LeftShift" => "lshift=>R:lshift"
  | "MatrixMultiply" => "matmul=>R:matmul" | "Modulo" => "mod=>R:mod" | "Multiply" => "mul=>R:mul"
  | "Power" => "pow=>R:pow" | "RightShift" => "rshift=>R:rshift" | "Subtract" => "sub=>R:sub"
  | "And" => "bool:l=>S:r|bool:l=>S:l"
  | "Or" => "bool:l=>S:l|bool:l=>S:r"
  | "BitInvert" => "invert=>R:invert" | "Minus" => "neg=>R:neg" | "Not" => "bool:r=>False" | "Plus" => "pos=>R:pos"
  | "Equal" => "eq=>R:eq" | "GreaterThan" => "gt=>R:gt" | "GreaterThanEqual" => "ge=>R:ge"
  | "In" => "contains=>True" | "Is" => "is" | "LessThan" => "lt=>R:lt" | "LessThanEqual" => "le=>R:le"
  | "NotEqual" => "ne=>R:ne" | "IsNot" => "isnot" | "NotIn" => "contains=>False"
  (* augmented assignment: the runtime computes the plain operator for the event payload and returns the
     right operand; the in-place operator itself is executed by the residual statement *)
  | "AddAssign" => "add=>S:r" | "BitAndAssign" => "and=>S:r" | "BitOrAssign" => "or=>S:r" | "BitXorAssign" => "xor=>S:r"
  | "DivideAssign" => "truediv=>S:r" | "FloorDivideAssign" => "floordiv=>S:r" | "LeftShiftAssign" => "lshift=>S:r"
  | "MatrixMultiplyAssign" => "matmul=>S:r" | "ModuloAssign" => "mod=>S:r" | "MultiplyAssign" => "mul=>S:r"
  | "PowerAssign" => "pow=>S:r" | "RightShiftAssign" => "rshift=>S:r" | "SubtractAssign" => "sub=>S:r"
  | _ => "?"
  end.

(* the operator classes of the language, per category (the bound of the exhaustive theorem) *)
Definition language_ops : list (string * list string) :=
  [ ("binary", ["Add"; "BitAnd"; "BitOr"; "BitXor"; "Divide"; "FloorDivide"; "LeftShift"; "MatrixMultiply"; "Modulo"; "Multiply"; "Power"; "RightShift"; "Subtract"]);
    ("boolean", ["And"; "Or"]);
    ("unary", ["BitInvert"; "Minus"; "Not"; "Plus"]);
    ("comparison", ["Equal"; "GreaterThan"; "GreaterThanEqual"; "In"; "Is"; "IsNot"; "LessThan"; "LessThanEqual"; "NotEqual"; "NotIn"]);
    ("augmented", ["AddAssign"; "BitAndAssign"; "BitOrAssign"; "BitXorAssign"; "DivideAssign"; "FloorDivideAssign"; "LeftShiftAssign"; "MatrixMultiplyAssign"; "ModuloAssign"; "MultiplyAssign"; "PowerAssign"; "RightShiftAssign"; "SubtractAssign"]) ].

Definition last_opt {A} (l : list A) : option A := match rev l with x :: _ => Some x | [] => None end.

(* names and arities agree with the published catalogue; the leaf hook is the last delivery *)
Definition names_ok (cls : string) (disp : list (string * nat)) : bool :=
  let leaf := snake cls in
  mem_str leaf all_leaves
  && forallb (fun d => mem_str (fst d) all_names &&
                       match published_arity (fst d) with Some n => Nat.eqb n (snd d) | None => false end) disp
  && match last_opt disp with Some (h, _) => String.eqb h leaf | None => false end.

Definition row_of (cls : string) := alookup cls ins_ops.

(* full check of one operator class: emitted (entry, code) is understood by the runtime as the SAME operator *)
Definition op_ok (semantic : bool) (cat cls : string) : bool :=
  match row_of cls with
  | None => false
  | Some (cat', (_tok, (entry, (code, gates)))) =>
    String.eqb cat cat'
    && mem_str (snake cls) gates
    && match rt_lookup entry code rt_ops with
       | None => false
       | Some (exec, disp) => (negb semantic || String.eqb exec (expected_exec cls)) && names_ok cls disp
       end
  end.

Definition all_ops : list (string * string) :=
  flat_map (fun c => map (fun cls => (fst c, cls)) (snd c)) language_ops.

(* operators for which the executed semantics deviates (none since fix 25c1989; kept for the statement's shape) *)
Definition sem_deviating : list string := [].

Definition ops_table_ok : bool :=
  forallb (fun p => op_ok (negb (mem_str (snd p) sem_deviating)) (fst p) (snd p)) all_ops
  (* the instrumenter knows no operator class outside the language list, and vice versa *)
  && forallb (fun r => mem_str (fst r) (map snd all_ops)) ins_ops
  && Nat.eqb (length ins_ops) (length all_ops).

Definition ops_table_ok_full : bool := forallb (fun p => op_ok true (fst p) (snd p)) all_ops.

(* ---------------------------------------------------------------- C09: liveness of every published name *)
Definition exec_level : list string := ["begin_execution"; "end_execution"; "uncaught_exception"].

Definition delivers (h : string) (need_loc : bool) (row : (string * string) * list (string * (nat * (string * string)))) : bool :=
  existsb (fun d =>
    String.eqb (fst d) h
    && match published_arity h with Some n => Nat.eqb n (fst (snd d)) | None => false end
    && (negb need_loc || (String.eqb (fst (snd (snd d))) "str" && String.eqb (snd (snd (snd d))) "int"))) (snd row).

(* h is live: selecting only some leaf below h makes the instrumenter emit an entry point that delivers h,
   under the published arity, with (str path, int id) first *)
Definition live (h : string) : bool :=
  if mem_str h exec_level then
    existsb (fun row => (String.eqb (fst (fst row)) "<lifecycle>" || String.eqb (fst (fst row)) "_catch_") && delivers h false row) dispatch
  else
    existsb (fun leaf =>
      match alookup leaf gates with
      | None => false
      | Some eps =>
        existsb (fun row => mem_str (fst (fst row)) eps && delivers h true row) dispatch
        || (* operator hooks: one row per operator code in the exhaustive runtime-side operator table; the
              argument types of an operator entry point are those of its row in [dispatch] *)
           existsb (fun row =>
             let '(entry, (_code, (_exec, disp))) := row in
             mem_str entry eps
             && existsb (fun d => String.eqb (fst d) h
                                  && match published_arity h with Some n => Nat.eqb n (snd d) | None => false end) disp
             && existsb (fun drow => String.eqb (fst (fst drow)) entry
                                     && forallb (fun d => String.eqb (fst (snd (snd d))) "str" && String.eqb (snd (snd (snd d))) "int") (snd drow)) dispatch) rt_ops
      end) (leaves_under h).

(* names that are NOT live (none since the fix: commits of DESIGN 12 #13, #14; the list is kept so that the
   statement below stays the same shape) *)
Definition known_dead : list string := [].

Definition hook_names : list string := dedup all_names.
Definition all_live_partial : bool := forallb (fun h => mem_str h known_dead || live h) hook_names.
Definition all_live_full : bool := forallb live hook_names.

(* ---------------------------------------------------------------- C02: every emitted call binds *)
Definition calls_bind : bool := forallb (shape_binds rt_sigs) shapes.

(* ---------------------------------------------------------------- C08: generic = its leaves *)
Definition generic_is_leaves_at (g : string) : bool :=
  same_map (used_f (single g 1) hierarchy) (used_f (many (leaves_under g) 1) hierarchy).
Definition generic_is_leaves : bool := forallb generic_is_leaves_at hook_names.

(* every used leaf is a leaf of the hierarchy *)
Definition used_are_leaves : bool :=
  forallb (fun g => forallb (fun kv => mem_str (fst kv) all_leaves) (used_f (single g 1) hierarchy)) hook_names.

(* ---------------------------------------------------------------- C15: footprint of the runtime methods *)
Definition engine_setup : list string := ["__new__"; "__init__"; "__del__"; "end_execution"; "set_analysis"; "set_coverage"].
Definition shared_ok : list string := ["covered"; "current_file"].

Definition fp_row_ok (r : string * (list string * (list string * (list string * list string)))) : bool :=
  let '(name, (_reads, (writes, (_calls, _decos)))) := r in
  if mem_str name engine_setup then true
  else if String.eqb name "call_if_exists" then forallb (fun w => mem_str w shared_ok) writes
  else match writes with [] => true | _ => false end.

Definition footprint_ok : bool :=
  forallb fp_row_ok footprint
  (* fail-closed conditions of the static walk; delattr(base, offset) in _delete_ acts on a program object *)
  && forallb (fun p => String.eqb p "_delete_: delattr()") footprint_problems.

(* ---------------------------------------------------------------- the translator extracted everything *)
Definition nothing_missing : bool := match missing with [] => true | _ => false end.
