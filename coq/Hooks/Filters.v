(* Hooks/Filters.v -- model of instrument/filters.py (docstring protocol) and RuntimeEngine.filtered. *)
From Coq Require Import String Ascii List Bool Arith.
From DV Require Import Base.Util Gen.Consts.
Import ListNotations.
Open Scope string_scope.
Open Scope list_scope.

Inductive fkind := FOnly | FIgnore | FOther.
Record block := { bk : fkind; bpats : list string }.

(* what @only(patterns) / @ignore(patterns) append to the docstring (filters.py:9-35) *)
Definition render_block (b : block) : string :=
  match bk b with
  | FOnly => (flt_start ++ " only -> " ++ sjoin flt_sep (bpats b) ++ " " ++ flt_end)%string
  | FIgnore => (flt_start ++ " ignore -> " ++ sjoin flt_sep (bpats b) ++ " " ++ flt_end)%string
  | FOther => ""
  end.
Definition decorate (doc : option string) (b : block) : option string :=
  match bpats b with
  | [] => doc                                   (* len(patterns) > 0 guard *)
  | _ => Some ((match doc with Some d => d | None => "" end) ++ render_block b)%string
  end.

(* parsing as done by the `while START in docs` loop of RuntimeEngine.filtered (runtime.py:91-108).
   Well-formed case only: every START is followed by an END and the block contains " -> ";
   anything else ends the parse with [false] as second component (outside the model). *)
Fixpoint parse_docs (fuel : nat) (docs : string) : list block * bool :=
  match fuel with
  | 0 => ([], true)
  | S f =>
    match sfind flt_start docs with
    | None => ([], true)
    | Some st =>
      match sfind flt_end docs with
      | None => ([], false)
      | Some en =>
        if Nat.ltb en (st + slen flt_start) then ([], false) else
        let fltr := strip (stake (en - (st + slen flt_start)) (sdrop (st + slen flt_start) docs)) in
        match ssplit " -> " fltr with
        | _ :: pats :: _ =>
          let kind := if prefixb "only ->" fltr then FOnly else if prefixb "ignore ->" fltr then FIgnore else FOther in
          let rest := lstrip (sdrop (en + slen flt_end) docs) in
          let '(bs, ok) := parse_docs f rest in
          ({| bk := kind; bpats := ssplit flt_sep pats |} :: bs, ok)
        | _ => ([], false)
        end
      end
    end
  end.

Definition any_in (args pats : list string) : bool := existsb (fun a => mem_str a pats) args.

Fixpoint filtered_b (bs : list block) (args : list string) (rv : bool) : bool :=
  match bs with
  | [] => rv
  | b :: r =>
    match bk b with
    | FOnly => if any_in args (bpats b) then false else filtered_b r args true
    | FIgnore => if any_in args (bpats b) then true else filtered_b r args false
    | FOther => filtered_b r args rv
    end
  end.

Definition filtered (docs : string) (args : list string) : bool :=
  filtered_b (fst (parse_docs (S (slen docs)) docs)) args false.
Definition docs_wf (docs : string) : bool := snd (parse_docs (S (slen docs)) docs).

(* filters.get_details (filters.py:38-56): first block only *)
Definition get_details (doc : option string) : option block :=
  match doc with
  | None => None
  | Some d =>
    match sfind flt_start d, sfind flt_end d with
    | Some st, Some en =>
      let specs := strip (stake (en - (st + slen flt_start)) (sdrop (st + slen flt_start) d)) in
      if prefixb "only ->" specs then
        match ssplit " -> " specs with _ :: p :: _ => Some {| bk := FOnly; bpats := ssplit flt_sep p |} | _ => None end
      else if prefixb "ignore ->" specs then
        match ssplit " -> " specs with _ :: p :: _ => Some {| bk := FIgnore; bpats := ssplit flt_sep p |} | _ => None end
      else None
    | _, _ => None
    end
  end.

(* ---------------------------------------------------------------- theorems on the block semantics *)
Lemma any_in_true args pats : any_in args pats = true <-> exists a, In a args /\ In a pats.
Proof.
  unfold any_in. rewrite existsb_exists. split; intros [a [H1 H2]]; exists a; split; try assumption;
  now apply mem_str_In.
Qed.

Lemma any_in_false args pats : any_in args pats = false <-> forall a, In a args -> ~ In a pats.
Proof.
  split.
  - intros H a Ia Ip. assert (any_in args pats = true) by (apply any_in_true; eauto). congruence.
  - intros H. destruct (any_in args pats) eqn:E; [|reflexivity].
    apply any_in_true in E. destruct E as [a [Ia Ip]]. exfalso. eapply H; eauto.
Qed.

Theorem only_exact pats args p : In p pats -> In p args ->
  filtered_b [ {| bk := FOnly; bpats := pats |} ] args false = false.
Proof. intros Hp Ha. simpl. assert (E : any_in args pats = true) by (apply any_in_true; eauto). now rewrite E. Qed.

Theorem only_unrelated pats args : (forall a, In a args -> ~ In a pats) ->
  filtered_b [ {| bk := FOnly; bpats := pats |} ] args false = true.
Proof. intros H. simpl. apply any_in_false in H. now rewrite H. Qed.

Theorem ignore_exact pats args p : In p pats -> In p args ->
  filtered_b [ {| bk := FIgnore; bpats := pats |} ] args false = true.
Proof. intros Hp Ha. simpl. assert (E : any_in args pats = true) by (apply any_in_true; eauto). now rewrite E. Qed.

Theorem ignore_unrelated pats args : (forall a, In a args -> ~ In a pats) ->
  filtered_b [ {| bk := FIgnore; bpats := pats |} ] args false = false.
Proof. intros H. simpl. apply any_in_false in H. now rewrite H. Qed.

(* round trip of the docstring protocol on concrete instances (vm_compute; the general statement over all
   pattern strings needs "patterns contain neither the separator nor the markers" and is not proved) *)
Example roundtrip_only :
  parse_docs 200 (render_block {| bk := FOnly; bpats := ["foo"; "bar_1"] |})
  = ([ {| bk := FOnly; bpats := ["foo"; "bar_1"] |} ], true).
Proof. vm_compute. reflexivity. Qed.
Example roundtrip_two :
  parse_docs 400 ("some doc " ++ render_block {| bk := FIgnore; bpats := ["1"] |} ++ render_block {| bk := FOnly; bpats := ["a"; "b"] |})%string
  = ([ {| bk := FIgnore; bpats := ["1"] |}; {| bk := FOnly; bpats := ["a"; "b"] |} ], true).
Proof. vm_compute. reflexivity. Qed.
