(* Concrete/Instance.v -- the concrete data semantics (Concrete/CPrims.v) as an instance of [Refine.data]:
   the three executable runs that the correspondence check evaluates (Concrete/Run.v) ARE the runs the
   refinement theorem speaks about, instantiated. *)
From Coq Require Import String List ZArith Bool.
From DV Require Import Engine.Dispatch Py.Syntax Py.Sem Py.Instr Py.Refine Concrete.CVal Concrete.CPrims Concrete.Run.
Import ListNotations.
Open Scope string_scope.

Definition cdata (fn : list string) : data :=
  {| d_val := val; d_world := world;
     d_const := c_const; d_un := c_un; d_bin := c_bin; d_inplace := c_inplace; d_cmp := c_cmp; d_truth := c_truth;
     d_getattr := c_getattr; d_setattr := c_setattr; d_getitem := c_getitem; d_setitem := c_setitem; d_call := c_call;
     d_mklist := c_mklist; d_mktuple := c_mktuple; d_tuple_of_list := c_tuple_of_list; d_iter := c_iter; d_next := c_next;
     d_exc_match := c_exc_match; d_exc := c_exc_new; d_assertion := c_assertion; d_with_cause := c_with_cause;
     d_as_exc := c_as_exc; d_is_exception := c_is_exception;
     d_as_fun := fun v => match v with VClo f => Some f | _ => None end; d_mk_fun := VClo;
     d_filt_str := c_filt fn; d_is_int := c_is_int; d_line_of := c_line_of_e |}.

Lemma run_orig_is_orig_run fuel p :
  run_orig fuel p = observe (fnames_of p) (orig_run (cdata (fnames_of p)) (map mk_pana []) "M" fuel p (st0 (fnames_of p) false)).
Proof. reflexivity. Qed.

Lemma run_inst_is_inst_run fuel H anas cov p :
  run_inst fuel H anas cov p = observe (fnames_of p) (inst_run (cdata (fnames_of p)) (map mk_pana anas) "M" H fuel p (st0 (fnames_of p) cov)).
Proof. reflexivity. Qed.

Lemma run_ref_is_ref_run fuel H anas cov p :
  run_ref fuel H anas cov p = observe (fnames_of p) (ref_run (cdata (fnames_of p)) (map mk_pana anas) "M" H fuel p (st0 (fnames_of p) cov)).
Proof. reflexivity. Qed.

(* the concrete data semantics builds lists without visible effect and tests booleans purely (its truth tests of
   recorder objects are NOT pure: they are logged) *)
Lemma cdata_list_pure fn : list_building_pure (cdata fn).
Proof. exists VList. split; intros; reflexivity. Qed.
Lemma cdata_bool_truth fn : bool_truth (cdata fn).
Proof. intros b w0. reflexivity. Qed.
