(* Concrete/CVal.v -- concrete instance of the engine-level value type and the checkers used by the
   correspondence streams (harness/streams.py writes cases, one vm_compute evaluates them). *)
From Coq Require Import String Ascii List Bool Arith ZArith.
From DV Require Import Base.Util Hooks.Names Hooks.Tree Hooks.Filters Hooks.Bind Engine.Dispatch Engine.Coverage Engine.IIDs Engine.Lifecycle Gen.Hierarchy.
Import ListNotations.
Open Scope string_scope.
Open Scope list_scope.

Inductive cval :=
| CInt (z : Z) | CStr (s : string) | CBool (b : bool) | CFloat (repr : string) | CFunc (name : string)
| CNone | COther (tag : nat).

(* decimal rendering of integers (Python str(int)) *)
Definition digit (n : nat) : ascii := ascii_of_nat (48 + n).
Fixpoint pos2s_aux (fuel : nat) (n : N) (acc : string) : string :=
  match fuel with
  | 0 => acc
  | S f => let d := N.to_nat (N.modulo n 10) in
           let q := N.div n 10 in
           let acc' := String (digit d) acc in
           if N.eqb q 0 then acc' else pos2s_aux f q acc'
  end.
Definition n2s (n : N) : string := pos2s_aux 40 n "".
Definition z2s (z : Z) : string :=
  match z with Z0 => "0" | Zpos p => n2s (Npos p) | Zneg p => ("-" ++ n2s (Npos p))%string end.

Definition c_filt_str (v : cval) : option string :=
  match v with
  | CInt z => Some (z2s z) | CStr s => Some s | CBool true => Some "True" | CBool false => Some "False"
  | CFloat r => Some r | CFunc n => Some n | _ => None
  end.
Definition c_as_path (v : cval) : option string :=
  match v with CStr s => if String.eqb s "" then None else Some s | _ => None end.
Definition c_is_iid (v : cval) : bool := match v with CInt _ => true | CBool _ => true | _ => false end.

Definition cval_eqb (a b : cval) : bool :=
  match a, b with
  | CInt x, CInt y => Z.eqb x y | CStr x, CStr y => String.eqb x y | CBool x, CBool y => Bool.eqb x y
  | CFloat x, CFloat y => String.eqb x y | CFunc x, CFunc y => String.eqb x y | CNone, CNone => true
  | COther x, COther y => Nat.eqb x y | _, _ => false
  end.

(* id map of a file for the coverage line lookup: (path, iid value) -> line *)
Definition linetab := list ((string * Z) * nat).
Fixpoint c_line_of (t : linetab) (p : string) (iid : cval) : nat :=
  match iid with
  | CInt z => match t with
              | [] => 0
              | ((p', z'), n) :: r => if String.eqb p p' && Z.eqb z z' then n else c_line_of r p iid
              end
  | _ => 0
  end.

(* an analysis given as data: class name, methods with docstrings, scripted answers (hook, occurrence k) -> value *)
Record adata := { ad_cls : string; ad_methods : list (string * option string); ad_script : list ((string * nat) * cval) }.

Fixpoint script_get (h : string) (k : nat) (s : list ((string * nat) * cval)) : option cval :=
  match s with [] => None | ((h', k'), v) :: r => if String.eqb h h' && Nat.eqb k k' then Some v else script_get h k r end.

Definition mk_analysis (a : adata) : analysis cval :=
  {| a_cls := ad_cls a;
     a_doc := fun f => alookup f (ad_methods a);
     a_react := fun hist f _ => script_get f (count_occ_b (fun d => String.eqb (d_hook d) f) hist) (ad_script a) |}.

Definition c_call (t : linetab) (l : list adata) :=
  call_if_exists cval c_filt_str c_as_path c_is_iid (c_line_of t) (map mk_analysis l).

(* run a list of events, collecting the return value of every call *)
Fixpoint c_run (t : linetab) (l : list adata) (es : list (string * list cval)) (st : state cval) (rets : list (option cval))
  : list (option cval) * state cval :=
  match es with
  | [] => (rev rets, st)
  | (f, args) :: r => let '(rv, st') := c_call t l f args st in c_run t l r st' (rv :: rets)
  end.

Definition opt_eqb (a b : option cval) : bool :=
  match a, b with Some x, Some y => cval_eqb x y | None, None => true | _, _ => false end.
Fixpoint list_eqb {A} (e : A -> A -> bool) (a b : list A) : bool :=
  match a, b with [] , [] => true | x :: r, y :: s => e x y && list_eqb e r s | _, _ => false end.
Definition del_eqb (a b : nat * (string * list cval)) : bool :=
  Nat.eqb (fst a) (fst b) && String.eqb (fst (snd a)) (fst (snd b)) && list_eqb cval_eqb (snd (snd a)) (snd (snd b)).

(* indices of failing cases *)
Fixpoint failing_aux {A} (ok : A -> bool) (l : list A) (i : nat) : list nat :=
  match l with [] => [] | x :: r => if ok x then failing_aux ok r (S i) else i :: failing_aux ok r (S i) end.
Definition failing {A} (ok : A -> bool) (l : list A) : list nat := failing_aux ok l 0.

(* ---- stream checkers: each case carries the implementation's observed result *)
Definition ok_snake (c : string * (string * string)) : bool :=
  let '(x, (sn, gn)) := c in String.eqb (snake x) sn && String.eqb (get_name x) gn.

(* get_used_leaves: methods given as (name, tag); expected result as list of (leaf, tag) *)
Definition ok_used (c : list (string * nat) * list (string * nat)) : bool :=
  let '(methods, expected) := c in
  let r := used_f (fun h => alookup h methods) hierarchy in
  forallb (fun kv => match alookup (fst kv) r with Some t => Nat.eqb t (snd kv) | None => false end) expected
  && forallb (fun kv => match alookup (fst kv) expected with Some t => Nat.eqb t (snd kv) | None => false end) r.

Definition ok_filtered (c : string * (list string * bool)) : bool :=
  let '(docs, (args, expected)) := c in Bool.eqb (filtered docs args) expected && docs_wf docs.

Definition block_eqb (a b : option block) : bool :=
  match a, b with
  | None, None => true
  | Some x, Some y => (match bk x, bk y with FOnly, FOnly | FIgnore, FIgnore | FOther, FOther => true | _, _ => false end)
                      && list_eqb String.eqb (bpats x) (bpats y)
  | _, _ => false
  end.
Definition ok_details (c : option string * option block) : bool := block_eqb (get_details (fst c)) (snd c).

(* dispatch: analyses, id-map lines, coverage on?, events; expected: return values, deliveries, crashed?, coverage *)
Definition dispatch_case :=
  (list adata * (linetab * (bool * list (string * list cval)))
   * (list (option cval) * (list (nat * (string * list cval)) * (bool * list ((string * nat * string) * nat)))))%type.
Definition ok_dispatch (c : dispatch_case) : bool :=
  let '((l, (t, (cv, es))), (erets, (edels, (ecrash, ecov)))) := c in
  let '(rets, st) := c_run t l es (init_state cval cv) [] in
  if ecrash then false
  else
    list_eqb opt_eqb rets erets
    && list_eqb del_eqb (map (fun d => (d_idx d, (d_hook d, d_args d))) (dels st)) edels
    && match cov st with
       | None => match ecov with [] => negb cv | _ => false end
       | Some m => forallb (fun kv => Nat.eqb (cov_get (fst kv) m) (snd kv)) ecov
                   && forallb (fun kv => Nat.eqb (cov_get (fst kv) ecov) (snd kv)) m
       end.

(* coverage merge: list of files, expected merged map *)
Definition ok_gather (c : list cmap * cmap) : bool :=
  let '(files, expected) := c in
  let g := gather files in
  forallb (fun kv => Nat.eqb (cget (fst kv) g) (snd kv)) expected
  && forallb (fun kv => Nat.eqb (cget (fst kv) expected) (snd kv)) g.

(* IIDs histories: ops with the id each ONew returned; expected final disk *)
Inductive iop := INew (l : loc) (expect : nat) | IStore | IReload.
Fixpoint run_iops (ops : list iop) (st : iids * disk) : bool * (iids * disk) :=
  match ops with
  | [] => (true, st)
  | INew l e :: r => let '(i, s') := new (fst st) l in
                     if Nat.eqb i e then run_iops r (s', snd st) else (false, st)
  | IStore :: r => run_iops r (fst st, store (fst st))
  | IReload :: r => run_iops r (load (snd st))
  end.
Definition loc_pair_eqb (a b : nat * loc) : bool := Nat.eqb (fst a) (fst b) && loc_eqb (snd a) (snd b).
Definition ok_iids (c : list iop * (nat * list (nat * loc))) : bool :=
  let '(ops, (en, em)) := c in
  let '(ok, st) := run_iops (IReload :: ops) (fst (load None), None) in
  ok && match snd st with
        | Some (n, m) => Nat.eqb n en && forallb (fun kv => match nget (fst kv) m with Some l => loc_eqb l (snd kv) | None => false end) em
                         && Nat.eqb (length m) (length em)
        | None => false
        end.

Definition ok_binds (c : list param * (nat * (list string * bool))) : bool :=
  let '(sig, (npos, (kws, expected))) := c in Bool.eqb (binds sig npos kws) expected.

(* lifecycle: launch, body, expected notes *)
Definition note_eqb (a b : note) : bool :=
  match a, b with
  | NBegin x, NBegin y | NEv x, NEv y | NRe x, NRe y | NUncaught x, NUncaught y | NEnd x, NEnd y | NDump x, NDump y => Nat.eqb x y
  | _, _ => false
  end.
(* the recorder of the subprocess stream observes begin / events / uncaught / end, not the catch's
   runtime_event and not the dump *)
Definition observable (n : note) : bool := match n with NRe _ | NDump _ => false | _ => true end.
Definition out_code (o : out) : nat := match o with ONormal => 0 | ORaise => 1 | OExit => 2 | OCrash => 3 end.
Definition ok_lifecycle (c : bool * launch * items * (list note * nat)) : bool :=
  let '(cov, l, body, (expected, eout)) := c in
  let '(o, p) := run_process_cov cov l body in
  list_eqb note_eqb (filter observable (notes p)) expected && Nat.eqb (out_code o) eout.
(* the property's grammar, per engine: begin, events, at most one uncaught report, end -- and nothing after *)
Fixpoint grammar_from (st : nat) (ns : list note) : bool :=
  match ns with
  | [] => Nat.eqb st 3
  | n :: r =>
    match st, n with
    | 0, NBegin _ => grammar_from 1 r
    | 1, NEv _ => grammar_from 1 r
    | 1, NUncaught _ => grammar_from 2 r
    | 1, NEnd _ => grammar_from 3 r
    | 2, NEnd _ => grammar_from 3 r
    | _, _ => false
    end
  end.
Definition model_meets_grammar (c : bool * launch * items) : bool :=
  let '(cov, l, body) := c in
  let '(o, p) := run_process_cov cov l body in
  grammar_from 0 (filter observable (notes p)) && negb (Nat.eqb (out_code o) 3).

(* ---- instrument_file on one module "m": initial files, is the source decodable, what the real transformation
   returned (None = declined), expected return code (0 = R0, 1 = R1, 2 = None) and expected final files *)
From DV Require Import Engine.Files.
Definition kind_code (k : kind) : nat := match k with KPy => 0 | KOrig => 1 | KJson => 2 end.
Definition fs_of (l : list (nat * string)) : fs :=
  fun k => if String.eqb (fst k) "m" then
             (fix go (l : list (nat * string)) := match l with [] => None | (c, v) :: r => if Nat.eqb c (kind_code (snd k)) then Some v else go r end) l
           else None.
Definition ret_code (r : ret) : nat := match r with R0 => 0 | R1 => 1 | RNone => 2 end.
Definition sopt_eqb (a b : option string) : bool :=
  match a, b with Some x, Some y => String.eqb x y | None, None => true | _, _ => false end.
Definition ok_files (c : list (nat * string) * (bool * (option (string * string) * (nat * list (nat * string))))) : bool :=
  let '(before, (dec, (tr, (eret, after)))) := c in
  let '(f', r) := instrument_file (fun _ => dec) (fun _ _ => tr) (fs_of before) "m" in
  Nat.eqb (ret_code r) eret
  && forallb (fun k => sopt_eqb (f' ("m", k)) (fs_of after ("m", k))) [KPy; KOrig; KJson].
