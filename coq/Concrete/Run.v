(* Concrete/Run.v -- entry points for the correspondence check: run a MiniPy program on the concrete
   primitives as (a) the original program, (b) the instrumented program under the model of the runtime,
   (c) the reference semantics; and render what is observable. *)
From Coq Require Import String Ascii List ZArith Bool Arith.
From DV Require Import Base.Util Engine.Dispatch Py.Syntax Py.Ops Py.Sem Py.Instr Concrete.CVal Concrete.CPrims.
Import ListNotations.
Open Scope string_scope.
Open Scope list_scope.

Notation earg := (Sem.earg val).
Notation cst := (Sem.st val world).

(* an analysis given as data: class name, implemented hooks with docstrings, scripted answers *)
Record pana := { pa_cls : string; pa_methods : list (string * option string); pa_script : list ((string * nat) * earg) }.

Fixpoint pscript_get (h : string) (k : nat) (s : list ((string * nat) * earg)) : option earg :=
  match s with [] => None | ((h', k'), v) :: r => if String.eqb h h' && Nat.eqb k k' then Some v else pscript_get h k r end.

Definition mk_pana (a : pana) : analysis earg :=
  {| a_cls := pa_cls a;
     a_doc := fun f => alookup f (pa_methods a);
     a_react := fun hist f _ => pscript_get f (count_occ_b (fun d => String.eqb (d_hook d) f) hist) (pa_script a) |}.

Definition genv0 : list (string * val) :=
  [ ("k", VFn "k"); ("r", VFn "r"); ("boom", VFn "boom"); ("len", VFn "len");
    ("E1", VExcCls "E1"); ("E2", VExcCls "E2"); ("Exception", VExcCls "Exception"); ("ValueError", VExcCls "ValueError");
    ("ZeroDivisionError", VExcCls "ZeroDivisionError"); ("IndexError", VExcCls "IndexError"); ("KeyError", VExcCls "KeyError");
    ("TypeError", VExcCls "TypeError"); ("AssertionError", VExcCls "AssertionError"); ("NameError", VExcCls "NameError") ].

Definition st0 (fn : list string) (coverage : bool) : cst :=
  {| w := w0 fn; genv := genv0; frames := []; excs := []; eng := init_state earg coverage |}.

Section Inst.
  Variable fn : list string.
  Variable anas : list pana.

  Definition c_line_of_e (p : string) (a : earg) : nat := 0.

  (* the Sem development instantiated *)
  (* "NameError:free" is the failure of a read through `lambda: x` of a function local that is not bound yet
     (Py/Sem.v, lookup_thunk): CPython raises a NameError with its own message there; the run is marked with the
     dynamic guard clause unbound_local_thunk *)
  Definition notew (n : string) (w : world) : world :=
    {| log := log w; nextrec := nextrec w; truths := truths w; attrs := attrs w; iters := iters w; nextiter := nextiter w;
       fnames := fnames w; notes := if mem_str n (notes w) then notes w else notes w ++ [n] |}.
  Definition c_exc_new (cls msg : string) (w : world) : val * world :=
    if String.eqb cls "NameError:free" then
      (VExc "NameError" [VStr ("cannot access free variable '" ++ msg ++ "' where it is not associated with a value in enclosing scope")%string],
       notew "unbound_local_thunk" w)
    else
    (VExc cls [VStr (if String.eqb cls "NameError" then ("name '" ++ msg ++ "' is not defined")
                     else if String.eqb cls "UnboundLocalError" then ("cannot access local variable '" ++ msg ++ "' where it is not associated with a value")
                     else msg)%string], w).
  Definition c_assertion (m : option val) (w : world) : val * world :=
    (VExc "AssertionError" (match m with Some v => [v] | None => [] end), w).
  Definition c_with_cause (e c : val) (w : world) : val * world := (e, w).
  Definition c_as_exc (v : val) (w : world) : val * world :=
    (match v with VExc _ _ => v | VExcCls c => VExc c [] | _ => VExc "TypeError" [VStr "exceptions must derive from BaseException"] end, w).
  Definition c_mklist (l : list val) (w : world) : val * world := (VList l, w).
  Definition c_mktuple (l : list val) (w : world) : val * world := (VTuple l, w).
  Definition c_tuple_of_list (v : val) (w : world) : val * world := (match v with VList l => VTuple l | other => other end, w).

  Definition S_run_module :=
    run_module val world c_const c_un c_bin c_inplace c_cmp c_truth c_getattr c_setattr c_getitem c_setitem c_call
               c_mklist c_mktuple c_tuple_of_list c_iter c_next c_exc_match c_exc_new c_assertion c_with_cause c_as_exc c_is_exception
               (fun v => match v with VClo f => Some f | _ => None end) VClo (c_filt fn) c_is_int c_line_of_e (map mk_pana anas) "M".
  Definition S_rrun_module :=
    rrun_module val world c_const c_un c_bin c_inplace c_cmp c_truth c_getattr c_setattr c_getitem c_setitem c_call
                c_mklist c_mktuple c_tuple_of_list c_iter c_next c_exc_match c_exc_new c_assertion c_with_cause c_as_exc c_is_exception
                (fun v => match v with VClo f => Some f | _ => None end) VClo (c_filt fn) c_is_int c_line_of_e (map mk_pana anas) "M".
End Inst.

(* ------------------------------------------------------------------ rendering of observations *)
Fixpoint show_arg (fn : list string) (a : earg) : string :=
  match a with
  | AV v => show fn v
  | AS s => ("'" ++ s ++ "'")%string
  | AI z => z2s z
  | AB true => "True" | AB false => "False"
  | ANone => "None"
  | AL l => ("[" ++ sjoin "," (map (show_arg fn) l) ++ "]")%string
  | AT l => ("(" ++ sjoin "," (map (show_arg fn) l) ++ ")")%string
  | AThunk => "<fn <lambda>>"
  | AD => "{}"
  | AO t => t
  end.

Definition show_head (fn : list string) (a : earg) : string :=
  match a with AS s => s | AI z => z2s z | other => show_arg fn other end.

Definition show_delivery (fn : list string) (d : delivery earg) : list string :=
  nat2s (d_idx d) :: d_hook d ::
  match d_args d with
  | a :: b :: rest => show_head fn a :: show_head fn b :: map (show_arg fn) rest
  | l => map (show_head fn) l
  end.

Definition outcome_str (fn : list string) (r : res val unit) : string :=
  match r with
  | Ok _ => "ok"
  | Exc e => ("exc:" ++ match e with
                         | VExc c [] => c ++ ":"
                         | VExc c [VStr m] => c ++ ":" ++ m
                         | VExc c [v] => c ++ ":" ++ show fn v
                         | other => show fn other
                         end)%string
  | Brk => "stuck:break" | Cnt => "stuck:continue" | Ret _ => "stuck:return"
  | Fuel => "fuel"
  | Stuck y => ("stuck:" ++ y)%string
  end.

Record obs := { o_log : list (list string); o_globals : list (string * string); o_outcome : string; o_dels : list (list string);
                o_notes : list string (* dynamic guard clauses met by a model run; never compared *) }.

Definition observe (fn : list string) (x : res val unit * cst) : obs :=
  let '(r, s) := x in
  {| o_log := log (w s);
     o_globals := map (fun kv => (fst kv, show fn (snd kv)))
                      (filter (fun kv => negb (mem_str (fst kv) (map fst genv0))) (genv s));
     o_outcome := outcome_str fn r;
     o_dels := map (show_delivery fn) (dels (eng s));
     o_notes := notes (w s) |}.

Definition fnames_of (p : program) : list string := map f_name (p_funs p).

Definition run_orig (fuel : nat) (p : program) : obs :=
  observe (fnames_of p) (S_run_module (fnames_of p) [] (p_funs p) fuel false (p_main p) (st0 (fnames_of p) false)).

Definition run_inst (fuel : nat) (H : list string) (anas : list pana) (coverage : bool) (p : program) : obs :=
  let p' := instr_prog H p in
  observe (fnames_of p) (S_run_module (fnames_of p) anas (p_funs p') fuel (has_rt p') (p_main p') (st0 (fnames_of p) coverage)).

Definition run_ref (fuel : nat) (H : list string) (anas : list pana) (coverage : bool) (p : program) : obs :=
  let p' := instr_prog H p in
  observe (fnames_of p) (S_rrun_module (fnames_of p) anas (p_funs p) H fuel (has_rt p') (p_main p) (st0 (fnames_of p) coverage)).

(* the text of the instrumented program is not compared; only whether the module was wrapped *)
Definition obs_eqb (a b : obs) : bool :=
  list_eqb (list_eqb String.eqb) (o_log a) (o_log b)
  && list_eqb (fun x y => String.eqb (fst x) (fst y) && String.eqb (snd x) (snd y)) (o_globals a) (o_globals b)
  && String.eqb (o_outcome a) (o_outcome b)
  && list_eqb (list_eqb String.eqb) (o_dels a) (o_dels b).

(* ------------------------------------------------------------------ verdicts of the three-way comparison *)
Definition globals_eqb (a b : list (string * string)) : bool :=
  forallb (fun kv => match alookup (fst kv) b with Some v => String.eqb v (snd kv) | None => false end) a
  && forallb (fun kv => match alookup (fst kv) a with Some v => String.eqb v (snd kv) | None => false end) b.

Definition behaviour_eqb (a b : obs) : bool :=
  list_eqb (list_eqb String.eqb) (o_log a) (o_log b) && globals_eqb (o_globals a) (o_globals b) && String.eqb (o_outcome a) (o_outcome b).

Definition obs_same (a b : obs) : bool := behaviour_eqb a b && list_eqb (list_eqb String.eqb) (o_dels a) (o_dels b).

Definition limited (o : obs) : bool :=
  prefixb "fuel" (o_outcome o) || prefixb "stuck:" (o_outcome o) || prefixb "exc:ModelLimit" (o_outcome o)
  || existsb (fun e => match e with h :: _ => String.eqb h "MODEL_LIMIT" | [] => false end) (o_log o).

(* bit mask: 1 = I_orig<>M_orig, 2 = I_inst<>M_inst, 4 = M_inst<>S, 8 = I_inst<>I_orig (behaviour), 16 = outside the model, 32 = I_inst<>S *)
Definition verdict_of (io ii mo mi s : obs) : nat :=
  if limited mo || limited mi || limited s then 16 + (if behaviour_eqb ii io then 0 else 8)
  else (if obs_same io mo then 0 else 1) + (if obs_same ii mi then 0 else 2) + (if obs_same mi s then 0 else 4)
       + (if behaviour_eqb ii io then 0 else 8) + (if obs_same ii s then 0 else 32).
Definition verdict (fuel : nat) (c : program * (list string * (list pana * (bool * (obs * obs))))) : nat :=
  let '(p, (H, (anas, (cov, (io, ii))))) := c in
  verdict_of io ii (run_orig fuel p) (run_inst fuel H anas cov p) (run_ref fuel H anas cov p).

(* for diagnosis: the three model observations of a case *)
Definition explain (fuel : nat) (c : program * (list string * (list pana * (bool * (obs * obs))))) : obs * obs * obs :=
  let '(p, (H, (anas, (cov, _)))) := c in (run_orig fuel p, run_inst fuel H anas cov p, run_ref fuel H anas cov p).

(* ---- diagnosis: first difference between two observations *)
Fixpoint first_diff (a b : list (list string)) (i : nat) : option (nat * list string * list string) :=
  match a, b with
  | [], [] => None
  | x :: r, y :: s => if list_eqb String.eqb x y then first_diff r s (S i) else Some (i, x, y)
  | x :: _, [] => Some (i, x, ["<missing>"])
  | [], y :: _ => Some (i, ["<missing>"], y)
  end.
Definition diff_report (a b : obs) :=
  (first_diff (o_log a) (o_log b) 0, first_diff (o_dels a) (o_dels b) 0, (o_outcome a, o_outcome b),
   (filter (fun kv => match alookup (fst kv) (o_globals b) with Some v => negb (String.eqb v (snd kv)) | None => true end) (o_globals a),
    filter (fun kv => match alookup (fst kv) (o_globals a) with Some v => negb (String.eqb v (snd kv)) | None => true end) (o_globals b))).
Definition diagnose (fuel : nat) (c : program * (list string * (list pana * (bool * (obs * obs))))) :=
  let '(p, (H, (anas, (cov, (io, ii))))) := c in
  let mo := run_orig fuel p in let mi := run_inst fuel H anas cov p in let s := run_ref fuel H anas cov p in
  (("I_orig vs M_orig", diff_report io mo), ("I_inst vs M_inst", diff_report ii mi), ("M_inst vs S", diff_report mi s)).

(* ---- verdict together with the failing guard clauses of the case *)
From DV Require Import Py.Guard.
Definition hook_category (h : string) : nat :=
  if mem_str h ["integer"; "_float"; "imaginary"; "boolean"; "string"; "none"; "_list"; "_tuple"; "_set"; "dictionary";
                "add"; "bit_and"; "bit_or"; "bit_xor"; "divide"; "floor_divide"; "left_shift"; "matrix_multiply"; "modulo"; "multiply"; "power"; "right_shift"; "subtract";
                "_and"; "_or"; "bit_invert"; "minus"; "_not"; "plus";
                "equal"; "greater_than"; "greater_than_equal"; "_in"; "_is"; "less_than"; "less_than_equal"; "not_equal"; "is_not"; "not_in";
                "read_identifier"; "read_attribute"; "read_subscript"] then 1
  else if mem_str h ["pre_call"; "post_call"; "function_enter"; "function_exit"; "_return"; "_yield"; "implicit_return"] then 3
  else if mem_str h ["runtime_event"; "literal"; "operation"; "binary_operation"; "unary_operation"; "comparison"; "control_flow_event";
                     "memory_access"; "read"; "begin_execution"; "end_execution"; "uncaught_exception"] then 0
  else 2.
Definition dels_cat (k : nat) (o : obs) : list (list string) :=
  filter (fun d => match d with _ :: h :: _ => Nat.eqb (hook_category h) k | _ => false end) (o_dels o).
Definition cat_same (k : nat) (a b : obs) : bool := list_eqb (list_eqb String.eqb) (dels_cat k a) (dels_cat k b).

(* bits: 1 I_orig<>M_orig | 2 I_inst<>M_inst | 4 M_inst<>S | 8 I_inst<>I_orig (behaviour) | 16 outside the model | 32 I_inst<>S
         64 expression-event deliveries differ I vs S | 128 statement-event deliveries | 256 call/function-event deliveries
         512 generic-hook deliveries differ I vs S | 1024 behaviour (log/globals/outcome) differs I vs S *)
Definition verdict2 (fuel : nat) (c : program * (list string * (list pana * (bool * (obs * obs))))) : nat * list string :=
  let '(p, (H, (anas, (cov, (io, ii))))) := c in
  let s := run_ref fuel H anas cov p in
  let mi := run_inst fuel H anas cov p in
  let v := verdict_of io ii (run_orig fuel p) mi s in
  (v + (if Nat.eqb (Nat.land v 16) 16 then 0
        else (if cat_same 1 ii s then 0 else 64) + (if cat_same 2 ii s then 0 else 128) + (if cat_same 3 ii s then 0 else 256)
             + (if cat_same 0 ii s then 0 else 512) + (if behaviour_eqb ii s then 0 else 1024)),
   failing_clauses H p ++ o_notes mi).
