(* Concrete/Tiny.v -- a small data semantics with pure truth tests: shows that the hypotheses of the
   refinement theorems are satisfiable (integers as values, a log of external calls as world). *)
From Coq Require Import String List ZArith Bool.
From DV Require Import Engine.Dispatch Py.Syntax Py.Sem Py.Instr Py.Refine.
Import ListNotations.
Open Scope string_scope.
Open Scope Z_scope.

Definition tconst (c : const) : Z :=
  match c with KInt z => z | KBool true => 1 | KBool false => 0 | _ => 0 end.

Definition tdata : data :=
  {| d_val := Z; d_world := list Z;
     d_const := tconst;
     d_un := fun o v w => (POk (match o with UMinus => - v | UNot => if Z.eqb v 0 then 1 else 0 | _ => v end), w);
     d_bin := fun o a b w => match o with
                             | BAdd => (POk (a + b), w) | BSubtract => (POk (a - b), w) | BMultiply => (POk (a * b), w)
                             | BFloorDivide => if Z.eqb b 0 then (PRaise (-1), w) else (POk (a / b), w)
                             | _ => (POk a, w)
                             end;
     d_inplace := fun o a b w => (POk (a + b), w);
     d_cmp := fun o a b w => (POk (match o with CLessThan => if Z.ltb a b then 1 else 0 | CEqual => if Z.eqb a b then 1 else 0 | _ => 0 end), w);
     d_truth := fun v w => (POk (negb (Z.eqb v 0)), w);
     d_getattr := fun v x w => (POk v, w);
     d_setattr := fun v x u w => (POk tt, u :: w);
     d_getitem := fun v i w => (POk (v + i), w);
     d_setitem := fun v i u w => (POk tt, u :: w);
     d_call := fun f args w => (POk (fold_left Z.add args f), ((f :: args) ++ w)%list);
     d_mklist := fun l w => (fold_left Z.add l 0, w);
     d_mktuple := fun l w => (fold_left Z.add l 0, w);
     d_tuple_of_list := fun v w => (v, w);
     d_iter := fun v w => (POk v, v :: w);
     d_next := fun v w => match w with x :: r => if Z.ltb 0 x then (POk (Some x), (x - 1) :: r) else (POk None, r) | [] => (POk None, []) end;
     d_exc_match := fun e c w => (POk (Z.eqb e c), w);
     d_exc := fun c m w => (-2, w);
     d_assertion := fun m w => (-3, w);
     d_with_cause := fun e c w => (e, w);
     d_as_exc := fun v w => (v, w);
     d_is_exception := fun v => true;
     d_as_fun := fun v => if Z.leb 1000 v then Some (Z.to_nat (v - 1000)) else None;
     d_mk_fun := fun n => 1000 + Z.of_nat n;
     d_filt_str := fun v => None;
     d_is_int := fun v => true;
     d_line_of := fun p a => 0%nat |}.

Lemma tdata_pure_truth : pure_truth tdata.
Proof.
  exists (fun v => negb (Z.eqb v 0)). split; [reflexivity|]. intros [|]; reflexivity.
Qed.

Lemma tdata_unbound_uniform : unbound_reads_uniform tdata.
Proof. intros x w0. reflexivity. Qed.

Lemma tdata_list_pure : list_building_pure tdata.
Proof. exists (fun l => fold_left Z.add l 0). split; intros; reflexivity. Qed.
