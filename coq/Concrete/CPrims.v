(* Concrete/CPrims.v -- an executable instance of the primitive operations, mirroring support/vsupport.py
   (the uninstrumented helper module generated programs import) and the Python data semantics of the small
   value universe the generator uses: None, bool, int, str, float tokens, tuples, lists (never mutated),
   recorder objects R<i> whose every operator logs and returns a fresh recorder, helper functions k / r / boom,
   exception classes and instances.  Used for the correspondence check (model vs implementation) and for the
   machine-checked witnesses; the theorems of Py/ hold for EVERY instance, not just this one. *)
From Coq Require Import String Ascii List ZArith Bool Arith.
From DV Require Import Base.Util Engine.Dispatch Py.Syntax Py.Ops Py.Sem Concrete.CVal.
Import ListNotations.
Open Scope string_scope.
Open Scope list_scope.

Inductive val :=
| VNone | VBool (b : bool) | VInt (z : Z) | VStr (s : string) | VFloat (tok : string)
| VRec (id : nat)
| VList (l : list val) | VTuple (l : list val)
| VFn (name : string)                      (* helper functions of vsupport and builtins the programs call *)
| VClo (fid : nat)                         (* program-defined function *)
| VExcCls (name : string)
| VExc (cls : string) (args : list val)
| VIter (id : nat).

Record world := {
  log : list (list string);                (* vsupport.LOG, one entry per observable action *)
  nextrec : nat;
  truths : list (nat * bool);              (* truth value of recorder i (default True) *)
  attrs : list ((nat * string) * val);     (* recorder attributes *)
  iters : list (nat * list val);
  nextiter : nat;
  fnames : list string;                    (* names of the program's functions, for rendering *)
  notes : list string                      (* diagnostics of the run (dynamic guard clauses); not part of an observation *)
}.

Definition w0 (fn : list string) : world :=
  {| log := []; nextrec := 0; truths := []; attrs := []; iters := []; nextiter := 0; fnames := fn; notes := [] |}.

Definition logw (e : list string) (w : world) : world :=
  {| log := log w ++ [e]; nextrec := nextrec w; truths := truths w; attrs := attrs w; iters := iters w; nextiter := nextiter w; fnames := fnames w; notes := notes w |}.

Definition fresh (w : world) : val * world :=
  (VRec (S (nextrec w)),
   {| log := log w; nextrec := S (nextrec w); truths := truths w; attrs := attrs w; iters := iters w; nextiter := nextiter w; fnames := fnames w; notes := notes w |}).

(* ------------------------------------------------------------------ rendering (vsupport.cr) *)
Definition nat2s (n : nat) : string := n2s (N.of_nat n).

(* repr of a str: double quotes when the text has an apostrophe and no double quote (escapes are not modelled) *)
Fixpoint has_ascii (c : Ascii.ascii) (s : string) : bool :=
  match s with EmptyString => false | String a r => Ascii.eqb a c || has_ascii c r end.
Definition py_repr_str (s : string) : string :=
  if has_ascii "'"%char s && negb (has_ascii """"%char s) then ("""" ++ s ++ """")%string else ("'" ++ s ++ "'")%string.

Fixpoint show (fn : list string) (v : val) : string :=
  match v with
  | VNone => "None" | VBool true => "True" | VBool false => "False"
  | VInt z => z2s z
  | VStr s => py_repr_str s
  | VFloat t => ("float:" ++ t)%string
  | VRec i => ("R" ++ nat2s i)%string
  | VList l => ("[" ++ sjoin "," (map (show fn) l) ++ "]")%string
  | VTuple l => ("(" ++ sjoin "," (map (show fn) l) ++ ")")%string
  | VFn n => ("<fn " ++ n ++ ">")%string
  | VClo f => ("<fn " ++ nth f fn "?" ++ ">")%string
  | VExcCls n => ("<class " ++ n ++ ">")%string
  | VExc c a => (c ++ "(" ++ sjoin "," (map (show fn) a) ++ ")")%string
  | VIter _ => "<list_iterator>"
  end.
Definition showw (w : world) (v : val) : string := show (fnames w) v.

Fixpoint val_eqb (a b : val) : bool :=
  match a, b with
  | VNone, VNone => true
  | VBool x, VBool y => Bool.eqb x y
  | VInt x, VInt y => Z.eqb x y
  | VBool x, VInt y => Z.eqb (if x then 1 else 0) y
  | VInt x, VBool y => Z.eqb x (if y then 1 else 0)
  | VStr x, VStr y => String.eqb x y
  | VFloat x, VFloat y => String.eqb x y
  | VRec x, VRec y => Nat.eqb x y
  | VList x, VList y | VTuple x, VTuple y =>
    (fix go (x y : list val) := match x, y with [], [] => true | p :: r, q :: s => val_eqb p q && go r s | _, _ => false end) x y
  | VFn x, VFn y => String.eqb x y
  | VClo x, VClo y => Nat.eqb x y
  | VExcCls x, VExcCls y => String.eqb x y
  | _, _ => false
  end.

(* ------------------------------------------------------------------ exceptions *)
Definition exc (cls msg : string) : val := VExc cls [VStr msg].
Definition tyname (v : val) : string :=
  match v with
  | VNone => "NoneType" | VBool _ => "bool" | VInt _ => "int" | VStr _ => "str" | VFloat _ => "float" | VRec _ => "R"
  | VList _ => "list" | VTuple _ => "tuple" | VFn _ => "builtin_function_or_method" | VClo _ => "function"
  | VExcCls _ => "type" | VExc c _ => c | VIter _ => "list_iterator"
  end.
Definition model_limit {A} (what : string) (w : world) : pres val A * world :=
  (PRaise (exc "ModelLimit" what), logw ["MODEL_LIMIT"; what] w).

Definition as_int (v : val) : option Z := match v with VInt z => Some z | VBool b => Some (if b then 1 else 0)%Z | _ => None end.

(* ------------------------------------------------------------------ operators *)
Definition bin_log (o : binop) : string :=
  match o with
  | BAdd => "add" | BBitAnd => "and" | BBitOr => "or" | BBitXor => "xor" | BDivide => "truediv" | BFloorDivide => "floordiv"
  | BLeftShift => "lshift" | BMatrixMultiply => "matmul" | BModulo => "mod" | BMultiply => "mul" | BPower => "pow"
  | BRightShift => "rshift" | BSubtract => "sub"
  end.
Definition bin_sym (o : binop) : string :=
  match o with
  | BAdd => "+" | BBitAnd => "&" | BBitOr => "|" | BBitXor => "^" | BDivide => "/" | BFloorDivide => "//"
  | BLeftShift => "<<" | BMatrixMultiply => "@" | BModulo => "%" | BMultiply => "*" | BPower => "** or pow()"
  | BRightShift => ">>" | BSubtract => "-"
  end.

Definition int_bin (o : binop) (a b : Z) (w : world) : pres val val * world :=
  match o with
  | BAdd => (POk (VInt (a + b)), w)
  | BSubtract => (POk (VInt (a - b)), w)
  | BMultiply => (POk (VInt (a * b)), w)
  | BFloorDivide => if Z.eqb b 0 then (PRaise (exc "ZeroDivisionError" "integer division or modulo by zero"), w)
                    else (POk (VInt (Z.div a b)), w)
  | BModulo => if Z.eqb b 0 then (PRaise (exc "ZeroDivisionError" "integer modulo by zero"), w)
               else (POk (VInt (Z.modulo a b)), w)
  | BBitAnd => (POk (VInt (Z.land a b)), w)
  | BBitOr => (POk (VInt (Z.lor a b)), w)
  | BBitXor => (POk (VInt (Z.lxor a b)), w)
  | BLeftShift => if Z.ltb b 0 then (PRaise (exc "ValueError" "negative shift count"), w) else (POk (VInt (Z.shiftl a b)), w)
  | BRightShift => if Z.ltb b 0 then (PRaise (exc "ValueError" "negative shift count"), w) else (POk (VInt (Z.shiftr a b)), w)
  | BPower => if Z.ltb b 0 then model_limit "negative power" w else (POk (VInt (Z.pow a b)), w)
  | BDivide => model_limit "true division" w
  | BMatrixMultiply => (PRaise (exc "TypeError" "unsupported operand type(s) for @: 'int' and 'int'"), w)
  end.

Definition c_bin_gen (inplace : bool) (o : binop) (l r : val) (w : world) : pres val val * world :=
  match l, r with
  | VRec i, _ =>
    let '(v, w1) := fresh (logw [((if inplace then "i" else "") ++ bin_log o)%string; nat2s i; showw w r] w) in (POk v, w1)
  | _, VRec j =>
    let '(v, w1) := fresh (logw [("r" ++ bin_log o)%string; nat2s j; showw w l] w) in (POk v, w1)
  | VStr a, VStr b => match o with BAdd => (POk (VStr (a ++ b)), w) | _ => model_limit "str operator" w end
  | _, _ =>
    match as_int l, as_int r with
    | Some a, Some b => int_bin o a b w
    | _, _ => model_limit "operand types" w
    end
  end.
Definition c_bin := c_bin_gen false.
Definition c_inplace := c_bin_gen true.

Definition c_un (o : unop) (v : val) (w : world) : pres val val * world :=
  match v with
  | VRec i =>
    let nm := match o with UInvert => "invert" | UMinus => "neg" | UPlus => "pos" | UNot => "not" end in
    let '(r, w1) := fresh (logw [nm; nat2s i] w) in (POk r, w1)
  | _ =>
    match as_int v with
    | Some a => (POk (VInt (match o with UInvert => Z.lnot a | UMinus => Z.opp a | _ => a end)), w)
    | None => model_limit "unary operand" w
    end
  end.

Definition cmp_log (o : cmpop) : string :=
  match o with
  | CEqual => "eq" | CNotEqual => "ne" | CLessThan => "lt" | CLessThanEqual => "le" | CGreaterThan => "gt" | CGreaterThanEqual => "ge"
  | _ => "?"
  end.
Definition cmp_swap (o : cmpop) : string :=
  match o with
  | CEqual => "eq" | CNotEqual => "ne" | CLessThan => "gt" | CLessThanEqual => "ge" | CGreaterThan => "lt" | CGreaterThanEqual => "le"
  | _ => "?"
  end.

Definition c_cmp (o : cmpop) (l r : val) (w : world) : pres val val * world :=
  match o with
  | CIs => (POk (VBool (val_eqb l r && negb (match l with VList _ | VTuple _ => true | _ => false end))), w)
  | CIsNot => (POk (VBool (negb (val_eqb l r && negb (match l with VList _ | VTuple _ => true | _ => false end)))), w)
  | CIn | CNotIn =>
    let neg := match o with CNotIn => true | _ => false end in
    match r with
    | VRec j => (POk (VBool (negb neg)), logw ["contains"; nat2s j; showw w l] w)
    | VList xs | VTuple xs =>
      match l with
      | VRec _ => model_limit "recorder in list" w
      | _ => (POk (VBool (xorb neg (existsb (val_eqb l) xs))), w)
      end
    | _ => model_limit "in: container" w
    end
  | _ =>
    match l, r with
    | VRec i, _ => let '(v, w1) := fresh (logw [cmp_log o; nat2s i; showw w r] w) in (POk v, w1)
    | _, VRec j => let '(v, w1) := fresh (logw [cmp_swap o; nat2s j; showw w l] w) in (POk v, w1)
    | _, _ =>
      match as_int l, as_int r with
      | Some a, Some b =>
        (POk (VBool (match o with
                         | CEqual => Z.eqb a b | CNotEqual => negb (Z.eqb a b) | CLessThan => Z.ltb a b
                         | CLessThanEqual => Z.leb a b | CGreaterThan => Z.ltb b a | _ => Z.leb b a end)), w)
      | _, _ =>
        match o with
        | CEqual => (POk (VBool (val_eqb l r)), w)
        | CNotEqual => (POk (VBool (negb (val_eqb l r))), w)
        | _ => model_limit "ordering of non-integers" w
        end
      end
    end
  end.

Fixpoint nlookup_b (i : nat) (m : list (nat * bool)) : bool :=
  match m with [] => true | (j, b) :: r => if Nat.eqb i j then b else nlookup_b i r end.

Definition c_truth (v : val) (w : world) : pres val bool * world :=
  match v with
  | VNone => (POk false, w)
  | VBool b => (POk b, w)
  | VInt z => (POk (negb (Z.eqb z 0)), w)
  | VStr s => (POk (negb (String.eqb s "")), w)
  | VList l | VTuple l => (POk (match l with [] => false | _ => true end), w)
  | VRec i => (POk (nlookup_b i (truths w)), logw ["bool"; nat2s i] w)
  | _ => (POk true, w)
  end.

Fixpoint alookup_attr (k : nat * string) (m : list ((nat * string) * val)) : option val :=
  match m with [] => None | ((i, n), v) :: r => if Nat.eqb (fst k) i && String.eqb (snd k) n then Some v else alookup_attr k r end.

Definition set_attr (k : nat * string) (v : val) (w : world) : world :=
  {| log := log w; nextrec := nextrec w; truths := truths w; attrs := (k, v) :: attrs w; iters := iters w; nextiter := nextiter w; fnames := fnames w; notes := notes w |}.

Definition c_getattr (b : val) (x : string) (w : world) : pres val val * world :=
  match b with
  | VRec i =>
    let w1 := logw ["getattr"; nat2s i; x] w in
    match alookup_attr (i, x) (attrs w1) with
    | Some v => (POk v, w1)
    | None => let '(v, w2) := fresh w1 in (POk v, set_attr (i, x) v w2)
    end
  | _ => (PRaise (exc "AttributeError" ("'" ++ tyname b ++ "' object has no attribute '" ++ x ++ "'")), w)
  end.
Definition c_setattr (b : val) (x : string) (v : val) (w : world) : pres val unit * world :=
  match b with
  | VRec i => (POk tt, set_attr (i, x) v (logw ["setattr"; nat2s i; x; showw w v] w))
  | _ => (PRaise (exc "AttributeError" ("'" ++ tyname b ++ "' object has no attribute '" ++ x ++ "'")), w)
  end.

Definition index_list (kind : string) (l : list val) (i : val) (w : world) : pres val val * world :=
  match as_int i with
  | Some z =>
    let n := Z.of_nat (length l) in
    let z' := if Z.ltb z 0 then (z + n)%Z else z in
    if Z.ltb z' 0 || Z.leb n z' then (PRaise (exc "IndexError" (kind ++ " index out of range")), w)
    else (POk (nth (Z.to_nat z') l VNone), w)
  | None => model_limit "index type" w
  end.

Definition c_getitem (b i : val) (w : world) : pres val val * world :=
  match b with
  | VRec j => let '(v, w1) := fresh (logw ["getitem"; nat2s j; showw w i] w) in (POk v, w1)
  | VList l => index_list "list" l i w
  | VTuple l => index_list "tuple" l i w
  | _ => (PRaise (exc "TypeError" ("'" ++ tyname b ++ "' object is not subscriptable")), w)
  end.
Definition c_setitem (b i v : val) (w : world) : pres val unit * world :=
  match b with
  | VRec j => (POk tt, logw ["setitem"; nat2s j; showw w i; showw w v] w)
  | _ => (PRaise (exc "ModelLimit" "item assignment on a non-recorder"), logw ["MODEL_LIMIT"; "setitem"] w)
  end.

Definition set_truth (i : nat) (b : bool) (w : world) : world :=
  {| log := log w; nextrec := nextrec w; truths := (i, b) :: truths w; attrs := attrs w; iters := iters w; nextiter := nextiter w; fnames := fnames w; notes := notes w |}.

Definition c_call (f : val) (args : list val) (w : world) : pres val val * world :=
  match f, args with
  | VFn "k", [v] => (POk v, logw ["k"; showw w v] w)
  | VFn "boom", [v] => (PRaise (VExc "E1" [v]), logw ["boom"; showw w v] w)
  | VFn "r", [] =>
    let '(v, w1) := fresh w in
    (POk v, logw ["new"; nat2s (S (nextrec w)); "True"] w1)
  | VFn "r", [t] =>
    match c_truth t w with
    | (POk b, _) =>
      let '(v, w1) := fresh w in
      (POk v, logw ["new"; nat2s (S (nextrec w)); if b then "True" else "False"] (set_truth (S (nextrec w)) b w1))
    | _ => (PRaise (exc "ModelLimit" "r(arg)"), logw ["MODEL_LIMIT"; "r"] w)
    end
  | VFn "len", [VList l] | VFn "len", [VTuple l] => (POk (VInt (Z.of_nat (length l))), w)
  | VRec i, _ =>
    let '(v, w1) := fresh (logw ["call"; nat2s i; ("(" ++ sjoin "," (map (showw w) args) ++ ")")%string; "()"] w) in (POk v, w1)
  | VExcCls c, _ => (POk (VExc c args), w)
  | _, _ => (PRaise (exc "ModelLimit" ("call of " ++ showw w f)), logw ["MODEL_LIMIT"; "call"] w)
  end.

Definition new_iter (l : list val) (w : world) : val * world :=
  (VIter (nextiter w),
   {| log := log w; nextrec := nextrec w; truths := truths w; attrs := attrs w; iters := (nextiter w, l) :: iters w; nextiter := S (nextiter w); fnames := fnames w; notes := notes w |}).

Definition c_iter (v : val) (w : world) : pres val val * world :=
  match v with
  | VList l | VTuple l => let '(it, w1) := new_iter l w in (POk it, w1)
  | VRec i =>
    let w1 := logw ["iter"; nat2s i] w in
    let '(a, w2) := fresh w1 in let '(b, w3) := fresh w2 in
    let '(it, w4) := new_iter [a; b] w3 in (POk it, w4)
  | _ => (PRaise (exc "TypeError" ("'" ++ tyname v ++ "' object is not iterable")), w)
  end.

Fixpoint iter_pop (i : nat) (m : list (nat * list val)) : option val * list (nat * list val) :=
  match m with
  | [] => (None, [])
  | (j, l) :: r =>
    if Nat.eqb i j then match l with [] => (None, m) | x :: xs => (Some x, (j, xs) :: r) end
    else let '(o, r') := iter_pop i r in (o, (j, l) :: r')
  end.
Definition c_next (it : val) (w : world) : pres val (option val) * world :=
  match it with
  | VIter i =>
    let '(o, m) := iter_pop i (iters w) in
    (POk o, {| log := log w; nextrec := nextrec w; truths := truths w; attrs := attrs w; iters := m; nextiter := nextiter w; fnames := fnames w; notes := notes w |})
  | _ => (PRaise (exc "ModelLimit" "next of a non-iterator"), logw ["MODEL_LIMIT"; "next"] w)
  end.

(* the small class hierarchy the programs use *)
Definition subclass (c d : string) : bool :=
  String.eqb c d || String.eqb d "BaseException"
  || (String.eqb d "Exception" && negb (mem_str c ["SystemExit"; "KeyboardInterrupt"; "GeneratorExit"; "BaseException"]))
  || (String.eqb d "ArithmeticError" && String.eqb c "ZeroDivisionError")
  || (String.eqb d "LookupError" && (String.eqb c "IndexError" || String.eqb c "KeyError")).

Definition c_exc_match (e cls : val) (w : world) : pres val bool * world :=
  match e, cls with
  | VExc c _, VExcCls d => (POk (subclass c d), w)
  | _, _ => (PRaise (exc "ModelLimit" "except clause"), logw ["MODEL_LIMIT"; "except"] w)
  end.

Definition c_const (k : const) : val :=
  match k with KNone => VNone | KBool b => VBool b | KInt z => VInt z | KStr s => VStr s | KFloat t => VFloat t | KImag t => VFloat t end.

Definition c_is_exception (v : val) : bool := match v with VExc c _ => subclass c "Exception" | _ => false end.
Definition c_filt (fn : list string) (v : val) : option string :=
  match v with
  | VInt z => Some (z2s z) | VStr s => Some s | VBool true => Some "True" | VBool false => Some "False"
  | VFloat t => Some t | VFn n => Some n | VClo f => Some (nth f fn "?") | VExcCls n => Some n | _ => None
  end.
Definition c_is_int (v : val) : bool := match v with VInt _ | VBool _ => true | _ => false end.
