(* Engine/Files.v -- model of instrument/instrument.py: instrument_file as a sequence of atomic file
   operations, instrument_files as any schedule of per-file operations, restore.
   A file system maps keys (base, kind) to contents: base ++ ".py" (the module), base ++ ".py.orig"
   (preserved original) and base ++ "-dynapyt.json" (id map).  That these three path shapes never
   collide for distinct ".py" paths is built into the key type (trusted; see DESIGN section 9). *)
From Coq Require Import String List Bool Arith Lia Permutation.
From DV Require Import Base.Util.
Import ListNotations.
Open Scope string_scope.
Open Scope list_scope.

Inductive kind := KPy | KOrig | KJson.
Definition key := (string * kind)%type.
Definition kind_eqb (a b : kind) : bool :=
  match a, b with KPy, KPy | KOrig, KOrig | KJson, KJson => true | _, _ => false end.
Definition key_eqb (a b : key) : bool := String.eqb (fst a) (fst b) && kind_eqb (snd a) (snd b).
Lemma key_eqb_spec a b : reflect (a = b) (key_eqb a b).
Proof.
  destruct a as [s1 k1], b as [s2 k2]. unfold key_eqb; simpl.
  destruct (String.eqb_spec s1 s2); destruct k1, k2; simpl; constructor; congruence.
Qed.

Definition fs := key -> option string.
Definition fwrite (k : key) (v : string) (f : fs) : fs := fun k' => if key_eqb k' k then Some v else f k'.

Definition marker : string := "# DYNAPYT: DO NOT INSTRUMENT".
Definition marker_probe : string := "DYNAPYT: DO NOT INSTRUMENT".
Definition empty_idmap : string := "{""next_iid"": 0, ""iid_to_location"": {}}".

Section Instrument.
  (* oracles: everything libcst / the codec does, as black boxes *)
  Variable decodable : string -> bool.                       (* open(...).read() does not raise UnicodeDecodeError/ValueError *)
  Variable transform : string -> string -> option (string * string).
    (* base -> source -> None (declined: syntax error or any exception in the visitor)
                       | Some (instrumented module text WITHOUT the marker line, id map json) *)

  Inductive ret := RNone | R0 | R1.

  (* the atomic file operations instrument_file performs, in order, and its return value *)
  Definition instrument_ops (f : fs) (b : string) : list (key * string) * ret :=
    match f (b, KPy) with
    | None => ([], R1)                               (* open() raises FileNotFoundError: outside the property's domain *)
    | Some src =>
      if negb (decodable src) then ([], R1)
      else if scontains marker_probe src then ([], R0)
      else
        let mk_json := match f (b, KJson) with None => [((b, KJson), empty_idmap)] | Some _ => [] end in
        match transform b src with
        | None => (mk_json, R1)
        | Some (code, idmap) =>
          (mk_json ++ [ ((b, KOrig), src); ((b, KPy), (marker ++ code)%string); ((b, KJson), idmap) ], RNone)
        end
    end.

  Definition apply_ops (ops : list (key * string)) (f : fs) : fs :=
    fold_left (fun g o => fwrite (fst o) (snd o) g) ops f.

  Definition instrument_file (f : fs) (b : string) : fs * ret :=
    let '(ops, r) := instrument_ops f b in (apply_ops ops f, r).

  (* ---- C02: declined => the module file is untouched; accepted => marker first, original preserved *)
  Lemma apply_ops_other ops : forall f k, (forall o, In o ops -> fst o <> k) -> apply_ops ops f k = f k.
  Proof.
    induction ops as [|o r IH]; intros f k H; simpl; [reflexivity|].
    rewrite IH by (intros o' Ho; apply H; right; exact Ho). unfold fwrite.
    destruct (key_eqb_spec k (fst o)) as [E|N]; [|reflexivity]. exfalso. apply (H o (or_introl eq_refl)). congruence.
  Qed.

  Theorem declined_untouched f b src r f' :
    f (b, KPy) = Some src -> instrument_file f b = (f', r) -> r <> RNone ->
    f' (b, KPy) = Some src /\ f' (b, KOrig) = f (b, KOrig).
  Proof.
    unfold instrument_file, instrument_ops. intros Hs. rewrite Hs.
    destruct (negb (decodable src)); [intros H; inversion H; subst; auto|].
    destruct (scontains marker_probe src); [intros H; inversion H; subst; auto|].
    destruct (transform b src) as [[code idm]|].
    - intros H; inversion H; subst. congruence.
    - intros H _. inversion H; subst. clear H.
      destruct (f (b, KJson)); simpl; [auto|]. unfold fwrite, key_eqb. simpl. rewrite String.eqb_refl. simpl. auto.
  Qed.

  Theorem accepted_shape f b src f' :
    f (b, KPy) = Some src -> instrument_file f b = (f', RNone) ->
    exists code idmap, transform b src = Some (code, idmap) /\
      f' (b, KPy) = Some (marker ++ code)%string /\ f' (b, KOrig) = Some src /\ f' (b, KJson) = Some idmap.
  Proof.
    unfold instrument_file, instrument_ops. intros Hs. rewrite Hs.
    destruct (negb (decodable src)); [intros H; inversion H|].
    destruct (scontains marker_probe src); [intros H; inversion H|].
    destruct (transform b src) as [[code idm]|]; [|intros H; inversion H].
    intros H. inversion H; subst. clear H. exists code, idm. split; [reflexivity|].
    unfold apply_ops. rewrite fold_left_app. simpl. unfold fwrite, key_eqb; simpl. rewrite !String.eqb_refl. simpl. auto.
  Qed.

  (* crash safety: after EVERY prefix of the operation sequence the original source is still on disk,
     either as the module itself or as the preserved original *)
  Theorem original_never_lost f b src ops r n :
    f (b, KPy) = Some src -> instrument_ops f b = (ops, r) ->
    let g := apply_ops (firstn n ops) f in g (b, KPy) = Some src \/ g (b, KOrig) = Some src.
  Proof.
    unfold instrument_ops. intros Hs. rewrite Hs.
    destruct (negb (decodable src)); [intros H; inversion H; subst; destruct n; simpl; auto|].
    destruct (scontains marker_probe src); [intros H; inversion H; subst; destruct n; simpl; auto|].
    assert (Hk : forall (g : fs), g (b, KPy) = Some src -> g (b, KPy) = Some src \/ g (b, KOrig) = Some src) by auto.
    destruct (transform b src) as [[code idm]|]; intros H; inversion H; subst; clear H;
      destruct (f (b, KJson)); simpl;
      repeat (destruct n as [|n]; simpl; rewrite ?firstn_nil; simpl;
              unfold fwrite, key_eqb; simpl; rewrite ?String.eqb_refl; simpl; auto).
  Qed.

  (* ---- C14: idempotence and restore *)
  Lemma prefixb_app p s : prefixb p (p ++ s)%string = true.
  Proof. induction p as [|c p IH]; simpl; [reflexivity|]. rewrite Ascii.eqb_refl. exact IH. Qed.

  Lemma sfind_app_r p a s : scontains p s = true -> scontains p (String a s) = true.
  Proof.
    unfold scontains. simpl. destruct (prefixb p (String a s)); [reflexivity|].
    destruct (sfind p s); [reflexivity|discriminate].
  Qed.

  Lemma marker_in_output code : scontains marker_probe (marker ++ code)%string = true.
  Proof. unfold scontains, marker, marker_probe. simpl. reflexivity. Qed.

  Theorem idempotent f b src f' :
    f (b, KPy) = Some src -> instrument_file f b = (f', RNone) ->
    (forall s, decodable s = true) ->
    instrument_ops f' b = ([], R0).
  Proof.
    intros Hs H Hd. destruct (accepted_shape f b src f' Hs H) as [code [idm [_ [P _]]]].
    unfold instrument_ops. rewrite P, Hd. cbn [negb]. rewrite marker_in_output. reflexivity.
  Qed.

  Definition restore (f : fs) (b : string) : fs :=
    match f (b, KOrig) with Some o => fwrite (b, KPy) o f | None => f end.

  Theorem restore_roundtrip f b src f' :
    f (b, KPy) = Some src -> instrument_file f b = (f', RNone) -> restore f' b (b, KPy) = Some src.
  Proof.
    intros Hs H. destruct (accepted_shape f b src f' Hs H) as [code [idm [_ [_ [O _]]]]].
    unfold restore. rewrite O. unfold fwrite, key_eqb. simpl. rewrite String.eqb_refl. reflexivity.
  Qed.

  (* ---- C14: instrumenting a set of distinct files -- any order gives the per-file results *)
  Definition touches (b : string) (k : key) : bool := String.eqb (fst k) b.

  Lemma ops_touch_own f b ops r : instrument_ops f b = (ops, r) -> forall o, In o ops -> fst (fst o) = b.
  Proof.
    unfold instrument_ops. destruct (f (b, KPy)) as [src|]; [|intros H; inversion H; subst; contradiction].
    destruct (negb (decodable src)); [intros H; inversion H; subst; contradiction|].
    destruct (scontains marker_probe src); [intros H; inversion H; subst; contradiction|].
    destruct (transform b src) as [[code idm]|]; intros H; inversion H; subst; clear H; intros o Ho;
      destruct (f (b, KJson)); simpl in Ho; repeat (destruct Ho as [<-|Ho]; [reflexivity|]); contradiction.
  Qed.

  Lemma ops_depend_own f g b : (forall kd, f (b, kd) = g (b, kd)) -> instrument_ops f b = instrument_ops g b.
  Proof. intros H. unfold instrument_ops. rewrite !H. reflexivity. Qed.

  Definition instrument_seq (bs : list string) (f : fs) : fs := fold_left (fun g b => fst (instrument_file g b)) bs f.

  Lemma instrument_other f b b' kd : b' <> b -> fst (instrument_file f b) (b', kd) = f (b', kd).
  Proof.
    intros N. unfold instrument_file. destruct (instrument_ops f b) as [ops r] eqn:E. simpl.
    apply apply_ops_other. intros o Ho E2. apply (ops_touch_own f b ops r E) in Ho. rewrite E2 in Ho. simpl in Ho. congruence.
  Qed.

  Lemma instrument_seq_other bs : forall f b' kd, ~ In b' bs -> instrument_seq bs f (b', kd) = f (b', kd).
  Proof.
    induction bs as [|b r IH]; intros f b' kd H; simpl; [reflexivity|].
    rewrite IH by (intros I; apply H; right; exact I). apply instrument_other. intros E. apply H. left. congruence.
  Qed.

  Lemma instrument_own_ext f g b kd : (forall kd', f (b, kd') = g (b, kd')) ->
    fst (instrument_file f b) (b, kd) = fst (instrument_file g b) (b, kd).
  Proof.
    intros H. unfold instrument_file. rewrite (ops_depend_own f g b H). destruct (instrument_ops g b) as [ops r]. simpl.
    clear - H. revert f g H. induction ops as [|o rr IH]; intros f g H; simpl; [apply H|].
    apply IH. intros kd'. unfold fwrite. destruct (key_eqb (b, kd') (fst o)); [reflexivity|apply H].
  Qed.

  (* the result for file b in any sequence over distinct files = the result of instrumenting b alone *)
  Theorem seq_is_pointwise bs : NoDup bs -> forall f b kd, In b bs ->
    instrument_seq bs f (b, kd) = fst (instrument_file f b) (b, kd).
  Proof.
    induction bs as [|b0 r IH]; intros ND f b kd HI; [contradiction|]. inversion ND as [|? ? Hn ND']; subst.
    simpl. destruct HI as [->|HI].
    - apply instrument_seq_other. exact Hn.
    - rewrite IH by assumption. apply instrument_own_ext. intros kd'. apply instrument_other.
      intros E. subst. contradiction.
  Qed.

  Theorem dir_order_independent bs1 bs2 f : NoDup bs1 -> Permutation bs1 bs2 ->
    forall k, instrument_seq bs1 f k = instrument_seq bs2 f k.
  Proof.
    intros ND P [b kd]. assert (ND2 : NoDup bs2) by (eapply Permutation_NoDup; eauto).
    destruct (in_dec String.string_dec b bs1) as [I|NI].
    - rewrite (seq_is_pointwise bs1 ND f b kd I).
      rewrite (seq_is_pointwise bs2 ND2 f b kd (Permutation_in _ P I)). reflexivity.
    - rewrite !instrument_seq_other; [reflexivity| |exact NI].
      intros I. apply NI. eapply Permutation_in; [apply Permutation_sym; exact P|exact I].
  Qed.
End Instrument.

(* non-vacuity: a concrete file system and oracle on which a file is accepted *)
Definition ex_fs : fs := fun k => if key_eqb k ("m", KPy) then Some "x = 1" else None.
Definition ex_transform (b src : string) : option (string * string) := Some ("x = _rt._int_(1)", "{}").
Example ex_accepted : snd (instrument_file (fun _ => true) ex_transform ex_fs "m") = RNone.
Proof. reflexivity. Qed.
