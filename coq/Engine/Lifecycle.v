(* Engine/Lifecycle.v -- process-level model of the engine life cycle (runtime.py:24-80, 636-641;
   run_analysis.py:100-101; the module wrapper emitted by leave_Module).
   A program is a tree of instrumented module executions; each item of a module body is an event of
   that module's code, a raise that escapes the module, an exit(), or the import of another
   instrumented module (whose exception the importer handles or not). *)
From Coq Require Import List Bool Arith Lia.
Import ListNotations.
Open Scope list_scope.

Inductive item := IEv | IRaise | IExit | IImport (body : items) (handled : bool)
with items := INil | ICons (i : item) (r : items).

Inductive note :=
| NBegin (e : nat)        (* begin_execution delivered to the analyses of engine e *)
| NEv (e : nat)           (* some location-carrying hook delivered through engine e *)
| NRe (e : nat)           (* the runtime_event("", -1) that _catch_ delivers before the uncaught report *)
| NUncaught (e : nat)     (* uncaught_exception *)
| NEnd (e : nat)          (* end_execution *)
| NDump (e : nat).        (* coverage file of engine e written *)

Inductive out := ONormal | ORaise | OExit
| OCrash.   (* an exception raised by the engine itself inside _catch_ (coverage accounting of a non-location event) *)

Record proc := { slot : option nat; created : nat; ended : list nat; notes : list note }.
Definition init : proc := {| slot := None; created := 0; ended := []; notes := [] |}.

Section WithCoverage.
Variable cov : bool.   (* DYNAPYT_COVERAGE set? *)

Definition emit (n : list note) (p : proc) : proc :=
  {| slot := slot p; created := created p; ended := ended p; notes := notes p ++ n |}.

(* _rt = RuntimeEngine(): the singleton slot; a new engine loads the analyses and tells them begin *)
Definition get_engine (p : proc) : nat * proc :=
  match slot p with
  | Some e => (e, p)
  | None => let e := created p in
            (e, {| slot := Some e; created := S e; ended := ended p; notes := notes p ++ [NBegin e] |})
  end.

Definition memn (x : nat) (l : list nat) : bool := existsb (Nat.eqb x) l.

(* end_execution of engine e: once-flag, notify, dump, and RuntimeEngine._rt_engine = None
   (the class-level slot is cleared whichever engine it holds) *)
Definition end_exec (e : nat) (p : proc) : proc :=
  if memn e (ended p) then p
  else {| slot := None; created := created p; ended := e :: ended p; notes := notes p ++ [NEnd e; NDump e] |}.

(* _catch_: runtime_event("", -1), uncaught_exception, end_execution, re-raise of the same exception.
   (Coverage accounting skips events that carry no location since fix 61a6cb4, so [cov] no longer matters
   here; OCrash is kept in the outcome type as the way the correspondence stream reports an exception
   raised by the engine itself.) *)
Definition catch (h : nat) (p : proc) : out * proc :=
  if cov then (ORaise, end_exec h (emit [NRe h; NUncaught h] p))
  else (ORaise, end_exec h (emit [NRe h; NUncaught h] p)).

Fixpoint run_item (h : nat) (i : item) (p : proc) : out * proc :=
  match i with
  | IEv => (ONormal, emit [NEv h] p)      (* events go through the module's own _rt handle, ended or not *)
  | IRaise => (ORaise, p)
  | IExit => (OExit, p)
  | IImport body handled =>
    let '(h', p1) := get_engine p in
    let '(o, p2) := run_items h' body p1 in
    match o with
    | ORaise | OCrash =>
      let '(o3, p3) := catch h' p2 in
      match o3 with ORaise => if handled then (ONormal, p3) else (ORaise, p3) | _ => (o3, p3) end
    | _ => (o, p2)
    end
  end
with run_items (h : nat) (is : items) (p : proc) : out * proc :=
  match is with
  | INil => (ONormal, p)
  | ICons i r =>
    let '(o, p1) := run_item h i p in
    match o with ONormal => run_items h r p1 | _ => (o, p1) end
  end.

(* the entry module is itself an instrumented module *)
Definition run_entry (body : items) (p : proc) : out * proc := run_item 0 (IImport body false) p.

End WithCoverage.

Inductive launch := LRunAnalysis | LDirect.

Fixpoint atexit (n : nat) (p : proc) : proc :=     (* handlers run last-registered first *)
  match n with 0 => p | S k => atexit k (end_exec k p) end.

Definition finish (l : launch) (o : out) (p : proc) : proc :=
  let p1 := match l, o with
            | LRunAnalysis, ONormal => match slot p with Some e => end_exec e p | None => p end
            | _, _ => p
            end in
  atexit (created p1) p1.

Definition run_process_cov (cov : bool) (l : launch) (body : items) : out * proc :=
  let '(o, p) := run_entry cov body init in (o, finish l o p).
Definition run_process (l : launch) (body : items) : proc := snd (run_process_cov false l body).

(* ------------------------------------------------------------------ single module *)
Fixpoint no_import (is : items) : bool :=
  match is with INil => true | ICons (IImport _ _) _ => false | ICons _ r => no_import r end.

(* number of events before the first raise / exit, and how the body ends *)
Fixpoint prefix (is : items) : nat * out :=
  match is with
  | INil => (0, ONormal)
  | ICons IEv r => let '(k, o) := prefix r in (S k, o)
  | ICons IRaise _ => (0, ORaise)
  | ICons IExit _ => (0, OExit)
  | ICons (IImport _ _) r => prefix r
  end.

Lemma run_items_flat cov h : forall is p, no_import is = true ->
  run_items cov h is p = (snd (prefix is), emit (repeat (NEv h) (fst (prefix is))) p).
Proof.
  induction is as [|i r IH] using (items_ind) ; intros p H.
  - simpl. unfold emit. rewrite app_nil_r. destruct p; reflexivity.
  - destruct i; simpl in *; try discriminate; try (unfold emit; rewrite app_nil_r; destruct p; reflexivity).
    rewrite (IH _ H). destruct (prefix r) as [k o]. simpl. unfold emit. simpl. rewrite <- app_assoc. reflexivity.
Qed.

Definition tail_of (o : out) : list note :=
  match o with ORaise | OCrash => [NRe 0; NUncaught 0; NEnd 0; NDump 0] | _ => [NEnd 0; NDump 0] end.

(* C12 (single instrumented module, every launch mode, every way out, coverage on or off):
   begin once first, the events, [the uncaught report once], end once last, coverage dumped once after it *)
Theorem single_module_grammar_cov cov l body : no_import body = true ->
  notes (snd (run_process_cov cov l body)) = NBegin 0 :: repeat (NEv 0) (fst (prefix body)) ++ tail_of (snd (prefix body)).
Proof.
  intros H. unfold run_process_cov, run_entry. simpl.
  rewrite (run_items_flat cov 0 body _ H). destruct (prefix body) as [k o]. simpl.
  destruct o, l, cov; simpl; unfold catch, end_exec, emit; simpl; rewrite <- ?app_assoc; reflexivity.
Qed.

Theorem single_module_grammar l body : no_import body = true ->
  notes (run_process l body) = NBegin 0 :: repeat (NEv 0) (fst (prefix body)) ++ tail_of (snd (prefix body)).
Proof. apply single_module_grammar_cov. Qed.

(* what leaves the process is the program's own outcome (ORaise = its own exception re-raised), never an
   exception of the engine *)
Lemma prefix_not_crash : forall is, snd (prefix is) <> OCrash.
Proof.
  induction is as [|i r IH] using items_ind; simpl; [discriminate|].
  destruct i; simpl; try discriminate; [|exact IH]. destruct (prefix r) as [k o]. exact IH.
Qed.

Theorem single_module_outcome cov l body : no_import body = true ->
  fst (run_process_cov cov l body) = snd (prefix body).
Proof.
  intros H. unfold run_process_cov, run_entry. simpl.
  rewrite (run_items_flat cov 0 body _ H). pose proof (prefix_not_crash body) as NC.
  destruct (prefix body) as [k o]. simpl in *. destruct o, cov; try reflexivity; congruence.
Qed.

(* ------------------------------------------------------------------ several modules *)
(* when no exception ever escapes a module, the grammar still holds whatever the import structure *)
Fixpoint no_raise_i (i : item) : bool :=
  match i with IRaise => false | IImport b _ => no_raise b | _ => true end
with no_raise (is : items) : bool :=
  match is with INil => true | ICons i r => no_raise_i i && no_raise r end.

Fixpoint evs_i (i : item) : nat * out :=
  match i with
  | IEv => (1, ONormal) | IRaise => (0, ORaise) | IExit => (0, OExit)
  | IImport b _ => evs b
  end
with evs (is : items) : nat * out :=
  match is with
  | INil => (0, ONormal)
  | ICons i r => let '(k, o) := evs_i i in
                 match o with ONormal => let '(k2, o2) := evs r in (k + k2, o2) | _ => (k, o) end
  end.

Definition steady (p : proc) : Prop := slot p = Some 0 /\ created p = 1 /\ ended p = [].

Lemma steady_emit n p : steady p -> steady (emit n p).
Proof. intros [A [B C]]. repeat split; assumption. Qed.

Scheme item_mut := Induction for item Sort Prop
  with items_mut := Induction for items Sort Prop.
Combined Scheme item_items_ind from item_mut, items_mut.

Lemma emit_nil p : emit [] p = p.
Proof. unfold emit. rewrite app_nil_r. destruct p; reflexivity. Qed.
Lemma emit_emit a b p : emit b (emit a p) = emit (a ++ b) p.
Proof. unfold emit. simpl. rewrite app_assoc. reflexivity. Qed.

Definition quiet (o : out) : Prop := o = ONormal \/ o = OExit.

Lemma multi cov :
  (forall i p, no_raise_i i = true -> steady p ->
     run_item cov 0 i p = (snd (evs_i i), emit (repeat (NEv 0) (fst (evs_i i))) p) /\ quiet (snd (evs_i i)))
  /\ (forall is p, no_raise is = true -> steady p ->
     run_items cov 0 is p = (snd (evs is), emit (repeat (NEv 0) (fst (evs is))) p) /\ quiet (snd (evs is))).
Proof.
  apply item_items_ind.
  - intros p _ _. simpl. split; [reflexivity|left; reflexivity].
  - intros p H. discriminate.
  - intros p _ _. simpl. rewrite emit_nil. split; [reflexivity|right; reflexivity].
  - intros body IH handled p H S. simpl in H. simpl.
    destruct S as [S1 [S2 S3]]. unfold get_engine. rewrite S1.
    destruct (IH p H (conj S1 (conj S2 S3))) as [E N]. rewrite E.
    destruct N as [N|N]; rewrite N; split; try reflexivity; [left|right]; reflexivity.
  - intros p _ _. simpl. rewrite emit_nil. split; [reflexivity|left; reflexivity].
  - intros i IHi r IHr p H S. simpl in H. apply andb_true_iff in H. destruct H as [H1 H2].
    simpl. destruct (IHi p H1 S) as [E N]. rewrite E.
    destruct (evs_i i) as [k o]. simpl in *. destruct N as [N|N]; subst o.
    + destruct (IHr (emit (repeat (NEv 0) k) p) H2 (steady_emit _ _ S)) as [E2 N2]. rewrite E2.
      destruct (evs r) as [k2 o2]. simpl in *. rewrite emit_emit, <- repeat_app. split; [reflexivity|exact N2].
    + split; [reflexivity|right; reflexivity].
Qed.

Theorem multi_module_grammar_partial cov l body : no_raise body = true ->
  notes (snd (run_process_cov cov l body)) = NBegin 0 :: repeat (NEv 0) (fst (evs body)) ++ [NEnd 0; NDump 0].
Proof.
  intros H. unfold run_process_cov, run_entry. simpl.
  set (p1 := {| slot := Some 0; created := 1; ended := []; notes := [NBegin 0] |}).
  assert (S : steady p1) by (repeat split).
  destruct (proj2 (multi cov) body p1 H S) as [E N]. rewrite E.
  destruct (evs body) as [k o]. simpl in *.
  destruct N as [N|N]; subst o; destruct l; simpl; unfold end_exec, emit; simpl; rewrite <- ?app_assoc; reflexivity.
Qed.

(* ---- refutations of the full statement (genuine deviations of the unchanged code, DESIGN 12 #16, #17) *)
(* an exception raised in an imported instrumented module and handled by the importer is reported as
   uncaught, end_execution precedes later events, and the coverage dump misses them *)
Definition w_handled : items :=
  ICons IEv (ICons (IImport (ICons IEv (ICons IRaise INil)) true) (ICons IEv INil)).
Theorem multi_module_refuted_handled :
  notes (run_process LRunAnalysis w_handled)
  = [NBegin 0; NEv 0; NEv 0; NRe 0; NUncaught 0; NEnd 0; NDump 0; NEv 0].
Proof. vm_compute. reflexivity. Qed.

(* an exception escaping through two instrumented modules is reported as uncaught twice *)
Definition w_twice : items := ICons (IImport (ICons IRaise INil) false) INil.
Theorem multi_module_refuted_twice :
  notes (run_process LRunAnalysis w_twice)
  = [NBegin 0; NRe 0; NUncaught 0; NEnd 0; NDump 0; NRe 0; NUncaught 0].
Proof. vm_compute. reflexivity. Qed.

(* non-vacuity of the single-module theorem *)
Example single_ex :
  notes (run_process LDirect (ICons IEv (ICons IEv (ICons IRaise (ICons IEv INil)))))
  = [NBegin 0; NEv 0; NEv 0; NRe 0; NUncaught 0; NEnd 0; NDump 0].
Proof. vm_compute. reflexivity. Qed.
