(* Engine/DispatchProofs.v -- theorems about call_if_exists: order, isolation, coverage counts. *)
From Coq Require Import String List Bool Arith Lia Sorted.
From DV Require Import Base.Util Hooks.Filters Engine.Dispatch.
Import ListNotations.
Open Scope list_scope.

Section Proofs.
  Variable V : Type.
  Variable filt_str : V -> option string.
  Variable as_path : V -> option string.
  Variable is_iid : V -> bool.
  Variable line_of : string -> V -> nat.

  Notation analysis := (analysis V).
  Notation state := (state V).
  Notation delivered := (delivered V filt_str).
  Notation cie_loop := (cie_loop V filt_str as_path is_iid line_of).
  Notation call_if_exists := (call_if_exists V filt_str as_path is_iid line_of).
  Notation run_events := (run_events V filt_str as_path is_iid line_of).
  Notation cov_step := (cov_step V as_path is_iid line_of).

  Definition mkd (f : string) (args : list V) (i : nat) : delivery V :=
    {| d_idx := i; d_hook := f; d_args := args |}.

  (* indices (starting at i) of the analyses that are invoked for this event *)
  Fixpoint sel (i : nat) (l : list analysis) (f : string) (args : list V) : list nat :=
    match l with
    | [] => []
    | a :: r => if delivered a f args then i :: sel (S i) r f args else sel (S i) r f args
    end.

  Lemma cov_step_dels a args st : dels (cov_step a args st) = dels st.
  Proof.
    unfold cov_step. destruct (cov st); [|reflexivity].
    destruct args as [|x [|y r]]; try reflexivity. destruct (as_path x); [|reflexivity].
    destruct (is_iid y); reflexivity.
  Qed.

  Lemma cov_step_none a args st : cov st = None -> cov (cov_step a args st) = None.
  Proof. intros H. unfold cov_step. rewrite H. exact H. Qed.

  Lemma cie_loop_dels : forall l i f args st ret,
    dels (snd (cie_loop i l f args st ret)) = dels st ++ map (mkd f args) (sel i l f args)
    /\ (cov st = None -> cov (snd (cie_loop i l f args st ret)) = None).
  Proof.
    induction l as [|a r IH]; intros i f args st ret; simpl.
    - rewrite app_nil_r. auto.
    - destruct (delivered a f args) eqn:D.
      + set (st1 := {| dels := dels st ++ [ {| d_idx := i; d_hook := f; d_args := args |} ]; cov := cov st |}).
        destruct (IH (S i) f args (cov_step a args st1) (a_react a (own V i (dels st)) f args)) as [I1 I3].
        split.
        * rewrite I1, cov_step_dels. subst st1. simpl. rewrite <- app_assoc. reflexivity.
        * intros Hn. apply I3. apply cov_step_none. exact Hn.
      + apply IH.
  Qed.

  (* ---- C10: within one event the analyses are invoked in list order *)
  Lemma sel_ge : forall l i f args j, In j (sel i l f args) -> i <= j.
  Proof.
    induction l as [|a r IH]; intros i f args j H; simpl in H; [contradiction|].
    destruct (delivered a f args).
    - destruct H as [<-|H]; [lia|]. apply IH in H. lia.
    - apply IH in H. lia.
  Qed.

  Theorem sel_sorted : forall l i f args, StronglySorted lt (sel i l f args).
  Proof.
    induction l as [|a r IH]; intros i f args; simpl; [constructor|].
    destruct (delivered a f args); [|apply IH].
    constructor; [apply IH|]. apply Forall_forall. intros j Hj. apply sel_ge in Hj. lia.
  Qed.

  Lemma sel_In : forall l i f args j,
    In j (sel i l f args) <-> exists a, nth_error l (j - i) = Some a /\ i <= j /\ delivered a f args = true.
  Proof.
    induction l as [|a r IH]; intros i f args j; simpl.
    - split; [contradiction|]. intros [a [H _]]. destruct (j - i); discriminate.
    - destruct (delivered a f args) eqn:D.
      + split.
        * intros [<-|H]. { exists a. rewrite Nat.sub_diag. auto. }
          apply IH in H. destruct H as [b [H1 [H2 H3]]]. exists b.
          replace (j - i) with (S (j - S i)) by lia. simpl. split; [exact H1|split; [lia|exact H3]].
        * intros [b [H1 [H2 H3]]]. destruct (Nat.eq_dec i j) as [->|N]; [left; reflexivity|right].
          apply IH. exists b. replace (j - i) with (S (j - S i)) in H1 by lia. simpl in H1. split; [exact H1|split; [lia|exact H3]].
      + split.
        * intros H. apply IH in H. destruct H as [b [H1 [H2 H3]]]. exists b.
          replace (j - i) with (S (j - S i)) by lia. simpl. split; [exact H1|split; [lia|exact H3]].
        * intros [b [H1 [H2 H3]]]. apply IH. destruct (Nat.eq_dec i j) as [->|N].
          { rewrite Nat.sub_diag in H1. simpl in H1. inversion H1; subst. congruence. }
          exists b. replace (j - i) with (S (j - S i)) in H1 by lia. simpl in H1. split; [exact H1|split; [lia|exact H3]].
  Qed.

  (* ---- deliveries of a whole run *)
  Definition ev_dels (l : list analysis) (e : string * list V) : list (delivery V) :=
    map (mkd (fst e) (snd e)) (sel 0 l (fst e) (snd e)).

  (* coverage on or off, the deliveries of a run are the same function of the events: enabling coverage
     never changes what is delivered and cannot make the engine fail *)
  Theorem run_events_dels : forall l es st,
    dels (run_events l es st) = dels st ++ flat_map (ev_dels l) es
    /\ (cov st = None -> cov (run_events l es st) = None).
  Proof.
    intros l es. induction es as [|e r IH]; intros st; simpl.
    - rewrite app_nil_r. auto.
    - destruct (cie_loop_dels l 0 (fst e) (snd e) st None) as [I1 I3].
      unfold run_events in *. simpl. unfold call_if_exists at 2. unfold call_if_exists at 3.
      set (st1 := snd (cie_loop 0 l (fst e) (snd e) st None)) in *.
      destruct (IH st1) as [J1 J3]. split.
      + rewrite J1, I1. rewrite <- app_assoc. reflexivity.
      + intros Hn. apply J3. apply I3. exact Hn.
  Qed.

  (* ---- C10 isolation: what analysis number i receives is what it receives when it is alone *)
  Lemma own_app i (a b : list (delivery V)) : own V i (a ++ b) = own V i a ++ own V i b.
  Proof. unfold own. apply filter_app. Qed.

  Lemma own_map_mkd i f args js :
    own V i (map (mkd f args) js) = map (mkd f args) (filter (fun j => Nat.eqb j i) js).
  Proof.
    induction js as [|j r IH]; simpl; [reflexivity|].
    destruct (Nat.eqb j i); simpl; rewrite IH; reflexivity.
  Qed.

  Lemma sel_filter_idx : forall l k f args i a,
    nth_error l i = Some a ->
    filter (fun j => Nat.eqb j (k + i)) (sel k l f args) = if delivered a f args then [k + i] else [].
  Proof.
    induction l as [|b r IH]; intros k f args i a H; [destruct i; discriminate|].
    simpl. destruct i as [|i]; simpl in H.
    - inversion H; subst b. rewrite Nat.add_0_r.
      assert (E : filter (fun j => Nat.eqb j k) (sel (S k) r f args) = []).
      { clear. assert (G : forall j, In j (sel (S k) r f args) -> Nat.eqb j k = false).
        { intros j Hj. apply sel_ge in Hj. apply Nat.eqb_neq. lia. }
        induction (sel (S k) r f args) as [|x xs IHx]; [reflexivity|]. simpl.
        rewrite (G x (or_introl eq_refl)). apply IHx. intros j Hj. apply G. right. exact Hj. }
      destruct (delivered a f args); simpl; [rewrite Nat.eqb_refl|]; rewrite E; reflexivity.
    - specialize (IH (S k) f args i a H). replace (S k + i) with (k + S i) in IH by lia.
      destruct (delivered b f args); simpl; [|exact IH].
      assert (N : Nat.eqb k (k + S i) = false) by (apply Nat.eqb_neq; lia). rewrite N. exact IH.
  Qed.

  Definition set_idx (i : nat) (d : delivery V) : delivery V :=
    {| d_idx := i; d_hook := d_hook d; d_args := d_args d |}.

  Lemma own_ev_dels l e i a : nth_error l i = Some a ->
    own V i (ev_dels l e) = map (set_idx i) (ev_dels [a] e).
  Proof.
    intros H. unfold ev_dels. rewrite own_map_mkd.
    pose proof (sel_filter_idx l 0 (fst e) (snd e) i a H) as E. simpl in E. rewrite E. simpl.
    destruct (delivered a (fst e) (snd e)); reflexivity.
  Qed.

  Lemma own_flat l es i a : nth_error l i = Some a ->
    own V i (flat_map (ev_dels l) es) = map (set_idx i) (flat_map (ev_dels [a]) es).
  Proof.
    intros H. induction es as [|e r IH]; simpl; [reflexivity|].
    rewrite own_app, map_app, IH, (own_ev_dels l e i a H). reflexivity.
  Qed.

  Theorem isolation : forall l es i a coverage,
    nth_error l i = Some a ->
    own V i (dels (run_events l es (init_state V coverage)))
    = map (set_idx i) (dels (run_events [a] es (init_state V coverage))).
  Proof.
    intros l es i a c H.
    destruct (run_events_dels l es (init_state V c)) as [I1 _].
    destruct (run_events_dels [a] es (init_state V c)) as [J1 _].
    rewrite I1, J1. simpl. apply own_flat. exact H.
  Qed.

  (* ---- C13: coverage counts equal the number of location-carrying deliveries *)
  Notation key := (string * nat * string)%type.

  Lemma key_eqb_spec (a b : key) : reflect (a = b) (key_eqb a b).
  Proof.
    destruct a as [[f1 l1] c1], b as [[f2 l2] c2]. unfold key_eqb.
    destruct (String.eqb_spec f1 f2), (Nat.eqb_spec l1 l2), (String.eqb_spec c1 c2); simpl;
      constructor; congruence.
  Qed.

  Lemma cov_get_incr k k' m : cov_get k (cov_incr k' m) = cov_get k m + (if key_eqb k k' then 1 else 0).
  Proof.
    induction m as [|[k2 n] r IH]; simpl.
    - destruct (key_eqb k k'); reflexivity.
    - destruct (key_eqb_spec k' k2) as [->|N]; simpl.
      + destruct (key_eqb_spec k k2); lia.
      + destruct (key_eqb_spec k k2) as [->|N2].
        * destruct (key_eqb_spec k2 k'); [congruence|lia].
        * exact IH.
  Qed.

  (* the coverage key of a delivery, given the analysis list *)
  Definition d_key (l : list analysis) (d : delivery V) : option key :=
    match d_args d, nth_error l (d_idx d) with
    | a :: b :: _, Some an =>
      match as_path a with Some p => if is_iid b then Some (p, line_of p b, a_cls an) else None | None => None end
    | _, _ => None
    end.
  Definition count_key (l : list analysis) (k : key) (ds : list (delivery V)) : nat :=
    count_occ_b (fun d => match d_key l d with Some k' => key_eqb k k' | None => false end) ds.

  Definition cov_of (st : state) : covmap := match cov st with Some m => m | None => [] end.

  Lemma cie_loop_cov : forall L l i f args st ret m,
    (forall j a, nth_error l j = Some a -> nth_error L (i + j) = Some a) ->
    cov st = Some m ->
    exists m', cov (snd (cie_loop i l f args st ret)) = Some m' /\
      forall k, cov_get k m' = cov_get k m + count_key L k (map (mkd f args) (sel i l f args)).
  Proof.
    intros L. induction l as [|a r IH]; intros i f args st ret m HL Hm; simpl.
    - exists m. split; [exact Hm|]. intros k. unfold count_key. simpl. lia.
    - destruct (delivered a f args) eqn:D.
      + set (st1 := {| dels := dels st ++ [ {| d_idx := i; d_hook := f; d_args := args |} ]; cov := cov st |}).
        assert (HL' : forall j b, nth_error r j = Some b -> nth_error L (S i + j) = Some b).
        { intros j b Hj. replace (S i + j) with (i + S j) by lia. apply HL. exact Hj. }
        assert (Ha : nth_error L i = Some a) by (specialize (HL 0 a eq_refl); rewrite Nat.add_0_r in HL; exact HL).
        (* the coverage key of this delivery, if any *)
        assert (Hk : exists m1, cov (cov_step a args st1) = Some m1 /\
                  forall k, cov_get k m1 = cov_get k m +
                     (if match d_key L (mkd f args i) with Some k' => key_eqb k k' | None => false end then 1 else 0)).
        { unfold cov_step. simpl. rewrite Hm. unfold d_key, mkd. simpl. rewrite Ha.
          destruct args as [|x [|y rest]]; try (exists m; split; [exact Hm|intros k; lia]).
          destruct (as_path x) as [p|]; [|exists m; split; [exact Hm|intros k; lia]].
          destruct (is_iid y); [|exists m; split; [exact Hm|intros k; lia]].
          eexists. split; [reflexivity|]. intros k. apply cov_get_incr. }
        destruct Hk as [m1 [E1 E2]].
        destruct (IH (S i) f args (cov_step a args st1) (a_react a (own V i (dels st)) f args) m1 HL' E1) as [m' [M1 M2]].
        exists m'. split; [exact M1|]. intros k. rewrite M2, E2. unfold count_key. simpl. lia.
      + apply IH; try assumption. intros j b Hj. replace (S i + j) with (i + S j) by lia. apply HL. exact Hj.
  Qed.

  Theorem coverage_counts : forall l es st m,
    cov st = Some m ->
    exists m', cov (run_events l es st) = Some m' /\
      forall k, cov_get k m' = cov_get k m + count_key l k (flat_map (ev_dels l) es).
  Proof.
    intros l es. induction es as [|e r IH]; intros st m Hm; simpl.
    - exists m. split; [exact Hm|]. intros k. unfold count_key. simpl. lia.
    - destruct (cie_loop_cov l l 0 (fst e) (snd e) st None m (fun j a H => H) Hm) as [m1 [M1 M2]].
      unfold run_events in *. simpl. unfold call_if_exists at 2.
      destruct (IH _ m1 M1) as [m' [N1 N2]].
      exists m'. split; [exact N1|]. intros k. rewrite N2, M2.
      unfold count_key, ev_dels. rewrite count_occ_b_app. lia.
  Qed.

  (* ---- C11 at engine level: filtering removes deliveries, never adds or alters them *)
  Definition unfilter (a : analysis) : analysis :=
    {| a_cls := a_cls a; a_doc := fun f => match a_doc a f with Some _ => Some None | None => None end; a_react := a_react a |}.

  Lemma delivered_unfilter a f args : delivered a f args = true -> delivered (unfilter a) f args = true.
  Proof.
    unfold Dispatch.delivered, unfilter. simpl. destruct (a_doc a f); [|discriminate]. intros _.
    simpl. apply orb_true_r.
  Qed.

  Lemma ev_dels_filter a e :
    ev_dels [a] e = if delivered a (fst e) (snd e) then ev_dels [unfilter a] e else [].
  Proof.
    unfold ev_dels. simpl. destruct (delivered a (fst e) (snd e)) eqn:D; [|reflexivity].
    rewrite (delivered_unfilter a _ _ D). reflexivity.
  Qed.

  (* the filtered stream is the unfiltered stream with some whole events removed *)
  Theorem filter_subsequence a es :
    flat_map (ev_dels [a]) es = flat_map (ev_dels [unfilter a]) (filter (fun e => delivered a (fst e) (snd e)) es).
  Proof.
    induction es as [|e r IH]; simpl; [reflexivity|].
    rewrite ev_dels_filter. destruct (delivered a (fst e) (snd e)); simpl; rewrite IH; reflexivity.
  Qed.
End Proofs.
