(* Engine/Modules.v -- attribution of events in a program made of several files, some of them instrumented.

   What the program does is a sequence of steps (f, c): construct c of file f executes (f indexes the files of
   the program; c is the id of the construct within its file).  A file is instrumented or not ([S f]).  The
   events an analysis receives are the steps of instrumented files, each carrying the path of ITS file.
   The correspondence check obtains the step sequence from the run in which every file is instrumented (and
   from the interpreter's own frames) and compares the deliveries of every other subset with [delivered]. *)
From Coq Require Import List Arith Bool.
Import ListNotations.

Definition step := (nat * nat)%type.                 (* file index, construct id *)

Definition delivered (S : nat -> bool) (tr : list step) : list step := filter (fun e => S (fst e)) tr.

Definition all_files : nat -> bool := fun _ => true.
Definition no_file : nat -> bool := fun _ => false.

Lemma delivered_all tr : delivered all_files tr = tr.
Proof. induction tr as [|e r IH]; [reflexivity|]. unfold delivered in *. cbn. rewrite IH. reflexivity. Qed.
Lemma delivered_none tr : delivered no_file tr = [].
Proof. induction tr as [|e r IH]; [reflexivity|]. unfold delivered in *. cbn. exact IH. Qed.

(* events are produced only by instrumented files, and each is a step of the program (it carries the file whose
   code executed) *)
Lemma only_instrumented S tr e : In e (delivered S tr) -> S (fst e) = true /\ In e tr.
Proof. unfold delivered. rewrite filter_In. intros [Hin HS]. split; assumption. Qed.

(* the deliveries of a subset are the deliveries of the fully instrumented program restricted to that subset *)
Lemma projection S tr : delivered S tr = filter (fun e => S (fst e)) (delivered all_files tr).
Proof. rewrite delivered_all. reflexivity. Qed.

(* what file f0 reports does not depend on which OTHER files are instrumented *)
Lemma filter_filter {A} (p q : A -> bool) l : filter p (filter q l) = filter (fun x => q x && p x) l.
Proof. induction l as [|x r IH]; [reflexivity|]. cbn. destruct (q x); cbn; [destruct (p x)|]; rewrite IH; reflexivity. Qed.
Lemma independent S S' f0 tr : S f0 = S' f0 ->
  filter (fun e => Nat.eqb (fst e) f0) (delivered S tr) = filter (fun e => Nat.eqb (fst e) f0) (delivered S' tr).
Proof.
  intros E. unfold delivered. rewrite !filter_filter. apply filter_ext. intros [f c]. cbn.
  destruct (Nat.eqb_spec f f0) as [->|]; [rewrite E; reflexivity|rewrite !andb_false_r; reflexivity].
Qed.

(* instrumenting more files only adds events, in place: the deliveries of a smaller selection are those of a
   larger one restricted to it (in particular their relative order is kept) *)
Lemma monotone S S' tr : (forall f, S f = true -> S' f = true) ->
  delivered S tr = filter (fun e => S (fst e)) (delivered S' tr).
Proof.
  intros Hsub. unfold delivered. rewrite filter_filter. apply filter_ext. intros [f c]. cbn.
  destruct (S f) eqn:E; [rewrite (Hsub f E); reflexivity|rewrite andb_false_r; reflexivity].
Qed.

(* executable checker used by the correspondence stream: the observed deliveries of a subset (as steps) are what
   the model computes from the fully instrumented run *)
Definition step_eqb (x y : step) : bool := Nat.eqb (fst x) (fst y) && Nat.eqb (snd x) (snd y).
Fixpoint steps_eqb (a b : list step) : bool :=
  match a, b with
  | [], [] => true
  | x :: a', y :: b' => step_eqb x y && steps_eqb a' b'
  | _, _ => false
  end.
Definition ok_subset (full : list step) (sel : list nat) (observed : list step) : bool :=
  steps_eqb (delivered (fun f => existsb (Nat.eqb f) sel) full) observed.
