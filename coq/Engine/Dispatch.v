(* Engine/Dispatch.v -- model of RuntimeEngine.call_if_exists (runtime.py:114-165):
   per-analysis method lookup, docstring filter, invocation, return value of the LAST invoked
   analysis, coverage accounting.  Generic in the value type V. *)
From Coq Require Import String List Bool Arith Lia.
From DV Require Import Base.Util Hooks.Filters Gen.Consts.
Import ListNotations.
Open Scope string_scope.
Open Scope list_scope.

Section Engine.
  Variable V : Type.
  (* str(arg) for int/str/float/bool arguments, __name__ for functions/builtins/bound methods; None otherwise *)
  Variable filt_str : V -> option string.
  (* args[0] as a path if it is a non-empty str, and "args[1] is an int": coverage is accounted only for
     location-carrying events (runtime.py: isinstance guards in call_if_exists) *)
  Variable as_path : V -> option string.
  Variable is_iid : V -> bool.
  (* iid_to_location[iid].start_line of the id map of that file; KeyError -> 0 *)
  Variable line_of : string -> V -> nat.

  Record delivery := { d_idx : nat; d_hook : string; d_args : list V }.

  Record analysis := {
    a_cls : string;                                      (* analysis.__class__.__name__ *)
    a_doc : string -> option (option string);            (* None = no such method; Some doc = method with __doc__ *)
    a_react : list delivery -> string -> list V -> option V   (* own history -> hook -> args -> return value *)
  }.

  Definition covmap := list ((string * nat * string) * nat).
  Definition key_eqb (a b : string * nat * string) : bool :=
    let '(f1, l1, c1) := a in let '(f2, l2, c2) := b in String.eqb f1 f2 && Nat.eqb l1 l2 && String.eqb c1 c2.
  Fixpoint cov_get (k : string * nat * string) (m : covmap) : nat :=
    match m with [] => 0 | (k', n) :: r => if key_eqb k k' then n else cov_get k r end.
  Fixpoint cov_incr (k : string * nat * string) (m : covmap) : covmap :=
    match m with
    | [] => [(k, 1)]
    | (k', n) :: r => if key_eqb k k' then (k', S n) :: r else (k', n) :: cov_incr k r
    end.

  Record state := { dels : list delivery; cov : option covmap }.
  Definition init_state (coverage : bool) : state :=
    {| dels := []; cov := if coverage then Some [] else None |}.

  Definition is_dunder (f : string) : bool := prefixb "__" f && suffixb "__" f.

  Fixpoint filter_map {A B} (g : A -> option B) (l : list A) : list B :=
    match l with [] => [] | x :: r => match g x with Some y => y :: filter_map g r | None => filter_map g r end end.

  Definition is_filtered (doc : option string) (f : string) (args : list V) : bool :=
    match doc with
    | None => false
    | Some d =>
      if negb (scontains flt_start d) then false
      else if is_dunder f then false
      else filtered d (filter_map filt_str (skipn 2 args))
    end.

  Definition delivered (a : analysis) (f : string) (args : list V) : bool :=
    match a_doc a f with
    | None => false
    | Some doc => Nat.ltb (length args) 2 || negb (is_filtered doc f args)
    end.

  Definition own (i : nat) (ds : list delivery) : list delivery := filter (fun d => Nat.eqb (d_idx d) i) ds.

  Definition cov_step (a : analysis) (args : list V) (st : state) : state :=
    match cov st with
    | None => st
    | Some m =>
      match args with
      | r_file :: iid :: _ =>
        match as_path r_file with
        | None => st
        | Some p => if is_iid iid then {| dels := dels st; cov := Some (cov_incr (p, line_of p iid, a_cls a) m) |} else st
        end
      | _ => st
      end
    end.

  Fixpoint cie_loop (i : nat) (l : list analysis) (f : string) (args : list V) (st : state) (ret : option V)
    : option V * state :=
    match l with
    | [] => (ret, st)
    | a :: r =>
      if delivered a f args then
        let rv := a_react a (own i (dels st)) f args in
        let st1 := {| dels := dels st ++ [ {| d_idx := i; d_hook := f; d_args := args |} ]; cov := cov st |} in
        cie_loop (S i) r f args (cov_step a args st1) rv
      else cie_loop (S i) r f args st ret
    end.

  Definition call_if_exists (l : list analysis) (f : string) (args : list V) (st : state) : option V * state :=
    cie_loop 0 l f args st None.

  (* a run of the engine over a sequence of events (hook, args) *)
  Definition run_events (l : list analysis) (es : list (string * list V)) (st : state) : state :=
    fold_left (fun s e => snd (call_if_exists l (fst e) (snd e) s)) es st.

  Definition observing (a : analysis) : Prop := forall h f args, a_react a h f args = None.

  (* analyses whose hooks return nothing never make the engine return a value *)
  Lemma cie_loop_observing (l : list analysis) : Forall observing l ->
    forall i f args st, fst (cie_loop i l f args st None) = None.
  Proof.
    induction l as [|a r IH]; intros Hall i f args st; [reflexivity|].
    inversion Hall as [|a' r' Ha Hr]; subst. cbn [cie_loop].
    destruct (delivered a f args); [rewrite Ha|]; apply IH; exact Hr.
  Qed.
  Lemma call_if_exists_observing (l : list analysis) f args st : Forall observing l ->
    fst (call_if_exists l f args st) = None.
  Proof. intros Hall. unfold call_if_exists. apply cie_loop_observing; exact Hall. Qed.
End Engine.

Arguments d_idx {V}. Arguments d_hook {V}. Arguments d_args {V}.
Arguments a_cls {V}. Arguments a_doc {V}. Arguments a_react {V}.
Arguments dels {V}. Arguments cov {V}.
