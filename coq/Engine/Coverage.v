(* Engine/Coverage.v -- model of utils/runtimeUtils.py: merge_coverage, gather_coverage.
   A coverage file is a nested dict file -> line -> analysis -> count; the runtime never creates an
   empty inner dict, so the nested structure is isomorphic to a flat map keyed by the triple
   (file, line as JSON string, analysis), in insertion order. *)
From Coq Require Import String List Bool Arith Lia Permutation.
From DV Require Import Base.Util.
Import ListNotations.
Open Scope list_scope.

Definition ckey := (string * string * string)%type.
Definition ckey_eqb (a b : ckey) : bool :=
  let '(f1, l1, c1) := a in let '(f2, l2, c2) := b in String.eqb f1 f2 && String.eqb l1 l2 && String.eqb c1 c2.
Definition cmap := list (ckey * nat).

Fixpoint cget (k : ckey) (m : cmap) : nat :=
  match m with [] => 0 | (k', n) :: r => if ckey_eqb k k' then n else cget k r end.
(* base[file][line][analysis] += count, creating the entries when absent *)
Fixpoint cadd (k : ckey) (c : nat) (m : cmap) : cmap :=
  match m with
  | [] => [(k, c)]
  | (k', n) :: r => if ckey_eqb k k' then (k', n + c) :: r else (k', n) :: cadd k c r
  end.

(* merge_coverage(base, new): iterate new in its own order *)
Definition merge (base new : cmap) : cmap := fold_left (fun b e => cadd (fst e) (snd e) b) new base.
(* gather_coverage: start from {} and merge every coverage-*.json file in glob order *)
Definition gather (files : list cmap) : cmap := fold_left merge files [].

(* a file as written by json.dump has distinct keys *)
Fixpoint keys_distinct (m : cmap) : bool :=
  match m with [] => true | (k, _) :: r => negb (existsb (fun e => ckey_eqb k (fst e)) r) && keys_distinct r end.

(* ------------------------------------------------------------------ theorems *)
Lemma ckey_eqb_spec (a b : ckey) : reflect (a = b) (ckey_eqb a b).
Proof.
  destruct a as [[f1 l1] c1], b as [[f2 l2] c2]. unfold ckey_eqb.
  destruct (String.eqb_spec f1 f2), (String.eqb_spec l1 l2), (String.eqb_spec c1 c2); simpl; constructor; congruence.
Qed.

Lemma cget_cadd k k' c m : cget k (cadd k' c m) = cget k m + (if ckey_eqb k k' then c else 0).
Proof.
  induction m as [|[k2 n] r IH]; simpl.
  - destruct (ckey_eqb k k'); lia.
  - destruct (ckey_eqb_spec k' k2) as [->|N]; simpl.
    + destruct (ckey_eqb_spec k k2); lia.
    + destruct (ckey_eqb_spec k k2) as [->|N2].
      * destruct (ckey_eqb_spec k2 k'); [congruence|lia].
      * exact IH.
Qed.

(* total count of key k in a list of entries (a file with possibly repeated keys) *)
Fixpoint csum (k : ckey) (m : cmap) : nat :=
  match m with [] => 0 | (k', n) :: r => (if ckey_eqb k k' then n else 0) + csum k r end.

Lemma cget_merge k new : forall base, cget k (merge base new) = cget k base + csum k new.
Proof.
  unfold merge. induction new as [|[k' n] r IH]; intros base; simpl; [lia|].
  rewrite IH, cget_cadd. lia.
Qed.

Lemma csum_distinct k m : keys_distinct m = true -> csum k m = cget k m.
Proof.
  induction m as [|[k' n] r IH]; simpl; [reflexivity|]. intros H.
  apply andb_true_iff in H. destruct H as [H1 H2]. rewrite (IH H2).
  destruct (ckey_eqb_spec k k') as [->|N]; [|reflexivity].
  assert (E : cget k' r = 0).
  { clear IH H2. induction r as [|[k2 n2] r2 IHr]; simpl in *; [reflexivity|].
    apply negb_true_iff in H1. apply orb_false_iff in H1. destruct H1 as [A B].
    rewrite A. apply IHr. apply negb_true_iff. exact B. }
  lia.
Qed.

(* C13: merging is the element-wise sum *)
Theorem merge_sum k base new : keys_distinct new = true -> cget k (merge base new) = cget k base + cget k new.
Proof. intros H. rewrite cget_merge, (csum_distinct k new H). reflexivity. Qed.

Definition total (k : ckey) (files : list cmap) : nat := fold_right (fun f acc => csum k f + acc) 0 files.

Lemma cget_gather_from k files : forall base, cget k (fold_left merge files base) = cget k base + total k files.
Proof.
  induction files as [|f r IH]; intros base; simpl; [lia|]. rewrite IH, cget_merge. lia.
Qed.

Theorem gather_sum k files : cget k (gather files) = total k files.
Proof. unfold gather. rewrite cget_gather_from. reflexivity. Qed.

Lemma total_perm k f1 f2 : Permutation f1 f2 -> total k f1 = total k f2.
Proof. induction 1; simpl; lia. Qed.

(* C13: the merged result does not depend on the order in which the files are merged *)
Theorem gather_order_independent files1 files2 :
  Permutation files1 files2 -> forall k, cget k (gather files1) = cget k (gather files2).
Proof. intros P k. rewrite !gather_sum. apply total_perm. exact P. Qed.

Theorem merge_comm a b k : cget k (merge (merge [] a) b) = cget k (merge (merge [] b) a).
Proof. rewrite !cget_merge. simpl. lia. Qed.

Theorem merge_assoc a b c k :
  cget k (merge (merge (merge [] a) b) c) = cget k (merge (merge [] a) (merge (merge [] b) c)).
Proof.
  rewrite !cget_merge. simpl.
  assert (E : forall m, csum k (merge [] m) = csum k m -> True) by auto.
  assert (S : forall base new, keys_distinct base = true -> keys_distinct (merge base new) = true).
  { intros base new. unfold merge. revert base. induction new as [|[k' n] r IH]; intros base Hb; simpl; [exact Hb|].
    apply IH. clear IH. induction base as [|[k2 n2] r2 IHb]; simpl; [reflexivity|].
    simpl in Hb. apply andb_true_iff in Hb. destruct Hb as [H1 H2].
    destruct (ckey_eqb_spec k' k2) as [->|N]; simpl.
    - rewrite H1, H2. reflexivity.
    - rewrite (IHb H2). rewrite andb_true_r. apply negb_true_iff. apply negb_true_iff in H1.
      clear IHb H2. induction r2 as [|[k3 n3] r3 IH3]; simpl in *.
      + destruct (ckey_eqb_spec k2 k'); [congruence|reflexivity].
      + apply orb_false_iff in H1. destruct H1 as [A B].
        destruct (ckey_eqb_spec k' k3) as [->|N3]; simpl; [rewrite A, B; reflexivity|].
        rewrite A. simpl. apply IH3. exact B. }
  assert (D : keys_distinct (merge (merge [] b) c) = true) by (apply S, S; reflexivity).
  rewrite (csum_distinct k _ D), !cget_merge. simpl. lia.
Qed.

Example merge_ex :
  merge [(("f","1","A"), 2)] [(("f","1","A"), 3); (("f","2","B"), 1)] = [(("f","1","A"), 5); (("f","2","B"), 1)].
Proof. reflexivity. Qed.
