(* Engine/Interleave.v -- interleaved activities (threads / generator consumers) at event granularity.
   The only engine state a runtime call writes is the coverage table (and the current_file cache, which
   is re-established inside the atomic section that uses it); an atomic section is "invoke one analysis
   on one event, then account coverage for it" (runtime.py:141-164).  The switch points are the hook
   invocations, so a schedule is any interleaving of the activities' sequences of atomic sections. *)
From Coq Require Import String List Bool Arith Lia.
From DV Require Import Base.Util Engine.Dispatch Engine.DispatchProofs.
Import ListNotations.
Open Scope list_scope.

Section Interleave.
  Variable S : Type.                                  (* an atomic section: (analysis, event), abstractly *)
  Variable act : S -> nat.                            (* the activity that executes it *)
  Variable deliv : S -> bool.                         (* is the analysis invoked (method exists, not filtered) -- pure *)
  Variable keyof : S -> option (string * nat * string). (* coverage key (file, line, analysis class) if location-carrying *)

  Record ist := { idels : list S; icov : covmap }.
  Definition istep (st : ist) (s : S) : ist :=
    if deliv s then
      {| idels := idels st ++ [s];
         icov := match keyof s with Some k => cov_incr k (icov st) | None => icov st end |}
    else st.
  Definition iexec (m : list S) : ist := fold_left istep m {| idels := []; icov := [] |}.

  (* m is an interleaving of the activities acts: it contains exactly their sections, each activity's in order *)
  Definition interleaving (acts : list (list S)) (m : list S) : Prop :=
    (forall s, In s m -> act s < length acts) /\
    (forall t, filter (fun s => Nat.eqb (act s) t) m = nth t acts []).

  Lemma iexec_dels_from m : forall st, idels (fold_left istep m st) = idels st ++ filter deliv m.
  Proof.
    induction m as [|s r IH]; intros st; simpl; [rewrite app_nil_r; reflexivity|].
    rewrite IH. unfold istep. destruct (deliv s); simpl; [rewrite <- app_assoc|]; reflexivity.
  Qed.
  Lemma iexec_dels m : idels (iexec m) = filter deliv m.
  Proof. unfold iexec. rewrite iexec_dels_from. reflexivity. Qed.

  Lemma filter_comm {A} (p q : A -> bool) l : filter p (filter q l) = filter q (filter p l).
  Proof. induction l as [|x r IH]; simpl; [reflexivity|]. destruct (p x) eqn:P, (q x) eqn:Q; simpl; rewrite ?P, ?Q, IH; reflexivity. Qed.

  (* C15 (events): under every schedule each activity contributes exactly the deliveries of its solo run, in order *)
  Theorem per_activity_trace acts m t : interleaving acts m ->
    filter (fun s => Nat.eqb (act s) t) (idels (iexec m)) = idels (iexec (nth t acts [])).
  Proof.
    intros [_ H]. rewrite !iexec_dels, filter_comm, H. reflexivity.
  Qed.

  Definition hit (k : string * nat * string) (s : S) : bool :=
    deliv s && match keyof s with Some k' => key_eqb k k' | None => false end.

  Lemma iexec_cov_from k m : forall st, cov_get k (icov (fold_left istep m st)) = cov_get k (icov st) + count_occ_b (hit k) m.
  Proof.
    induction m as [|s r IH]; intros st; simpl; [lia|].
    rewrite IH. unfold istep, hit. destruct (deliv s); simpl; [|lia].
    destruct (keyof s) as [k'|]; simpl; [|lia]. rewrite (cov_get_incr k k'). lia.
  Qed.
  Lemma iexec_cov k m : cov_get k (icov (iexec m)) = count_occ_b (hit k) m.
  Proof. unfold iexec. rewrite iexec_cov_from. reflexivity. Qed.

  Fixpoint sum_upto (n : nat) (g : nat -> nat) : nat := match n with 0 => 0 | Datatypes.S k => sum_upto k g + g k end.

  Lemma sum_upto_ext n g h : (forall t, t < n -> g t = h t) -> sum_upto n g = sum_upto n h.
  Proof. induction n as [|n IH]; intros H; simpl; [reflexivity|]. rewrite IH by (intros; apply H; lia). rewrite H by lia. reflexivity. Qed.

  Lemma sum_upto_ind1 n x : x < n -> sum_upto n (fun t => if Nat.eqb x t then 1 else 0) = 1.
  Proof.
    induction n as [|n IH]; intros H; [lia|]. simpl. destruct (Nat.eq_dec x n) as [->|N].
    - rewrite Nat.eqb_refl. assert (E : sum_upto n (fun t => if Nat.eqb n t then 1 else 0) = 0).
      { clear. assert (G : forall k, k <= n -> sum_upto k (fun t => if Nat.eqb n t then 1 else 0) = 0).
        { induction k as [|k IHk]; intros Hk; simpl; [reflexivity|]. rewrite IHk by lia.
          destruct (Nat.eqb_spec n k); [lia|reflexivity]. }
        apply G. lia. }
      lia.
    - rewrite IH by lia. destruct (Nat.eqb_spec x n); [congruence|lia].
  Qed.

  Lemma sum_upto_add n g h : sum_upto n (fun t => g t + h t) = sum_upto n g + sum_upto n h.
  Proof. induction n as [|n IH]; simpl; [reflexivity|]. rewrite IH. lia. Qed.

  Lemma count_split (p : S -> bool) n m : (forall s, In s m -> act s < n) ->
    count_occ_b p m = sum_upto n (fun t => count_occ_b p (filter (fun s => Nat.eqb (act s) t) m)).
  Proof.
    induction m as [|s r IH]; intros H; simpl.
    - clear. induction n as [|n IHn]; simpl; [reflexivity|]. rewrite <- IHn. reflexivity.
    - assert (Hs : act s < n) by (apply H; left; reflexivity).
      rewrite (sum_upto_ext n
        (fun t => count_occ_b p (if Nat.eqb (act s) t then s :: filter (fun s0 => Nat.eqb (act s0) t) r else filter (fun s0 => Nat.eqb (act s0) t) r))
        (fun t => (if Nat.eqb (act s) t then (if p s then 1 else 0) else 0) + count_occ_b p (filter (fun s0 => Nat.eqb (act s0) t) r))).
      + rewrite sum_upto_add, <- IH by (intros s' Hs'; apply H; right; exact Hs'). f_equal. destruct (p s).
        * rewrite (sum_upto_ind1 n (act s) Hs). reflexivity.
        * clear. induction n as [|n IHn]; simpl; [reflexivity|]. rewrite <- IHn. destruct (Nat.eqb (act s) n); reflexivity.
      + intros t _. destruct (Nat.eqb (act s) t); simpl; reflexivity.
  Qed.

  (* C15 (coverage): under every schedule the final count of every key is the sum of the solo counts *)
  Theorem coverage_is_sum_of_solo acts m k : interleaving acts m ->
    cov_get k (icov (iexec m)) = sum_upto (length acts) (fun t => cov_get k (icov (iexec (nth t acts [])))).
  Proof.
    intros [H1 H2]. rewrite iexec_cov, (count_split (hit k) (length acts) m H1).
    apply sum_upto_ext. intros t _. rewrite iexec_cov, H2. reflexivity.
  Qed.
End Interleave.

(* non-vacuity: two activities, a schedule that alternates *)
Example interleaving_ex :
  interleaving (nat * nat) fst [[(0, 1); (0, 2)]; [(1, 7)]] [(0, 1); (1, 7); (0, 2)].
Proof.
  split.
  - intros s [<-|[<-|[<-|[]]]]; simpl; lia.
  - intros [|[|t]]; simpl; try reflexivity. destruct t; reflexivity.
Qed.
