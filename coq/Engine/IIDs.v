(* Engine/IIDs.v -- model of instrument/IIDs.py: the id map kept next to each file, and its histories. *)
From Coq Require Import String List Bool Arith Lia.
Import ListNotations.
Open Scope list_scope.

Record loc := { l_file : string; l_sl : nat; l_sc : nat; l_el : nat; l_ec : nat }.
Definition loc_eqb (a b : loc) : bool :=
  String.eqb (l_file a) (l_file b) && Nat.eqb (l_sl a) (l_sl b) && Nat.eqb (l_sc a) (l_sc b)
  && Nat.eqb (l_el a) (l_el b) && Nat.eqb (l_ec a) (l_ec b).

Lemma loc_eqb_spec a b : reflect (a = b) (loc_eqb a b).
Proof.
  destruct a as [f1 a1 b1 c1 d1], b as [f2 a2 b2 c2 d2]. unfold loc_eqb; simpl.
  destruct (String.eqb_spec f1 f2), (Nat.eqb_spec a1 a2), (Nat.eqb_spec b1 b2), (Nat.eqb_spec c1 c2), (Nat.eqb_spec d1 d2);
    simpl; constructor; congruence.
Qed.

(* dict int -> Location, insertion ordered *)
Fixpoint nget (k : nat) (m : list (nat * loc)) : option loc :=
  match m with [] => None | (k', v) :: r => if Nat.eqb k k' then Some v else nget k r end.
Fixpoint nset (k : nat) (v : loc) (m : list (nat * loc)) : list (nat * loc) :=
  match m with [] => [(k, v)] | (k', v') :: r => if Nat.eqb k k' then (k', v) :: r else (k', v') :: nset k v r end.
(* dict Location -> int built by the comprehension {Location v: k for k, v in items}: later wins *)
Fixpoint lget (l : loc) (m : list (loc * nat)) : option nat :=
  match m with [] => None | (l', v) :: r => if loc_eqb l l' then Some v else lget l r end.
Fixpoint lset (l : loc) (v : nat) (m : list (loc * nat)) : list (loc * nat) :=
  match m with [] => [(l, v)] | (l', v') :: r => if loc_eqb l l' then (l', v) :: r else (l', v') :: lset l v r end.

Record iids := { next_iid : nat; i2l : list (nat * loc); l2i : list (loc * nat) }.
Definition disk := option (nat * list (nat * loc)).      (* the -dynapyt.json file, None = absent *)

Definition invert (m : list (nat * loc)) : list (loc * nat) := fold_left (fun acc e => lset (snd e) (fst e) acc) m [].

(* IIDs.__init__: creates the json file when absent (side effect on the disk!) *)
Definition load (d : disk) : iids * disk :=
  match d with
  | None => ({| next_iid := 0; i2l := []; l2i := [] |}, Some (0, []))
  | Some (n, m) => ({| next_iid := n; i2l := m; l2i := invert m |}, d)
  end.

(* IIDs.new -- note: location_to_iid is NOT updated (as in the source) *)
Definition new (s : iids) (l : loc) : nat * iids :=
  match lget l (l2i s) with
  | Some i => (i, s)
  | None => (next_iid s, {| next_iid := S (next_iid s); i2l := nset (next_iid s) l (i2l s); l2i := l2i s |})
  end.

Definition store (s : iids) : disk := Some (next_iid s, i2l s).

Inductive op := ONew (l : loc) | OStore | OReload.
Definition step (st : iids * disk) (o : op) : iids * disk :=
  match o with
  | ONew l => (snd (new (fst st) l), snd st)
  | OStore => (fst st, store (fst st))
  | OReload => load (snd st)
  end.
Definition run (ops : list op) (st : iids * disk) : iids * disk := fold_left step ops st.

Definition dget (i : nat) (d : disk) : option loc := match d with None => None | Some (_, m) => nget i m end.
Definition dnext (d : disk) : nat := match d with None => 0 | Some (n, _) => n end.

(* ------------------------------------------------------------------ invariants *)
Definition keys_below (n : nat) (m : list (nat * loc)) : Prop := forall i l, nget i m = Some l -> i < n.
Definition l2i_sound (s : iids) : Prop := forall l i, lget l (l2i s) = Some i -> nget i (i2l s) = Some l.

Definition Inv (st : iids * disk) : Prop :=
  let '(s, d) := st in
  keys_below (next_iid s) (i2l s) /\ l2i_sound s /\
  keys_below (dnext d) (match d with Some (_, m) => m | None => [] end) /\
  dnext d <= next_iid s /\
  (forall i l, dget i d = Some l -> nget i (i2l s) = Some l).

Lemma nget_nset_same k v m : nget k (nset k v m) = Some v.
Proof.
  induction m as [|[k' v'] r IH]; simpl; [rewrite Nat.eqb_refl; reflexivity|].
  destruct (Nat.eqb k k') eqn:E; simpl; rewrite E; [reflexivity|exact IH].
Qed.
Lemma nget_nset_other k k2 v m : k2 <> k -> nget k2 (nset k v m) = nget k2 m.
Proof.
  intros N. induction m as [|[k' v'] r IH]; simpl.
  - destruct (Nat.eqb_spec k2 k); [congruence|reflexivity].
  - destruct (Nat.eqb_spec k k') as [->|N2]; simpl.
    + destruct (Nat.eqb_spec k2 k'); [congruence|reflexivity].
    + destruct (Nat.eqb k2 k'); [reflexivity|exact IH].
Qed.
Lemma lget_lset_same k v m : lget k (lset k v m) = Some v.
Proof.
  induction m as [|[k' v'] r IH]; simpl.
  - destruct (loc_eqb_spec k k); [reflexivity|congruence].
  - destruct (loc_eqb k k') eqn:E; simpl; rewrite E; [reflexivity|exact IH].
Qed.
Lemma lget_lset_other k k2 v m : k2 <> k -> lget k2 (lset k v m) = lget k2 m.
Proof.
  intros N. induction m as [|[k' v'] r IH]; simpl.
  - destruct (loc_eqb_spec k2 k); [congruence|reflexivity].
  - destruct (loc_eqb_spec k k') as [->|N2]; simpl.
    + destruct (loc_eqb_spec k2 k'); [congruence|reflexivity].
    + destruct (loc_eqb k2 k'); [reflexivity|exact IH].
Qed.

(* inverting a map with distinct keys gives a sound location index *)
Fixpoint nkeys_distinct (m : list (nat * loc)) : bool :=
  match m with [] => true | (k, _) :: r => negb (existsb (fun e => Nat.eqb k (fst e)) r) && nkeys_distinct r end.

Lemma nget_absent k r : existsb (fun e : nat * loc => Nat.eqb k (fst e)) r = false -> nget k r = None.
Proof.
  induction r as [|[k' v'] r IH]; simpl; [reflexivity|]. intros H.
  apply orb_false_iff in H. destruct H as [A B]. rewrite A. apply IH. exact B.
Qed.

Lemma invert_sound_gen : forall m acc (base : list (nat * loc)),
  (forall l i, lget l acc = Some i -> nget i (base ++ m) = Some l) ->
  nkeys_distinct (base ++ m) = true ->
  forall l i, lget l (fold_left (fun a e => lset (snd e) (fst e) a) m acc) = Some i -> nget i (base ++ m) = Some l.
Proof.
  induction m as [|[k v] r IH]; intros acc base Hacc Hd l i H; simpl in H; [apply Hacc; exact H|].
  replace (base ++ (k, v) :: r) with ((base ++ [(k, v)]) ++ r) in * by (rewrite <- app_assoc; reflexivity).
  eapply IH; [|exact Hd|exact H].
  intros l' i' H'. simpl in H'.
  destruct (loc_eqb_spec l' v) as [->|N].
  - rewrite lget_lset_same in H'. inversion H'; subst i'. clear - Hd.
    rewrite <- app_assoc in *. simpl in *.
    induction base as [|[k2 v2] b IHb]; simpl in *.
    + rewrite Nat.eqb_refl. reflexivity.
    + apply andb_true_iff in Hd. destruct Hd as [H1 H2].
      destruct (Nat.eqb_spec k k2) as [->|N]; [|apply IHb; exact H2].
      exfalso. apply negb_true_iff in H1. rewrite existsb_app in H1. apply orb_false_iff in H1.
      destruct H1 as [_ H1]. simpl in H1. rewrite Nat.eqb_refl in H1. discriminate.
  - rewrite lget_lset_other in H' by exact N. apply Hacc. exact H'.
Qed.

Lemma invert_sound m : nkeys_distinct m = true -> forall l i, lget l (invert m) = Some i -> nget i m = Some l.
Proof.
  intros Hd l i H. apply (invert_sound_gen m [] [] (fun l i (H : lget l [] = Some i) => ltac:(discriminate)) Hd l i H).
Qed.

Definition disk_wf (d : disk) : Prop :=
  match d with None => True | Some (n, m) => keys_below n m /\ nkeys_distinct m = true end.

Lemma nset_distinct k v m : nkeys_distinct m = true -> nkeys_distinct (nset k v m) = true.
Proof.
  induction m as [|[k' v'] r IH]; simpl; [reflexivity|]. intros H. apply andb_true_iff in H. destruct H as [H1 H2].
  destruct (Nat.eqb_spec k k') as [->|N]; simpl; [rewrite H1, H2; reflexivity|].
  rewrite (IH H2), andb_true_r. apply negb_true_iff. apply negb_true_iff in H1.
  clear IH H2. induction r as [|[k3 v3] r3 IH3]; simpl in *.
  - destruct (Nat.eqb_spec k' k); [congruence|reflexivity].
  - apply orb_false_iff in H1. destruct H1 as [A B].
    destruct (Nat.eqb_spec k k3) as [->|N3]; simpl; [rewrite A, B; reflexivity|].
    rewrite A. simpl. apply IH3. exact B.
Qed.

Definition Inv2 (st : iids * disk) : Prop :=
  Inv st /\ nkeys_distinct (i2l (fst st)) = true /\ disk_wf (snd st).

Ltac inv2_split := refine (conj (conj _ (conj _ (conj _ (conj _ _)))) (conj _ _)).

Lemma step_inv st o : Inv2 st -> Inv2 (step st o).
Proof.
  destruct st as [s d]. intros [[K [LS [KD [LE SUB]]]] [ND DW]]. destruct o as [l| |]; simpl in *.
  - (* new *)
    unfold new. destruct (lget l (l2i s)) eqn:E; simpl.
    + inv2_split; assumption.
    + inv2_split; unfold l2i_sound, keys_below in *; simpl.
      * intros i l' H. destruct (Nat.eq_dec i (next_iid s)) as [->|N]; [lia|].
        rewrite nget_nset_other in H by exact N. apply K in H. lia.
      * intros l' i H. pose proof (LS _ _ H) as G. pose proof (K _ _ G).
        rewrite nget_nset_other by lia. exact G.
      * exact KD.
      * lia.
      * intros i l' H. pose proof (SUB _ _ H) as G. pose proof (K _ _ G). rewrite nget_nset_other by lia. exact G.
      * apply nset_distinct. exact ND.
      * exact DW.
  - (* store *)
    inv2_split; simpl; try assumption; try lia.
    + intros i l H. exact H.
    + split; assumption.
  - (* reload *)
    destruct d as [[n m]|]; simpl in *.
    + destruct DW as [DK DD]. inv2_split; simpl; try assumption; try lia.
      * intros l i H. apply invert_sound; assumption.
      * intros i l H. exact H.
      * split; assumption.
    + inv2_split; simpl; try lia; try reflexivity; try (intros ? ? H; discriminate).
      split; [intros ? ? H; discriminate|reflexivity].
Qed.

Lemma run_inv ops : forall st, Inv2 st -> Inv2 (run ops st).
Proof. induction ops as [|o r IH]; intros st H; simpl; [exact H|]. apply IH, step_inv, H. Qed.

(* ---- C06: ids that are on disk keep their meaning under every history *)
Lemma step_disk_stable st o i l : Inv2 st -> dget i (snd st) = Some l -> dget i (snd (step st o)) = Some l.
Proof.
  destruct st as [s d]. intros [[K [LS [KD [LE SUB]]]] [ND DW]] H. destruct o as [l'| |]; simpl in *.
  - exact H.
  - apply SUB. exact H.
  - destruct d as [[n m]|]; simpl in *; [exact H|discriminate].
Qed.

Theorem ids_stable_on_disk : forall ops st i l,
  Inv2 st -> dget i (snd st) = Some l -> dget i (snd (run ops st)) = Some l.
Proof.
  induction ops as [|o r IH]; intros st i l HI H; simpl; [exact H|].
  apply IH; [apply step_inv; exact HI|apply step_disk_stable; assumption].
Qed.

(* ids handed out in memory keep their meaning as long as the map is not re-loaded before being stored *)
Lemma step_mem_stable st o i l : Inv2 st -> o <> OReload ->
  nget i (i2l (fst st)) = Some l -> nget i (i2l (fst (step st o))) = Some l.
Proof.
  destruct st as [s d]. intros [[K _] _] NR H. destruct o as [l'| |]; simpl in *; [|exact H|congruence].
  unfold new. destruct (lget l' (l2i s)); simpl; [exact H|].
  pose proof (K _ _ H). rewrite nget_nset_other by lia. exact H.
Qed.

(* new returns an id that maps to the requested location, and a fresh one never collides *)
Theorem new_maps_to_location s d l : Inv2 (s, d) ->
  let '(i, s') := new s l in nget i (i2l s') = Some l.
Proof.
  intros [[K [LS _]] _]. unfold new. destruct (lget l (l2i s)) eqn:E; simpl.
  - apply LS. exact E.
  - apply nget_nset_same.
Qed.

Theorem new_fresh_or_same s d l : Inv2 (s, d) ->
  let '(i, s') := new s l in (forall j l', nget j (i2l s) = Some l' -> nget j (i2l s') = Some l').
Proof.
  intros [[K _] _]. unfold new. destruct (lget l (l2i s)); simpl; intros j l' H; [exact H|].
  pose proof (K _ _ H). rewrite nget_nset_other by lia. exact H.
Qed.

Lemma init_inv : Inv2 (load None).
Proof. simpl. inv2_split; simpl; try lia; try reflexivity; try (intros ? ? H; discriminate).
  split; [intros ? ? H; discriminate|reflexivity]. Qed.

(* the known deviation (#18): the same location requested twice in one session gets two ids *)
Definition L0 : loc := {| l_file := "f"; l_sl := 1; l_sc := 0; l_el := 1; l_ec := 1 |}.
Example new_twice_two_ids :
  let s0 := fst (load None) in let '(i1, s1) := new s0 L0 in let '(i2, _) := new s1 L0 in (i1, i2) = (0, 1).
Proof. reflexivity. Qed.

(* non-vacuity *)
Example inv_nontrivial : Inv2 (run [ONew L0; OStore; OReload; ONew L0] (load None)).
Proof. apply run_inv, init_inv. Qed.
