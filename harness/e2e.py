"""End-to-end three-way comparison on generated MiniPy programs:
   I = real DynaPyt (original run + instrumented run),  M = Coq model of instrumenter + runtime,  S = Coq reference semantics.
All three are rendered into the same canonical observation (action log, final globals, outcome, deliveries by node id)
and compared INSIDE Coq by one vm_compute per shard; Python only receives verdict codes."""
import json
import random
import re

from common import CASE_HEADER, cstr, clist, cbool, coq_eval
import genprog

IID_ARG_HOOKS = ("_return", "_yield", "implicit_return", "_break", "_continue")


def render_log(log):
    out = []
    for e in log:
        row = []
        for x in e:
            if isinstance(x, (list, tuple)):
                row.append("(" + ",".join(str(y) if not isinstance(y, (list, tuple)) else "(" + ",".join(map(str, y)) + ")" for y in x) + ")")
            else:
                row.append(str(x))
        out.append(row)
    return out


def outcome_of(run):
    ex = run["exc"]
    if not ex:
        return "ok"
    return "exc:%s:%s" % (ex["type"], ex["msg"])


def impl_obs(run, spans_inv, path_of_main, idmaps, tags):
    """canonical observation of one implementation run (orig or inst)"""
    dels = []
    bad = []
    for d in run.get("deliveries", []):
        tag, _seq, hook, args = d
        idx = tags.index(tag)
        row = [str(idx), hook]
        if len(args) >= 2 and isinstance(args[0], str) and isinstance(args[1], int) and args[0] in idmaps and isinstance(idmaps[args[0]], dict) and args[1] in idmaps[args[0]]:
            loc = tuple(idmaps[args[0]][args[1]])
            nid = spans_inv.get((hook_kind_hint(hook), loc)) or spans_inv.get(loc)
            if nid is None:
                bad.append((hook, loc))
                nid = -1
            rest = list(args[2:])
            if hook in IID_ARG_HOOKS and rest:
                try:
                    loc2 = tuple(idmaps[args[0]][int(rest[0])])
                    rest[0] = str(spans_inv.get(loc2, -1))
                except (KeyError, ValueError, TypeError):
                    pass
            row += ["M", str(nid)] + [str(x) for x in rest]
        else:
            row += [str(x) for x in args]
        dels.append(row)
    return {"log": render_log(run["log"]), "globals": sorted(run["globals"].items()), "outcome": outcome_of(run), "dels": dels}, bad


def hook_kind_hint(hook):
    return None


def coq_obs(o):
    return "{| o_log := %s; o_globals := %s; o_outcome := %s; o_dels := %s; o_notes := [] |}" % (
        clist([clist([cstr(x) for x in row]) for row in o["log"]]),
        clist(["(%s, %s)" % (cstr(k), cstr(v)) for k, v in o["globals"]]),
        cstr(o["outcome"]),
        clist([clist([cstr(x) for x in row]) for row in o["dels"]]))


def coq_safe(o):
    try:
        coq_obs(o)
        return True
    except ValueError:
        return False


def coq_analyses(analyses):
    out = []
    for a in analyses:
        methods = clist(["(%s, None)" % cstr(h) for h in a["hooks"]])
        script = []
        for h, vals in (a.get("script") or {}).items():
            for k, v in enumerate(vals):
                if v is None:
                    continue
                script.append("((%s, %d), %s)" % (cstr(h), k, coq_earg(v)))
        out.append("{| pa_cls := %s; pa_methods := %s; pa_script := %s |}" % (cstr(a["cls"]), methods, clist(script)))
    return clist(out)


def coq_earg(v):
    if isinstance(v, bool):
        return "(AV (VBool %s))" % cbool(v)
    if isinstance(v, int):
        return "(AV (VInt (%d)%%Z))" % v
    if isinstance(v, str):
        return "(AV (VStr %s))" % cstr(v)
    raise ValueError(v)


FUEL = 60


def three_way(work, cases, results, shard_name="e2e", diagnose=None):
    """cases: [{prog (genprog dict), hooks (selected leaves incl. via analyses), analyses, coverage}], results: runner results.
    Returns per case a dict(verdicts...) -- all comparisons evaluated inside Coq."""
    items = []
    metas = []
    for c, r in zip(cases, results):
        prog = c["prog"]
        meta = {"skip": None}
        if "harness_error" in r:
            meta["skip"] = "harness_error: " + r["harness_error"][-300:]
            metas.append(meta)
            continue
        inv = {}
        for n, sp in prog["spans"].items():
            inv.setdefault(tuple(sp), n)
        # several nodes can share an extent (a statement and ... no: expression statements have no own id); prefer the smallest id
        tags = [a.get("tag", a["cls"]) for a in c["analyses"]]
        main_path = [p for p in r.get("idmaps", {})]
        io, _ = impl_obs(r["orig"], inv, None, {}, tags)
        ii, bad = impl_obs(r["inst"], inv, None, r.get("idmaps", {}), tags)
        meta["unresolved_locations"] = bad
        meta["selected"] = r.get("selected", [])
        if not (coq_safe(io) and coq_safe(ii)):
            meta["skip"] = "observation not representable (non-ascii)"
            metas.append(meta)
            continue
        hooks = [h for h in r.get("selected", [])]
        items.append("(%s, (%s, (%s, (%s, (%s, %s)))))" % (prog["coq"], clist([cstr(h) for h in hooks]), coq_analyses(c["analyses"]), cbool(bool(c.get("coverage"))), coq_obs(io), coq_obs(ii)))
        meta["index"] = len(items) - 1
        meta["impl_orig"] = io
        meta["impl_inst"] = ii
        metas.append(meta)
    text = CASE_HEADER + "From DV Require Import Py.Syntax Py.Sem Concrete.CVal Concrete.CPrims Concrete.Run.\n"
    text += "Definition cases : list (program * (list string * (list pana * (bool * (obs * obs))))) :=\n  %s.\n" % clist(items)
    text += "Eval vm_compute in map (verdict2 %d) cases.\n" % FUEL
    if diagnose is not None:
        text += "Eval vm_compute in option_map (diagnose %d) (nth_error cases %d).\n" % (FUEL, diagnose)
    ev = coq_eval(work, "cases_" + shard_name, text, timeout=900)
    if not ev["ok"]:
        return metas, ev["error"]
    pairs = re.findall(r"\(\s*(\d+),\s*(\[[^\]]*\]|nil)\s*\)", ev["values"][0]) if ev["values"] else []
    codes = [int(a) for a, _ in pairs]
    clauses = [re.findall(r'"([a-z_]+)"', b) for _, b in pairs]
    if diagnose is not None and len(ev["values"]) > 1:
        print("DIAGNOSE:", ev["values"][1])
    for m in metas:
        if m.get("skip") is None and "index" in m:
            m["code"] = codes[m["index"]] if m["index"] < len(codes) else -1
            m["clauses"] = clauses[m["index"]] if m["index"] < len(clauses) else []
    return metas, ""


# verdict bit mask (Concrete/Run.v: verdict)
V_ORIG = 1        # I_orig <> M_orig : the plain semantics of MiniPy disagrees with CPython on the original program
V_INST = 2        # I_inst <> M_inst : the model of instrumenter+runtime disagrees with the real instrumented run
V_REF = 4         # M_inst <> S      : the model deviates from the reference semantics (a guard clause must be false)
V_TRANSP = 8      # I_inst <> I_orig on program-visible behaviour (C01 oracle, implementation only)
V_MODEL_LIMIT = 16  # the model ran out of fuel / hit a construct outside its data semantics
V_IREF = 32       # I_inst <> S   (the implementation deviates from the reference semantics)
