"""Shared plumbing of the /verif checks: paths, work dirs, translator + Coq build, case evaluation,
evidence, known findings, verdict lines."""
import fcntl
import json
import os
import re
import shutil
import subprocess
import sys
import time
from pathlib import Path

VERIF = Path(__file__).resolve().parent.parent
REPO = Path(os.environ.get("VERIF_REPO", "/repo"))
COQ = VERIF / "coq"
PY = "/venv/bin/python"
PROPS = ["C%02d" % i for i in range(1, 17)]


def env_for_impl(tmpdir=None):
    e = dict(os.environ)
    e["PYTHONPATH"] = "%s:%s:%s" % (REPO / "src", VERIF / "support", VERIF / "harness")
    e["PYTHONHASHSEED"] = e.get("PYTHONHASHSEED", "0")
    e["PYTHONDONTWRITEBYTECODE"] = "1"
    if tmpdir:
        e["TMPDIR"] = str(tmpdir)
    for k in ("DYNAPYT_SESSION_ID", "DYNAPYT_COVERAGE"):
        e.pop(k, None)
    return e


class Work:
    """Scratch directory /verif/.work/<id>-<pid>/ removed at exit; TMPDIR points into it."""

    def __init__(self, tag):
        self.dir = VERIF / ".work" / ("%s-%d" % (tag, os.getpid()))

    def __enter__(self):
        if self.dir.exists():
            shutil.rmtree(self.dir)
        (self.dir / "tmp").mkdir(parents=True)
        os.environ["TMPDIR"] = str(self.dir / "tmp")
        import tempfile

        tempfile.tempdir = None
        return self

    def __exit__(self, *a):
        shutil.rmtree(self.dir, ignore_errors=True)

    def sub(self, name):
        p = self.dir / name
        p.mkdir(parents=True, exist_ok=True)
        return p


class Lock:
    def __enter__(self):
        (VERIF / ".work").mkdir(exist_ok=True)
        self.f = open(VERIF / ".work" / "coq.lock", "w")
        fcntl.flock(self.f, fcntl.LOCK_EX)
        return self

    def __exit__(self, *a):
        fcntl.flock(self.f, fcntl.LOCK_UN)
        self.f.close()


def run_extract(work):
    """Regenerate coq/Gen from the current working tree of REPO."""
    t0 = time.time()
    p = subprocess.run(
        [PY, str(VERIF / "tools" / "extract.py"), "--repo", str(REPO), "--out", str(COQ / "Gen")],
        env=env_for_impl(work.dir / "tmp"), capture_output=True, text=True, timeout=300,
    )
    out = p.stdout + p.stderr
    missing = [l for l in out.splitlines() if l.startswith("MISSING ")]
    return {"ok": p.returncode == 0, "missing": missing, "log": out[-4000:], "wall_s": time.time() - t0}


def ensure_makefile():
    vs = sorted(str(p.relative_to(COQ)) for p in COQ.rglob("*.v") if ".work" not in str(p))
    mk = COQ / "Makefile"
    stamp = COQ / ".vfiles"
    cur = "\n".join(vs)
    if not mk.exists() or not stamp.exists() or stamp.read_text() != cur:
        subprocess.run(["coq_makefile", "-f", "_CoqProject", "-o", "Makefile"] + vs, cwd=COQ, check=True, capture_output=True)
        stamp.write_text(cur)


def coq_make(targets, force=(), timeout=1500):
    """make the given .vo targets (full .vo build). `force` = .v files whose .vo is removed first so that
    their Print Assumptions output appears in the log."""
    ensure_makefile()
    for f in force:
        vo = COQ / (f[:-2] + ".vo")
        if vo.exists():
            vo.unlink()
    t0 = time.time()
    p = subprocess.run(
        ["timeout", str(timeout), "make", "-k", "-j16"] + list(targets), cwd=COQ, capture_output=True, text=True
    )
    log = p.stdout + "\n" + p.stderr
    failed = re.findall(r"\*\*\* \[[^\]]*?: ([^\]\s]+\.vo)\] Error", log)
    errors = re.findall(r'File "\./([^"]+)", line (\d+)[^\n]*\n(Error:[^\n]*(?:\n[^\n]+){0,6})', log)
    return {"ok": p.returncode == 0, "failed": sorted(set(failed)), "errors": errors[:10], "log": log, "wall_s": time.time() - t0}


def parse_assumptions(log):
    """Print Assumptions output in a coqc log: list of ('closed'|'axioms', text)."""
    res = []
    closed = len(re.findall(r"Closed under the global context", log))
    ax = re.findall(r"Axioms:\n((?:.+\n)+?)(?:\n|$)", log)
    return {"closed": closed, "axiom_blocks": [a.strip() for a in ax]}


def theorems_in(vfile):
    txt = (COQ / vfile).read_text()
    return re.findall(r"^\s*(?:Theorem|Lemma|Example)\s+([A-Za-z0-9_']+)", txt, flags=re.M)


def hygiene():
    """No Admitted/admit/Axiom/... anywhere in the development."""
    bad = []
    pat = re.compile(r"\b(Admitted|admit|Axiom|Axioms|Parameter|Parameters|Conjecture|Hypothesis|Hypotheses|bypass_check|Unset\s+Guard|Admit\s+Obligations)\b|type-in-type|impredicative-set")
    for p in sorted(COQ.rglob("*.v")):
        if "/Gen/" in str(p):
            continue
        txt = p.read_text()
        txt_nc = re.sub(r"\(\*.*?\*\)", "", txt, flags=re.S)
        in_section = 0
        for ln, line in enumerate(txt_nc.splitlines(), 1):
            if re.match(r"\s*Section\b", line):
                in_section += 1
            if re.match(r"\s*End\b", line) and in_section:
                in_section -= 1
            m = pat.search(line)
            if m:
                w = m.group(0)
                if w.startswith("Hypothes") and in_section:
                    continue
                bad.append("%s:%d: %s" % (p.relative_to(COQ), ln, line.strip()[:80]))
    # the committed witness file is what tools/mkwitness.py writes from harness/corpus.py
    try:
        r = subprocess.run([str(VERIF / "tools" / "mkwitness.py"), "--check"], capture_output=True, text=True, timeout=120,
                           env=dict(os.environ, PYTHONPATH=str(REPO / "src")))
        if r.returncode != 0:
            bad.append("Concrete/Witness.v is not what tools/mkwitness.py generates from harness/corpus.py " + (r.stderr or "")[-200:])
    except Exception as e:  # noqa
        bad.append("tools/mkwitness.py --check could not run: %r" % (e,))
    return bad


# ------------------------------------------------------------------------------ Coq literals
def cstr(s):
    out = []
    for ch in s:
        o = ord(ch)
        if ch == '"':
            out.append('""')
        elif o < 32 or o > 126:
            raise ValueError("non-printable in Coq literal: %r" % s)
        else:
            out.append(ch)
    return '"' + "".join(out) + '"'


def clist(items):
    return "[" + "; ".join(items) + "]"


def cbool(b):
    return "true" if b else "false"


def copt(x, f):
    return "None" if x is None else "(Some %s)" % f(x)


def cz(n):
    return "(%d)%%Z" % n


CASE_HEADER = (
    "From Coq Require Import String List ZArith Bool.\n"
    "Import ListNotations.\nOpen Scope string_scope.\nOpen Scope list_scope.\n"
)


def coq_eval(work, name, text, timeout=600):
    """Compile a generated cases file against the built development; return the printed values
    (one per `Eval vm_compute in`), as raw strings."""
    d = work.sub("cases")
    f = d / (name + ".v")
    f.write_text(text)
    p = subprocess.run(
        ["timeout", str(timeout), "coqc", "-Q", str(COQ), "DV", "-w", "-all", str(f)], cwd=d, capture_output=True, text=True
    )
    out = p.stdout
    if p.returncode != 0:
        return {"ok": False, "error": (p.stderr or out)[-2000:], "values": []}
    vals = re.findall(r"^\s*= (.*?)\n\s*: ", out, flags=re.S | re.M)
    return {"ok": True, "values": [" ".join(v.split()) for v in vals], "error": ""}


def parse_natlist(s):
    s = s.strip()
    if s in ("[]", "nil"):
        return []
    return [int(x) for x in re.findall(r"\d+", s)]


# ------------------------------------------------------------------------------ findings, evidence
def load_findings():
    p = VERIF / "KNOWN_FINDINGS.jsonl"
    out = []
    if p.exists():
        for line in p.read_text().splitlines():
            line = line.strip()
            if not line or line.startswith("#"):
                continue
            if line.startswith("fixed:"):
                out.append({"fixed": line})
            else:
                out.append(json.loads(line))
    return out


def write_evidence(pid, tier, seed, coverage, assumptions, wall_s, violations):
    ev = {
        "property_id": pid,
        "tier": tier,
        "seed": seed,
        "level": "proof",
        "coverage": coverage,
        "assumptions": assumptions,
        "wall_s": round(wall_s, 2),
        "violations": violations,
    }
    (VERIF / "evidence").mkdir(exist_ok=True)
    (VERIF / "evidence" / (pid + ".json")).write_text(json.dumps(ev, indent=1, default=str) + "\n")


def write_replay(pid, payload):
    d = VERIF / "replays"
    d.mkdir(exist_ok=True)
    p = d / ("%s-%d.json" % (pid, int(time.time() * 1000) % 10**10))
    p.write_text(json.dumps(payload, indent=1, default=str))
    return p
