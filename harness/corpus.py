"""Hand-written MiniPy programs that run first in every end-to-end check (a corpus of minimised cases).

The first five are the refutation witnesses of the guard clauses (four syntactic ones and the dynamic one,
unbound_local_thunk, which a model run reports itself: Concrete/Run.v, o_notes): on each of them the model of the
instrumented program differs from the reference semantics and from the original program; the same Coq
terms are the witnesses of the `_refuted` theorems (coq/Py/Witness.v, written by tools/mkwitness.py from
this file), and the implementation is run on them on every check so that a repaired implementation shows
up as a model/implementation disagreement.
"""
import warnings

warnings.filterwarnings("ignore", category=SyntaxWarning)
import genprog


def _c(n, v):
    return ("const", n, "int", v)


def _call(n, fn_n, f, *args):
    return ("call", n, ("name", fn_n, f), list(args))


# name -> (main statements, hooks)
WITNESSES = {
    # a < b < c with a comparison hook: the third operand is evaluated although the chain already failed
    "chain_eager": ([("assign", 1, [("tname", "x")], ("cmp", 2, _call(3, 4, "k", _c(5, 1)), [("CLessThan", _call(6, 7, "k", _c(8, 0))), ("CLessThan", _call(9, 10, "boom", _c(11, 2)))]))],
                    ["less_than"]),
    # assert c, m with the assert hook: the message is evaluated although the assertion holds
    "assert_msg_eager": ([("assert", 1, _call(2, 3, "k", _c(4, 1)), _call(5, 6, "boom", _c(7, 2)))],
                         ["_assert"]),
    # e.a += v with the augmented-assignment hook: operand order changes and the target object is evaluated twice
    "aug_assign": ([("aug", 1, ("tattr", 2, _call(3, 4, "r", _c(5, 1)), "a"), "BAdd", _call(6, 7, "k", _c(8, 2)))],
                   ["add_assign"]),
    # if a or b with the if hook: the operand that decided the disjunction has its truth tested a second time
    "truth_retest": ([("if", 1, ("bool", 2, "BOr", _call(3, 4, "r", _c(5, 1)), _call(6, 7, "k", _c(8, 0))), [("pass",)], [])],
                     ["enter_if"]),
    # u = 5; def f0(): a = u; u = 1 with the read hook (libcst resolves the early read to the global u, so it is hooked): the read of the not-yet-bound local u happens inside `lambda: u`, where
    # CPython raises NameError("cannot access free variable ...") instead of UnboundLocalError
    "unbound_local_thunk": ([("assign", 9, [("tname", "u")], _c(10, 5)), ("def", 1, 0, "f0"), ("assign", 2, [("tname", "x")], ("call", 3, ("name", 4, "f0"), []))],
                            ["read_identifier"]),
}
# the functions of the witnesses that have some
WITNESS_FUNS = {
    "unbound_local_thunk": [{"nid": 1, "name": "f0", "params": [], "locals": ["a", "u"],
                             "body": [("assign", 5, [("tname", "a")], ("name", 6, "u")), ("assign", 7, [("tname", "u")], _c(8, 1))]}],
}
# witnesses whose clause is reported by the model run itself (dynamic), not by the syntactic guard
DYNAMIC_WITNESSES = {"unbound_local_thunk"}

# further regression cases (minimised from earlier disagreements between model and implementation)
REGRESSIONS = {
    "for_else_break": ([("for", 1, "i1", ("list", 2, [_c(3, 1), _c(4, 2)]),
                         [("if", 5, ("cmp", 6, ("name", 7, "i1"), [("CEqual", _c(8, 2))]), [("break", 9)], [])],
                         [("expr", _call(10, 11, "k", _c(12, 9)))])],
                       ["enter_for", "normal_exit_for", "_break", "enter_if", "exit_if", "equal"]),
    "try_finally_noexcept": ([("try", 1, [("expr", _call(2, 3, "boom", _c(4, 1)))], [], [], [("expr", _call(5, 6, "k", _c(7, 2)))])],
                             ["enter_try", "clean_exit_try", "pre_call", "post_call"]),
    # break/continue written in the else clause of a loop belong to the ENCLOSING loop (fixed in /repo 2790d9c)
    "continue_in_for_else": ([("for", 1, "t", ("list", 2, [_c(3, 1), _c(4, 2)]),
                               [("for", 5, "u", ("list", 6, []), [("expr", _call(7, 8, "k", ("name", 9, "u")))],
                                 [("if", 10, ("cmp", 11, ("name", 12, "t"), [("CEqual", _c(13, 1))]), [("continue", 14)], [])]),
                                ("while", 15, ("cmp", 16, ("name", 17, "t"), [("CEqual", _c(18, 5))]), [("pass",)],
                                 [("if", 19, ("cmp", 20, ("name", 21, "t"), [("CEqual", _c(22, 2))]), [("break", 23)], [])]),
                                ("expr", _call(24, 25, "k", ("name", 26, "t")))],
                               [("expr", _call(27, 28, "k", _c(29, 9)))])],
                             ["_continue", "_break", "normal_exit_for", "normal_exit_while", "enter_if", "exit_if", "equal", "pre_call"]),
    # the payload of the exception hook renders the exception with repr: CPython quotes a message that has an
    # apostrophe with double quotes (model error found by the thorough tier, seed 0)
    "exception_repr_quotes": ([("try", 1, [("expr", ("sub", 2, _c(3, 1), _c(4, 0)))], [(("name", 5, "Exception"), "ex", [("pass",)])], [], [])],
                              ["exception", "enter_try", "clean_exit_try", "read_subscript"]),
    "while_continue": ([("assign", 1, [("tname", "i1")], _c(2, 0)),
                        ("while", 3, ("cmp", 4, ("name", 5, "i1"), [("CLessThan", _c(6, 3))]),
                         [("assign", 7, [("tname", "i1")], ("bin", 8, "BAdd", ("name", 9, "i1"), _c(10, 1))),
                          ("if", 11, ("cmp", 12, ("name", 13, "i1"), [("CEqual", _c(14, 2))]), [("continue", 15)], []),
                          ("expr", _call(16, 17, "k", ("name", 18, "i1")))],
                         [("expr", _call(19, 20, "k", _c(21, 7)))])],
                       ["enter_while", "normal_exit_while", "_continue", "write", "add", "less_than"]),
}


# ------------------------------------------------------------------------------------------------- context x expression matrix
class _N:
    def __init__(self):
        self.n = 0

    def __call__(self):
        self.n += 1
        return self.n


def _exprs(N):
    """expression kind -> AST (fresh node ids); v is an int variable, o a recorder object"""
    v = lambda: ("name", N(), "v")
    o = lambda: ("name", N(), "o")
    c = lambda z: ("const", N(), "int", z)
    return {
        "const": lambda: c(7),
        "name": v,
        "minus": lambda: ("un", N(), "UMinus", v()),
        "not": lambda: ("un", N(), "UNot", v()),
        "bin": lambda: ("bin", N(), "BAdd", v(), c(1)),
        "and": lambda: ("bool", N(), "BAnd", v(), c(2)),
        "or": lambda: ("bool", N(), "BOr", c(0), v()),
        "cmp": lambda: ("cmp", N(), v(), [("CLessThan", c(5))]),
        "ifexp": lambda: ("ifexp", N(), v(), c(1), c(2)),
        "attr": lambda: ("attr", N(), o(), "a"),
        "sub": lambda: ("sub", N(), o(), c(1)),
        "call": lambda: ("call", N(), ("name", N(), "k"), [c(4)]),
        "list": lambda: ("list", N(), [v(), c(1)]),
        "tuple": lambda: ("tuple", N(), [v(), c(2)]),
    }


def _contexts(N, E):
    """context name -> statements around one occurrence of the expression E()"""
    c = lambda z: ("const", N(), "int", z)
    kc = lambda e: ("expr", ("call", N(), ("name", N(), "k"), [e]))
    return {
        "assign": lambda: [("assign", N(), [("tname", "x")], E())],
        "assign_attr": lambda: [("assign", N(), [("tattr", N(), ("name", N(), "o"), "b")], E())],
        "assign_subidx": lambda: [("assign", N(), [("tsub", N(), ("name", N(), "o"), E())], c(1))],
        "aug": lambda: [("assign", N(), [("tname", "x")], c(1)), ("aug", N(), ("tname", "x"), "BAdd", E())],
        "aug_attr": lambda: [("aug", N(), ("tattr", N(), ("name", N(), "o"), "c"), "BSubtract", E())],
        "if": lambda: [("if", N(), E(), [kc(c(1))], [kc(c(2))])],
        "while": lambda: [("while", N(), E(), [kc(c(1)), ("break", N())], [kc(c(2))])],
        "for": lambda: [("for", N(), "i1", ("list", N(), [E()]), [kc(("name", N(), "i1"))], [])],
        "assert": lambda: [("try", N(), [("assert", N(), E(), None)], [(("name", N(), "AssertionError"), None, [kc(c(3))])], [], [])],
        "raise": lambda: [("try", N(), [("raise", N(), ("call", N(), ("name", N(), "E1"), [E()]), None)], [(("name", N(), "E1"), "e1", [kc(c(3))])], [], [])],
        "callarg": lambda: [kc(E())],
        "subidx": lambda: [("assign", N(), [("tname", "x")], ("sub", N(), ("name", N(), "o"), E()))],
        "unop": lambda: [("assign", N(), [("tname", "x")], ("un", N(), "UNot", E()))],
        "binl": lambda: [("assign", N(), [("tname", "x")], ("cmp", N(), E(), [("CEqual", c(1))]))],
        "boolr": lambda: [("assign", N(), [("tname", "x")], ("bool", N(), "BOr", c(0), E()))],
        "ifexp_test": lambda: [("assign", N(), [("tname", "x")], ("ifexp", N(), E(), c(1), c(2)))],
        "listelt": lambda: [("assign", N(), [("tname", "x")], ("tuple", N(), [E(), c(1)]))],
    }


def matrix():
    """name -> main statements: every expression kind in every context, after `v = k(3)` and `o = r(1)`"""
    out = {}
    N0 = _N()
    for ek in _exprs(N0):
        for ck in _contexts(N0, None):
            N = _N()
            pre = [("assign", N(), [("tname", "v")], ("call", N(), ("name", N(), "k"), [("const", N(), "int", 3)])),
                   ("assign", N(), [("tname", "o")], ("call", N(), ("name", N(), "r"), [("const", N(), "int", 1)]))]
            E = _exprs(N)[ek]
            body = _contexts(N, E)[ck]()
            if (ck, ek) in (("callarg", "list"), ("for", "list")):
                continue  # k(<a list>): the log rendering of list arguments is not canonical across the two sides
            out["%s/%s" % (ck, ek)] = pre + body
    return out


# ------------------------------------------------------------------------------------------------- override matrix (C07)
def override_program():
    """one program exercising every overridable hook kind twice; returns (funs, main)"""
    N = _N()
    c = lambda z: ("const", N(), "int", z)
    nm = lambda x: ("name", N(), x)
    call = lambda f, *a: ("call", N(), nm(f), list(a))
    kc = lambda e: ("expr", call("k", e))
    fnid = N()
    fbody = [("if", N(), ("cmp", N(), nm("a"), [("CLessThan", c(1))]), [("return", N(), c(0))], []),
             ("return", N(), ("bin", N(), "BAdd", nm("a"), call("f0", ("bin", N(), "BSubtract", nm("a"), c(1)))))]
    funs = [{"nid": fnid, "name": "f0", "params": ["a"], "locals": [], "body": fbody}]
    main = [
        ("def", fnid, 0, "f0"),
        ("assign", N(), [("tname", "v")], call("k", c(3))),
        ("assign", N(), [("tname", "o")], call("r", c(1))),
        ("assign", N(), [("tname", "x")], ("bin", N(), "BAdd", nm("v"), c(2))),
        ("assign", N(), [("tname", "y")], ("attr", N(), nm("o"), "a")),
        ("assign", N(), [("tname", "z")], ("sub", N(), nm("o"), c(1))),
        ("assign", N(), [("tname", "t")], ("const", N(), "str", "s")),
        ("assign", N(), [("tname", "b")], ("const", N(), "bool", True)),
        ("if", N(), ("cmp", N(), nm("x"), [("CLessThan", c(9))]), [kc(c(1))], [kc(c(2))]),
        ("if", N(), ("cmp", N(), nm("x"), [("CEqual", c(5))]), [kc(c(3))], [kc(c(4))]),
        ("assign", N(), [("tname", "i1")], c(0)),
        ("while", N(), ("cmp", N(), nm("i1"), [("CLessThan", c(3))]),
         [("assign", N(), [("tname", "i1")], ("bin", N(), "BAdd", nm("i1"), c(1))),
          ("if", N(), ("cmp", N(), nm("i1"), [("CEqual", c(1))]), [("continue", N())], []),
          ("if", N(), ("cmp", N(), nm("i1"), [("CEqual", c(3))]), [("break", N())], []),
          kc(nm("i1"))],
         [kc(c(8))]),
        ("for", N(), "i2", ("list", N(), [c(1), c(2)]),
         [("if", N(), ("cmp", N(), nm("i2"), [("CEqual", c(2))]), [("break", N())], []), kc(nm("i2"))], [kc(c(9))]),
        ("try", N(), [("assert", N(), nm("x"), None), ("assert", N(), ("cmp", N(), nm("x"), [("CEqual", c(5))]), None)],
         [(nm("AssertionError"), None, [kc(c(6))])], [], []),
        ("assign", N(), [("tname", "w")], call("f0", c(2))),
        ("assign", N(), [("tname", "x")], ("bin", N(), "BSubtract", ("bin", N(), "BMultiply", nm("x"), c(2)), c(1))),
        kc(nm("x")),
    ]
    return funs, main


OVERRIDE_VALUES = {"enter_if": [True, False], "enter_while": [True, False], "_assert": [True, False], "_break": [True, False],
                   "_continue": [True, False], "boolean": [True, False], "string": ["zz", ""], "enter_control_flow": [True, False]}


def override_cases(pid, overridable, all_hooks):
    out, rout = [], []
    funs, main = override_program()
    prog, _ = build("override", main, list(all_hooks), funs)
    for hk in overridable:
        for k in (0, 1):
            for val in OVERRIDE_VALUES.get(hk, [0, 7]):
                ans = [{"cls": "A0", "hooks": {x: None for x in set(all_hooks) | {hk}}, "script": {hk: [None] * k + [val]}}]
                name = "override:%s:%d:%r" % (hk, k, val)
                out.append({"prog": prog, "analyses": ans, "coverage": False, "mode": "corpus:" + name})
                rout.append({"id": "%s/corpus/%s" % (pid, name), "files": {"main.py": prog["source"]}, "analyses": ans})
    return out, rout


# ------------------------------------------------------------------------------------------------- statement x context matrix
def nest_matrix():
    """name -> (funs, main): every kind of control statement inside every kind of enclosing clause, all inside a for
    loop of a function (so that break / continue / return are legal everywhere)"""
    out = {}
    inner_kinds = ["break", "continue", "return", "raise", "assert", "aug", "for_else", "while", "try_finally"]
    ctx_kinds = ["direct", "for_else", "while_body", "while_else", "if_body", "try_body", "except_body", "finally_body", "try_else"]
    for ik in inner_kinds:
        for ck in ctx_kinds:
            N = _N()
            c = lambda z: ("const", N(), "int", z)
            nm = lambda x: ("name", N(), x)
            call = lambda f, *a: ("call", N(), nm(f), list(a))
            kc = lambda e: ("expr", call("k", e))
            eq = lambda x, z: ("cmp", N(), nm(x), [("CEqual", c(z))])
            inner = {
                "break": lambda: [("if", N(), eq("i1", 1), [("break", N())], [])],
                "continue": lambda: [("if", N(), eq("i1", 1), [("continue", N())], [])],
                "return": lambda: [("if", N(), eq("i1", 2), [("return", N(), call("k", c(5)))], [])],
                "raise": lambda: [("if", N(), eq("i1", 2), [("raise", N(), call("E1", nm("i1")), None)], [])],
                "assert": lambda: [("assert", N(), eq("i1", 1), None)],
                "aug": lambda: [("aug", N(), ("tname", "a"), "BAdd", nm("i1"))],
                "for_else": lambda: [("for", N(), "i2", ("list", N(), [c(1)]), [kc(nm("i2"))], [kc(c(8))])],
                "while": lambda: [("assign", N(), [("tname", "i3")], c(0)),
                                  ("while", N(), ("cmp", N(), nm("i3"), [("CLessThan", c(2))]),
                                   [("assign", N(), [("tname", "i3")], ("bin", N(), "BAdd", nm("i3"), c(1)))], [kc(c(6))])],
                "try_finally": lambda: [("try", N(), [kc(c(1))], [], [], [kc(c(2))])],
            }[ik]()
            ctx = {
                "direct": lambda b: b,
                "for_else": lambda b: [("for", N(), "i4", ("list", N(), []), [("pass",)], b)],
                "while_body": lambda b: [("assign", N(), [("tname", "i5")], c(0)),
                                         ("while", N(), ("cmp", N(), nm("i5"), [("CLessThan", c(1))]),
                                          [("assign", N(), [("tname", "i5")], ("bin", N(), "BAdd", nm("i5"), c(1)))] + b, [])],
                "while_else": lambda b: [("while", N(), c(0), [("pass",)], b)],
                "if_body": lambda b: [("if", N(), nm("i1"), b, [kc(c(3))])],
                "try_body": lambda b: [("try", N(), b, [(nm("E2"), None, [("pass",)])], [], [])],
                "except_body": lambda b: [("try", N(), [("expr", call("boom", c(1)))], [(nm("E1"), None, b)], [], [])],
                "finally_body": lambda b: [("try", N(), [kc(c(1))], [], [], b)],
                "try_else": lambda b: [("try", N(), [("pass",)], [(nm("E2"), None, [("pass",)])], b, [])],
            }[ck](inner)
            fnid = N()
            body = [("for", N(), "i1", ("list", N(), [c(1), c(2)]), ctx + [kc(nm("i1"))], [kc(c(9))]), ("return", N(), nm("a"))]
            assigned = set()
            genprog.collect_assigned(body, assigned)
            funs = [{"nid": fnid, "name": "f0", "params": ["a"], "locals": sorted(assigned - {"a"}), "body": body}]
            main = [("def", fnid, 0, "f0"),
                    ("try", N(), [("assign", N(), [("tname", "x")], call("f0", c(0)))], [(nm("Exception"), None, [kc(c(7))])], [], [])]
            out["%s/%s" % (ck, ik)] = (funs, main)
    return out


def bare_return_program():
    N = _N()
    c = lambda z: ("const", N(), "int", z)
    nm = lambda x: ("name", N(), x)
    fnid = N()
    fbody = [("if", N(), ("cmp", N(), nm("a"), [("CLessThan", c(1))]), [("return", N(), None)], []),
             ("expr", ("call", N(), nm("k"), [nm("a")])),
             ("return", N(), None)]
    gnid = N()
    gbody = [("expr", ("call", N(), nm("k"), [c(5)]))]
    funs = [{"nid": fnid, "name": "f0", "params": ["a"], "locals": [], "body": fbody},
            {"nid": gnid, "name": "f1", "params": [], "locals": [], "body": gbody}]
    main = [("def", fnid, 0, "f0"), ("def", gnid, 1, "f1"),
            ("assign", N(), [("tname", "x")], ("call", N(), nm("f0"), [c(0)])),
            ("assign", N(), [("tname", "y")], ("call", N(), nm("f0"), [c(2)])),
            ("assign", N(), [("tname", "z")], ("call", N(), nm("f1"), []))]
    return funs, main, ["_return", "function_enter", "function_exit", "implicit_return", "pre_call", "post_call"]


def override_for_cases(pid, all_hooks):
    """answers of the generic and of the specific hook at every step of a for loop (elements and exhaustion)"""
    N = _N()
    c = lambda z: ("const", N(), "int", z)
    kc = lambda e: ("expr", ("call", N(), ("name", N(), "k"), [e]))
    main = [("try", N(), [("for", N(), "i2", ("list", N(), [c(1), c(2), c(3)]), [kc(("name", N(), "i2"))], [kc(c(9))])],
             [(("name", N(), "Exception"), None, [kc(c(8))])], [], []),
            kc(c(5))]
    prog, _ = build("override_for", main, list(all_hooks))
    out, rout = [], []
    for hk, vals in (("enter_control_flow", [True, False]), ("enter_for", [0, 7])):
        for k in (0, 1, 2, 3, 4):
            for val in vals:
                ans = [{"cls": "A0", "hooks": {x: None for x in set(all_hooks) | {hk}}, "script": {hk: [None] * k + [val]}}]
                name = "override_for:%s:%d:%r" % (hk, k, val)
                out.append({"prog": prog, "analyses": ans, "coverage": False, "mode": "corpus:" + name})
                rout.append({"id": "%s/corpus/%s" % (pid, name), "files": {"main.py": prog["source"]}, "analyses": ans})
    return out, rout


def build(name, main=None, hooks=None, funs=None):
    if name == "bare_return" and main is None:
        funs, main, hooks = bare_return_program()
    if main is None:
        main, hooks = (WITNESSES.get(name) or REGRESSIONS[name])
        funs = funs or WITNESS_FUNS.get(name)
    prog = {"funs": funs or [], "main": main}
    pr = genprog.Printer()
    src = pr.program(prog)
    compile(src, "<corpus:%s>" % name, "exec")
    spans, nsrc = genprog.resolve_spans(src, pr.starts)
    return {"ast": prog, "source": src, "spans": spans, "nsrc": nsrc, "coq": genprog.coq_program(prog, nsrc), "nodes": 64}, hooks


def cases(pid, all_hooks=()):
    out, rout = [], []
    items = [(name, None, None) for name in list(WITNESSES) + list(REGRESSIONS) + ["bare_return"]]
    items += [("matrix:" + name, main, list(all_hooks)) for name, main in matrix().items()]
    nm_ = nest_matrix()
    items += [("nest:" + name, nm_[name][1], list(all_hooks)) for name in nm_]
    for name, main, hk in items:
        prog, hooks = build(name, main, hk, nm_[name[5:]][0] if name.startswith("nest:") else None)
        ans = [{"cls": "A0", "hooks": {x: None for x in hooks}}]
        out.append({"prog": prog, "analyses": ans, "coverage": False, "mode": "corpus:" + name})
        rout.append({"id": "%s/corpus/%s" % (pid, name), "files": {"main.py": prog["source"]}, "analyses": ans})
    return out, rout
