"""Hand-written MiniPy programs that run first in every end-to-end check (a corpus of minimised cases).

The first four are the refutation witnesses of the guard clauses: on each of them the model of the
instrumented program differs from the reference semantics and from the original program; the same Coq
terms are the witnesses of the `_refuted` theorems (coq/Py/Witness.v, written by tools/mkwitness.py from
this file), and the implementation is run on them on every check so that a repaired implementation shows
up as a model/implementation disagreement.
"""
import genprog


def _c(n, v):
    return ("const", n, "int", v)


def _call(n, fn_n, f, *args):
    return ("call", n, ("name", fn_n, f), list(args))


# name -> (main statements, hooks)
WITNESSES = {
    # a < b < c with a comparison hook: the third operand is evaluated although the chain already failed
    "chain_eager": ([("assign", 1, [("tname", "x")], ("cmp", 2, _call(3, 4, "k", _c(5, 1)), [("CLessThan", _call(6, 7, "k", _c(8, 0))), ("CLessThan", _call(9, 10, "boom", _c(11, 2)))]))],
                    ["less_than"]),
    # assert c, m with the assert hook: the message is evaluated although the assertion holds
    "assert_msg_eager": ([("assert", 1, _call(2, 3, "k", _c(4, 1)), _call(5, 6, "boom", _c(7, 2)))],
                         ["_assert"]),
    # e.a += v with the augmented-assignment hook: operand order changes and the target object is evaluated twice
    "aug_assign": ([("aug", 1, ("tattr", 2, _call(3, 4, "r", _c(5, 1)), "a"), "BAdd", _call(6, 7, "k", _c(8, 2)))],
                   ["add_assign"]),
    # if a or b with the if hook: the operand that decided the disjunction has its truth tested a second time
    "truth_retest": ([("if", 1, ("bool", 2, "BOr", _call(3, 4, "r", _c(5, 1)), _call(6, 7, "k", _c(8, 0))), [("pass",)], [])],
                     ["enter_if"]),
}

# further regression cases (minimised from earlier disagreements between model and implementation)
REGRESSIONS = {
    "for_else_break": ([("for", 1, "i1", ("list", 2, [_c(3, 1), _c(4, 2)]),
                         [("if", 5, ("cmp", 6, ("name", 7, "i1"), [("CEqual", _c(8, 2))]), [("break", 9)], [])],
                         [("expr", _call(10, 11, "k", _c(12, 9)))])],
                       ["enter_for", "normal_exit_for", "_break", "enter_if", "exit_if", "equal"]),
    "try_finally_noexcept": ([("try", 1, [("expr", _call(2, 3, "boom", _c(4, 1)))], [], [], [("expr", _call(5, 6, "k", _c(7, 2)))])],
                             ["enter_try", "clean_exit_try", "pre_call", "post_call"]),
    "while_continue": ([("assign", 1, [("tname", "i1")], _c(2, 0)),
                        ("while", 3, ("cmp", 4, ("name", 5, "i1"), [("CLessThan", _c(6, 3))]),
                         [("assign", 7, [("tname", "i1")], ("bin", 8, "BAdd", ("name", 9, "i1"), _c(10, 1))),
                          ("if", 11, ("cmp", 12, ("name", 13, "i1"), [("CEqual", _c(14, 2))]), [("continue", 15)], []),
                          ("expr", _call(16, 17, "k", ("name", 18, "i1")))],
                         [("expr", _call(19, 20, "k", _c(21, 7)))])],
                       ["enter_while", "normal_exit_while", "_continue", "write", "add", "less_than"]),
}


def build(name):
    main, hooks = (WITNESSES.get(name) or REGRESSIONS[name])
    prog = {"funs": [], "main": main}
    pr = genprog.Printer()
    src = pr.program(prog)
    compile(src, "<corpus:%s>" % name, "exec")
    spans, nsrc = genprog.resolve_spans(src, pr.starts)
    return {"ast": prog, "source": src, "spans": spans, "nsrc": nsrc, "coq": genprog.coq_program(prog, nsrc), "nodes": 64}, hooks


def cases(pid):
    out, rout = [], []
    for name in list(WITNESSES) + list(REGRESSIONS):
        prog, hooks = build(name)
        ans = [{"cls": "A0", "hooks": {x: None for x in hooks}}]
        out.append({"prog": prog, "analyses": ans, "coverage": False, "mode": "corpus:" + name})
        rout.append({"id": "%s/corpus/%s" % (pid, name), "files": {"main.py": prog["source"]}, "analyses": ans})
    return out, rout
