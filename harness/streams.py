"""Unit-level correspondence streams: the hand-written Coq models of the small state machines are run
(inside Coq, vm_compute) on the same inputs as the real implementation and the results compared.

Every stream function has the signature  f(rng, n, work) -> dict(
    name, cases (python objects, for replay), coq (text of the cases definition + Eval), impl_errors )
and `evaluate(work, stream_results)` compiles one cases file per stream and returns the failing indices.
"""
import contextlib
import functools
import io
import itertools
import json
import os
import random
import string
import sys
import inspect
from pathlib import Path

from common import CASE_HEADER, cstr, clist, cbool, copt, cz, coq_eval, parse_natlist
import impl


# ----------------------------------------------------------------------------------------------- values
class Other:
    """an object of no filterable type"""

    def __init__(self, tag):
        self.tag = tag

    def __repr__(self):
        return "Other(%d)" % self.tag


def mkfunc(name):
    def f(*a):
        return None

    f.__name__ = name
    return f


def mkclass(name):
    return type(name, (object,), {})


def rand_value(rng, names):
    k = rng.randrange(9)
    if k == 8:
        return mkclass(rng.choice([n for n in names if n.isidentifier()] or ["K"]))
    if k == 0:
        return rng.choice([0, 1, 2, 7, -3, 10, 12345])
    if k == 1:
        return rng.choice(names)
    if k == 2:
        return rng.choice([True, False])
    if k == 3:
        return rng.choice([1.5, 2.0, -0.25])
    if k == 4:
        return mkfunc(rng.choice(names))
    if k == 5:
        return None
    if k == 6:
        return Other(rng.randrange(3))
    return rng.choice([0, 1, "a", "foo"])


def cval(v, relpath=None):
    if isinstance(v, bool):
        return "(CBool %s)" % cbool(v)
    if isinstance(v, int):
        return "(CInt %s)" % cz(v)
    if isinstance(v, str):
        return "(CStr %s)" % cstr(relpath(v) if relpath else v)
    if isinstance(v, float):
        return "(CFloat %s)" % cstr(str(v))
    if v is None:
        return "CNone"
    if isinstance(v, Other):
        return "(COther %d)" % v.tag
    if callable(v):
        return "(CFunc %s)" % cstr(v.__name__)
    raise ValueError(v)


# ----------------------------------------------------------------------------------------------- S1 names
def stream_names(rng, n, work):
    from dynapyt.utils.hooks import snake, get_name
    import libcst as cst

    xs = [c for c in dir(cst) if c[0].isupper() and c.isalnum()]
    words = ["Add", "Is", "Not", "In", "And", "Or", "List", "Set", "Float", "Tuple", "Print", "Assign", "X", "Ab", "aB", "ABc", "lambda", "None", "int", "type"]
    cases = []
    pool = xs + words
    for i in range(n):
        if i < len(pool):
            x = pool[i]
        else:
            x = "".join(rng.choice(words + ["a", "b", "Z", "q1", "_"]) for _ in range(rng.randrange(1, 4)))
        cases.append((x, snake(x), get_name(x)))
    coq = "Definition cases : list (string * (string * string)) :=\n  %s.\n" % clist(
        ["(%s, (%s, %s))" % (cstr(a), cstr(b), cstr(c)) for a, b, c in cases]
    )
    coq += "Eval vm_compute in failing ok_snake cases.\n"
    return {"name": "names", "cases": cases, "coq": coq, "dist": {"distinct_inputs": len(set(c[0] for c in cases))}}


# ----------------------------------------------------------------------------------------------- S2 used leaves
def stream_used(rng, n, work):
    from dynapyt.utils.hooks import get_used_leaves

    h, leaves = impl.all_leaf_hooks()
    names = []

    def walk(d):
        for k, v in d.items():
            names.append(k)
            walk(v)

    walk(h)
    names_u = sorted(set(names))
    cases = []
    for i in range(n):
        if i < len(names_u):
            ms = {names_u[i]: 1}
        else:
            k = rng.randrange(1, 6)
            ms = {m: rng.randrange(1, 4) for m in rng.sample(names_u + ["not_a_hook", "helper"], k)}
        res = get_used_leaves(h, {m: {"tag": t} for m, t in ms.items()})
        exp = sorted((k, v["tag"]) for k, v in res.items())
        cases.append((sorted(ms.items()), exp))
    coq = "Definition cases : list (list (string * nat) * list (string * nat)) :=\n  %s.\n" % clist(
        ["(%s, %s)" % (clist(["(%s, %d)" % (cstr(a), b) for a, b in ms]), clist(["(%s, %d)" % (cstr(a), b) for a, b in ex])) for ms, ex in cases]
    )
    coq += "Eval vm_compute in failing ok_used cases.\n"
    return {"name": "used_leaves", "cases": cases, "coq": coq, "dist": {"single_name_cases": len(names_u), "random_sets": max(0, n - len(names_u))}}


# ----------------------------------------------------------------------------------------------- S3 filters
PATS = ["foo", "bar", "1", "0", "True", "False", "a", "s", "print", "x_1", "1.5", "baz"]


def decorated(rng, base_doc, blocks):
    from dynapyt.instrument.filters import only, ignore

    def f(self, *a):
        return None

    f.__doc__ = base_doc
    for kind, pats in blocks:
        f = (only if kind == "only" else ignore)(patterns=list(pats))(f)
    return f


def rand_blocks(rng):
    nb = rng.choice([0, 1, 1, 1, 2, 3])
    return [(rng.choice(["only", "ignore"]), rng.sample(PATS, rng.randrange(0, 4))) for _ in range(nb)]


def stream_filters(rng, n, work):
    from dynapyt.runtime import RuntimeEngine
    from dynapyt.instrument.filters import get_details

    rt = impl.fresh_engine()
    cases, dcases = [], []
    kinds = {"none": 0, "only": 0, "ignore": 0, "multi": 0}
    for i in range(n):
        base = rng.choice([None, "", "Hook doc.", "Some text\n  more text "])
        blocks = rand_blocks(rng)
        f = decorated(rng, base, blocks)
        doc = f.__doc__
        eff = [b for b in blocks if b[1]]
        kinds["none" if not eff else ("multi" if len(eff) > 1 else eff[0][0])] += 1
        args = tuple(rng.choice(PATS + ["zzz", "qq"]) for _ in range(rng.randrange(0, 4)))
        if doc is not None and "DynaPyt internal:" in doc:
            exp = RuntimeEngine.filtered.__wrapped__(rt, doc, args)
            cases.append((doc, list(args), bool(exp)))
        det = get_details(f)
        dcases.append((doc, det))
    impl.retire(rt)

    def blk(d):
        if not d:
            return "None"
        k = "FOnly" if "only" in d else "FIgnore"
        return "(Some {| bk := %s; bpats := %s |})" % (k, clist([cstr(p) for p in d.get("only", d.get("ignore"))]))

    coq = "Definition cases : list (string * (list string * bool)) :=\n  %s.\n" % clist(
        ["(%s, (%s, %s))" % (cstr(d.replace("\n", " ")), clist([cstr(a) for a in args]), cbool(e)) for d, args, e in cases]
    )
    coq += "Eval vm_compute in failing ok_filtered cases.\n"
    coq += "Definition dcases : list (option string * option block) :=\n  %s.\n" % clist(
        ["(%s, %s)" % (copt(d, lambda x: cstr(x.replace("\n", " "))), blk(det)) for d, det in dcases]
    )
    coq += "Eval vm_compute in failing ok_details dcases.\n"
    return {"name": "filters", "cases": cases + dcases, "coq": coq, "dist": kinds, "n_sub": [len(cases), len(dcases)]}


# ----------------------------------------------------------------------------------------------- S4 dispatch
HOOKS_U = ["runtime_event", "literal", "integer", "string", "boolean", "pre_call", "post_call", "add", "read_identifier", "begin_execution", "uncaught_exception", "__dunder__"]
CLASSES = ["RecA", "RecB", "RecC", "RecA"]


def build_analysis(rng, idx, cls_name, log, scripts):
    from dynapyt.instrument.filters import only, ignore

    hooks = rng.sample(HOOKS_U, rng.randrange(1, 7))
    methods = {}
    meta = []
    for h in hooks:
        blocks = rand_blocks(rng) if rng.random() < 0.5 else []
        base = rng.choice([None, "doc"])

        def fn(self, *args, _h=h, _i=idx):
            log.append((_i, _h, args))
            q = scripts.get((_i, _h))
            if q:
                return q.pop(0)
            return None

        fn.__doc__ = base
        fn.__name__ = h
        for kind, pats in blocks:
            fn = (only if kind == "only" else ignore)(patterns=list(pats))(fn)
        methods[h] = fn
        meta.append((h, fn.__doc__))
    cls = type(cls_name, (object,), methods)
    return cls(), meta


def stream_dispatch(rng, n, work):
    from dynapyt.runtime import RuntimeEngine

    d = work.sub("dispatch")
    # two files with id maps
    files = []
    linetab = []
    for fi in range(2):
        py = d / ("f%d.py" % fi)
        py.write_text("x = 1\n")
        m = {str(i): {"file": str(py) + ".orig", "start_line": 1 + (i * 7 + fi) % 5, "start_column": 0, "end_line": 9, "end_column": 1} for i in range(6)}
        (d / ("f%d-dynapyt.json" % fi)).write_text(json.dumps({"next_iid": 6, "iid_to_location": m}))
        files.append(str(py) + ".orig")
        for i in range(6):
            linetab.append((("W/f%d.py.orig" % fi), i, 1 + (i * 7 + fi) % 5))

    def rel(s):
        return s.replace(str(d) + "/", "W/")

    rt = impl.fresh_engine()
    cases = []
    coq_cases = []
    stats = {"coverage_on": 0, "crash": 0, "multi_analysis": 0, "filtered_some": 0, "scripted": 0, "events": 0}
    for ci in range(n):
        k = rng.choice([1, 1, 2, 2, 3, 4])
        log = []
        scripts = {}
        ans = []
        metas = []
        for i in range(k):
            a, meta = build_analysis(rng, i, CLASSES[i] if rng.random() < 0.8 else "RecA", log, scripts)
            ans.append(a)
            metas.append((type(a).__name__, meta))
        cov = rng.random() < 0.5
        nev = rng.randrange(1, 9)
        events = []
        for _ in range(nev):
            h = rng.choice(HOOKS_U)
            r = rng.random()
            if r < 0.08:
                args = ()
            elif r < 0.12:
                args = (rng.choice(files),)
            elif r < 0.2:
                args = (Other(1), Other(2))  # e.g. uncaught_exception(exc, traceback)
            else:
                args = (rng.choice(files), rng.choice([0, 1, 2, 3, 5, 9])) + tuple(rand_value(rng, PATS) for _ in range(rng.randrange(0, 4)))
            events.append((h, args))
        # scripted answers
        script_list = []
        if rng.random() < 0.5:
            for _ in range(rng.randrange(1, 4)):
                i = rng.randrange(k)
                h = rng.choice(HOOKS_U)
                vals = [rand_value(rng, PATS) for _ in range(rng.randrange(1, 3))]
                vals = [v for v in vals]
                if (i, h) not in scripts:
                    scripts[(i, h)] = list(vals)
                    script_list.append((i, h, list(vals)))
            stats["scripted"] += 1
        rt.analyses = ans
        rt.covered = {} if cov else None
        rt.current_file = None
        rets = []
        crashed = False
        used_events = []
        for h, args in events:
            used_events.append((h, args))
            try:
                rets.append(rt.call_if_exists(h, *args))
            except Exception as e:
                crashed = True
                break
        covered = rt.covered
        flat = []
        if covered is not None:
            for f, lines in covered.items():
                for ln, an in lines.items():
                    for c, cnt in an.items():
                        flat.append((rel(f), ln, c, cnt))
        stats["coverage_on"] += cov
        stats["crash"] += crashed
        stats["multi_analysis"] += k > 1
        stats["events"] += len(used_events)
        delivered_n = len(log)
        possible = sum(1 for (h, a) in used_events for (c, meta) in metas if any(m[0] == h for m in meta))
        stats["filtered_some"] += delivered_n < possible
        cases.append({"analyses": [(c, [(h, dd) for h, dd in meta]) for c, meta in metas], "coverage": cov, "events": [(h, [repr(a) for a in args]) for h, args in used_events], "crashed": crashed})
        # ---- Coq text
        adatas = []
        for i, (c, meta) in enumerate(metas):
            sc = []
            for (si, sh, vals) in script_list:
                if si == i:
                    for kk, v in enumerate(vals):
                        if v is not None:
                            sc.append("((%s, %d), %s)" % (cstr(sh), kk, cval(v, rel)))
            adatas.append(
                "{| ad_cls := %s; ad_methods := %s; ad_script := %s |}"
                % (cstr(c), clist(["(%s, %s)" % (cstr(h), copt(dd, lambda x: cstr(x.replace("\n", " ")))) for h, dd in meta]), clist(sc))
            )
        evs = clist(["(%s, %s)" % (cstr(h), clist([cval(a, rel) for a in args])) for h, args in used_events])
        lt = clist(["((%s, %s), %d)" % (cstr(p), cz(i), ln) for p, i, ln in linetab])
        erets = clist([copt(r, lambda v: cval(v, rel)) if r is not None else "None" for r in rets])
        edels = clist(["(%d, (%s, %s))" % (i, cstr(h), clist([cval(a, rel) for a in args])) for i, h, args in log])
        ecov = clist(["((%s, %d, %s), %d)" % (cstr(f), ln, cstr(c), cnt) for f, ln, c, cnt in flat])
        coq_cases.append("((%s, (%s, (%s, %s))), (%s, (%s, (%s, %s))))" % (clist(adatas), lt, cbool(cov), evs, erets, edels, cbool(crashed), ecov))
    impl.retire(rt)
    coq = "Definition cases : list dispatch_case :=\n  %s.\n" % clist(coq_cases)
    coq += "Eval vm_compute in failing ok_dispatch cases.\n"
    return {"name": "dispatch", "cases": cases, "coq": coq, "dist": stats}


# ----------------------------------------------------------------------------------------------- S5 coverage merge
def stream_merge(rng, n, work):
    from dynapyt.utils.runtimeUtils import merge_coverage, gather_coverage

    d = work.sub("merge")
    cases = []
    coq_cases = []
    stats = {"files_total": 0, "permutations_checked": 0, "order_dependent": 0}
    for ci in range(n):
        nf = rng.randrange(0, 5)
        files = []
        for _ in range(nf):
            cov = {}
            for _ in range(rng.randrange(0, 5)):
                f = rng.choice(["a.py.orig", "b.py.orig", "pkg/c.py.orig"])
                ln = str(rng.randrange(0, 4))
                an = rng.choice(["A", "B", "Rec"])
                cov.setdefault(f, {}).setdefault(ln, {})
                cov[f][ln][an] = cov[f][ln].get(an, 0) + rng.randrange(1, 5)
            files.append(cov)
        stats["files_total"] += nf
        # real gather_coverage on a directory
        cd = d / ("c%d" % ci)
        cd.mkdir()
        for i, cov in enumerate(files):
            (cd / ("coverage-%d.json" % i)).write_text(json.dumps(cov))
        gather_coverage(cd)
        merged = json.loads((cd / "coverage.json").read_text())
        # all merge orders for small nf
        perms = list(itertools.permutations(range(nf))) if nf <= 4 else []
        for perm in perms:
            base = {}
            for i in perm:
                base = merge_coverage(base, json.loads(json.dumps(files[i])))
            stats["permutations_checked"] += 1
            if base != merged:
                stats["order_dependent"] += 1
        for f in cd.iterdir():
            f.unlink()
        cd.rmdir()

        def flat(cov):
            return [((f, ln, an), c) for f, lines in cov.items() for ln, ans in lines.items() for an, c in ans.items()]

        cases.append({"files": files, "merged": merged})
        coq_cases.append(
            "(%s, %s)"
            % (
                clist([clist(["((%s, %s, %s), %d)" % (cstr(k[0]), cstr(k[1]), cstr(k[2]), c) for k, c in flat(cov)]) for cov in files]),
                clist(["((%s, %s, %s), %d)" % (cstr(k[0]), cstr(k[1]), cstr(k[2]), c) for k, c in flat(merged)]),
            )
        )
    coq = "Definition cases : list (list cmap * cmap) :=\n  %s.\n" % clist(coq_cases)
    coq += "Eval vm_compute in failing ok_gather cases.\n"
    return {"name": "coverage_merge", "cases": cases, "coq": coq, "dist": stats, "impl_failures": stats["order_dependent"]}


# ----------------------------------------------------------------------------------------------- S6 IIDs
def stream_iids(rng, n, work):
    from dynapyt.instrument.IIDs import IIDs

    d = work.sub("iids")
    cases = []
    coq_cases = []
    stats = {"ops": 0, "reloads": 0, "repeated_location": 0}
    for ci in range(n):
        py = d / ("m%d.py" % ci)
        js = d / ("m%d-dynapyt.json" % ci)
        ii = IIDs(str(py))
        ops = []
        seen = set()
        for _ in range(rng.randrange(1, 12)):
            r = rng.random()
            if r < 0.6:
                loc = ("F", rng.randrange(1, 4), rng.randrange(0, 3), rng.randrange(1, 4), rng.randrange(0, 3))
                if loc in seen:
                    stats["repeated_location"] += 1
                seen.add(loc)
                i = ii.new(*loc)
                ops.append(("new", loc, i))
            elif r < 0.8:
                ii.store()
                ops.append(("store",))
            else:
                ii = IIDs(str(py) + (".orig" if rng.random() < 0.5 else ""))
                ops.append(("reload",))
                stats["reloads"] += 1
        stats["ops"] += len(ops)
        disk = json.loads(js.read_text())
        em = sorted((int(k), (v["file"], v["start_line"], v["start_column"], v["end_line"], v["end_column"])) for k, v in disk["iid_to_location"].items())
        js.unlink()
        cases.append({"ops": ops, "disk": disk})

        def cl(l):
            return "{| l_file := %s; l_sl := %d; l_sc := %d; l_el := %d; l_ec := %d |}" % (cstr(l[0]), l[1], l[2], l[3], l[4])

        cops = []
        for o in ops:
            if o[0] == "new":
                cops.append("INew %s %d" % (cl(o[1]), o[2]))
            elif o[0] == "store":
                cops.append("IStore")
            else:
                cops.append("IReload")
        coq_cases.append("(%s, (%d, %s))" % (clist(cops), disk["next_iid"], clist(["(%d, %s)" % (k, cl(l)) for k, l in em])))
    coq = "Definition cases : list (list iop * (nat * list (nat * loc))) :=\n  %s.\n" % clist(coq_cases)
    coq += "Eval vm_compute in failing ok_iids cases.\n"
    return {"name": "iids", "cases": cases, "coq": coq, "dist": stats}


# ----------------------------------------------------------------------------------------------- S8 binds
def stream_binds(rng, n, work):
    cases = []
    coq_cases = []
    stats = {"binds": 0, "rejects": 0}
    kinds = {0: inspect.Parameter.POSITIONAL_OR_KEYWORD, 1: inspect.Parameter.VAR_POSITIONAL, 2: inspect.Parameter.KEYWORD_ONLY, 3: inspect.Parameter.VAR_KEYWORD, 4: inspect.Parameter.POSITIONAL_ONLY}
    names = ["a", "b", "c", "exc", "name", "return_val", "cause"]
    for ci in range(n):
        # a well-formed signature: posonly*, pos-or-kw*, [*args], kwonly*, [**kw]; defaults only at the tail of positional
        ps = []
        nm = rng.sample(names, rng.randrange(0, 6))
        npo = 0  # no positional-only parameters: inspect.Signature.bind and a real call disagree on them in the presence of **kwargs
        rest = nm[npo:]
        npk = rng.randrange(0, len(rest) + 1)
        nko = len(rest) - npk
        ndef = rng.randrange(0, npo + npk + 1)
        pos = [(x, 4) for x in nm[:npo]] + [(x, 0) for x in rest[:npk]]
        for j, (x, k) in enumerate(pos):
            ps.append((x, k, j >= len(pos) - ndef))
        if rng.random() < 0.2:
            ps.append(("args", 1, False))
        for x in rest[npk:]:
            ps.append((x, 2, rng.random() < 0.5))
        if rng.random() < 0.2:
            ps.append(("kw", 3, False))
        try:
            sig = inspect.Signature([inspect.Parameter(x, kinds[k], default=(0 if (d and k in (0, 2, 4)) else inspect.Parameter.empty)) for x, k, d in ps])
        except ValueError:
            continue
        npos = rng.randrange(0, 5)
        kws = rng.sample(names, rng.randrange(0, 3))
        try:
            sig.bind(*([0] * npos), **{k: 0 for k in kws})
            ok = True
        except TypeError:
            ok = False
        stats["binds" if ok else "rejects"] += 1
        cases.append({"sig": ps, "npos": npos, "kws": kws, "ok": ok})
        coq_cases.append(
            "(%s, (%d, (%s, %s)))"
            % (clist(["(%s, (%d, %s))" % (cstr(x), k, cbool(bool(d and k in (0, 2, 4)))) for x, k, d in ps]), npos, clist([cstr(k) for k in kws]), cbool(ok))
        )
    coq = "Definition cases : list (list param * (nat * (list string * bool))) :=\n  %s.\n" % clist(coq_cases)
    coq += "Eval vm_compute in failing ok_binds cases.\n"
    return {"name": "binds", "cases": cases, "coq": coq, "dist": stats}


STREAMS = {
    "names": stream_names,
    "used_leaves": stream_used,
    "filters": stream_filters,
    "dispatch": stream_dispatch,
    "coverage_merge": stream_merge,
    "iids": stream_iids,
    "binds": stream_binds,
}


def evaluate(work, res):
    """Run the Coq side of one stream result; returns (failing indices per Eval, error)."""
    text = CASE_HEADER + "From DV Require Import Base.Util Hooks.Filters Hooks.Bind Engine.Dispatch Engine.Coverage Engine.IIDs Engine.Lifecycle Concrete.CVal.\n" + res["coq"]
    r = coq_eval(work, "cases_" + res["name"], text)
    if not r["ok"]:
        return None, r["error"]
    return [parse_natlist(v) for v in r["values"]], ""


def run_stream(name, seed, n, work):
    rng = random.Random("%s-%d" % (name, seed))
    res = STREAMS[name](rng, n, work)
    fails, err = evaluate(work, res)
    res["failing"] = fails
    res["error"] = err
    return res


# ----------------------------------------------------------------------------------------------- S9 lifecycle (subprocess)
def gen_items(rng, depth=0, allow_import=True):
    """random module body: list of ("ev",) | ("raise",) | ("exit",) | ("import", body, handled)"""
    n = rng.randrange(0, 4)
    body = [("ev",)]  # every module contains an instrumented construct, otherwise DynaPyt leaves it unwrapped
    for _ in range(n):
        r = rng.random()
        if r < 0.55:
            body.append(("ev",))
        elif r < 0.62:
            body.append(("raise",))
        elif r < 0.67:
            body.append(("evraise",))
        elif r < 0.72:
            body.append(("exit",))
        elif allow_import and depth < 2:
            body.append(("import", gen_items(rng, depth + 1), rng.random() < 0.5))
        else:
            body.append(("ev",))
    return body


def items_to_coq(body):
    out = "INil"
    for it in reversed(body):
        if it[0] == "ev":
            c = "IEv"
        elif it[0] == "evraise":
            out = "(ICons IEv (ICons IRaise %s))" % out
            continue
        elif it[0] == "raise":
            c = "IRaise"
        elif it[0] == "exit":
            c = "IExit"
        else:
            c = "(IImport %s %s)" % (items_to_coq(it[1]), cbool(it[2]))
        out = "(ICons %s %s)" % (c, out)
    return out


def render_items(body, files, name):
    """python modules for a body; events are integer literals on their own statements"""
    lines = []
    for it in body:
        if it[0] == "ev":
            lines.append("x = 7")
        elif it[0] == "evraise":
            lines.append("x = 99")
        elif it[0] == "raise":
            lines.append('raise ValueError("v")')
        elif it[0] == "exit":
            lines += ["from vlife import EXITCODE", "raise SystemExit(EXITCODE)"]
        else:
            sub = "m%d" % (len(files) + 1)
            files[sub] = None
            render_items(it[1], files, sub)
            if it[2]:
                lines += ["try:", "    import %s" % sub, "except ValueError:", "    pass"]
            else:
                lines.append("import %s" % sub)
    files[name] = "\n".join(lines or ["pass"]) + "\n"


def _run_life(job):
    import subprocess
    import shutil

    casedir, mode, cov, env = job
    p = subprocess.run([sys.executable, str(Path(__file__).resolve().parent.parent / "support" / "lifecycle_driver.py"), casedir, mode, "1" if cov else "0"],
                       capture_output=True, text=True, env=env, timeout=120)
    log = Path(casedir) / "notes.log"
    notes = log.read_text().splitlines() if log.exists() else []
    covfiles = [str(f.relative_to(casedir)) for f in Path(casedir).rglob("coverage-*.json")]
    stray = [f.name for f in Path(casedir).glob("-dynapyt.json")]
    return {"rc": p.returncode, "notes": notes, "covfiles": covfiles, "stderr": p.stderr[-600:], "stray": stray}


_LIFE_N = [0]


def stream_lifecycle(rng, n, work):
    from multiprocessing.pool import ThreadPool
    from common import env_for_impl

    _LIFE_N[0] += 1
    d = work.sub("life%d" % _LIFE_N[0])   # one directory per shard (the thorough tier runs several)
    jobs, metas = [], []
    scenarios = [
        [("ev",), ("import", [("ev",), ("raise",)], True), ("import", [("ev",)], False), ("exit",)],
        [("ev",), ("import", [("ev",), ("raise",)], True), ("import", [("ev",), ("ev",)], False), ("ev",)],
        [("ev",), ("import", [("ev",), ("evraise",)], True), ("ev",), ("import", [("ev",)], False), ("raise",)],
        [("ev",), ("evraise",), ("ev",)],
        [("ev",), ("import", [("ev",), ("exit",)], False), ("ev",)],
        [("ev",), ("import", [("ev",), ("import", [("ev",), ("raise",)], False)], True), ("ev",), ("exit",)],
    ]
    for ci in range(n):
        single = rng.random() < 0.5
        body = gen_items(rng, allow_import=not single)
        if ci < len(scenarios) * 2:
            body = scenarios[ci // 2]
            single = False
        mode = rng.choice(["run_analysis", "direct"]) if ci >= len(scenarios) * 2 else ["run_analysis", "direct"][ci % 2]
        cov = rng.random() < 0.4
        files = {}
        render_items(body, files, "main")
        cd = d / ("c%d" % ci)
        cd.mkdir()
        for name, src in files.items():
            (cd / (name + ".py")).write_text(src)
        # the entry module file must be matched by the driver's m*.py glob
        env = env_for_impl(work.dir / "tmp")
        jobs.append((str(cd), mode, cov, env))
        metas.append({"body": body, "mode": mode, "coverage": cov, "single": single})
    with ThreadPool(16) as tp:
        results = tp.map(_run_life, jobs)
    cases, coq_cases, gram = [], [], []
    stats = {"single_module": 0, "with_raise": 0, "with_exit": 0, "coverage": 0, "run_analysis": 0, "impl_grammar_violations": 0}
    impl_viol = []
    for m, r in zip(metas, results):
        notes = []
        for line in r["notes"]:
            k, what = line.split(" ", 1)
            what = what.split(" ")[0]
            notes.append((int(k) - 1, what))  # instance 0 is the one get_hooks_from_analysis constructs
        m["observed"] = notes
        m["rc"] = r["rc"]
        m["covfiles"] = len(r["covfiles"])
        m["stray"] = r["stray"]
        m["stderr"] = r["stderr"][-200:]
        flat = json.dumps(m["body"])
        stats["single_module"] += m["single"]
        stats["with_raise"] += '"raise"' in flat
        stats["with_hook_raise"] = stats.get("with_hook_raise", 0) + ('"evraise"' in flat)
        stats["with_exit"] += '"exit"' in flat
        stats["coverage"] += m["coverage"]
        stats["run_analysis"] += m["mode"] == "run_analysis"
        cases.append(m)
        nm = {"begin": "NBegin", "ev": "NEv", "uncaught": "NUncaught", "end": "NEnd"}
        exp = clist(["%s %d" % (nm[w], k) for k, w in notes])
        l = "LRunAnalysis" if m["mode"] == "run_analysis" else "LDirect"
        last = (r["stderr"].strip().splitlines() or [""])[-1]
        if r["rc"] == 0:
            oc = 0
        elif r["rc"] == 3:
            oc = 2
        elif last.startswith("ValueError"):
            oc = 1
        elif last.startswith("AttributeError"):
            oc = 3
        else:
            oc = 9
        m["outcome"] = oc
        coq_cases.append("(%s, %s, %s, (%s, %d))" % (cbool(m["coverage"]), l, items_to_coq(m["body"]), exp, oc))
        gram.append("(%s, %s, %s)" % (cbool(m["coverage"]), l, items_to_coq(m["body"])))
    coq = "Definition cases : list (bool * launch * items * (list note * nat)) :=\n  %s.\n" % clist(coq_cases)
    coq += "Eval vm_compute in failing ok_lifecycle cases.\n"
    coq += "Definition gcases : list (bool * launch * items) :=\n  %s.\n" % clist(gram)
    coq += "Eval vm_compute in failing model_meets_grammar gcases.\n"
    return {"name": "lifecycle", "cases": cases, "coq": coq, "dist": stats, "n_sub": [len(cases), len(cases)]}


STREAMS["lifecycle"] = stream_lifecycle


# ----------------------------------------------------------------------------------------------- S7 instrument_file on real files
def _enc(s):
    return "".join(ch if 32 <= ord(ch) < 127 and ch != "\\" else ("\\n" if ch == "\n" else ("\\\\" if ch == "\\" else "?")) for ch in s)


def stream_files(rng, n, work):
    from dynapyt.instrument.instrument import instrument_file

    h, leaves = impl.all_leaf_hooks()
    d = work.sub("files")
    cases, coq_cases = [], []
    stats = {"accepted": 0, "declined_syntax": 0, "already_marked": 0, "undecodable": 0, "json_preexisting": 0, "nothing_to_instrument": 0}
    sources = ["x = 1\n", "def f(a):\n    return a + 1\nprint(f(2))\n", "from __future__ import annotations\ny: int = 3\n", "import os\n", "pass\n", "s = 'DYNAPYT'\n"]
    for ci in range(n):
        cd = d / ("c%d" % ci)
        cd.mkdir()
        kind = rng.choice(["ok", "ok", "ok", "syntax", "marked", "undecodable", "nothing"])
        py = cd / "m.py"
        hooks = {l: {} for l in (leaves if rng.random() < 0.5 else rng.sample(leaves, rng.randrange(1, 8)))}
        undec = False
        if kind == "ok":
            py.write_text(rng.choice(sources))
        elif kind == "syntax":
            py.write_text("def f(:\n  x = = 1\n")
        elif kind == "marked":
            py.write_text("# DYNAPYT: DO NOT INSTRUMENT\n\nx = 1\n" if rng.random() < 0.5 else "s = 'DYNAPYT: DO NOT INSTRUMENT'\n")
        elif kind == "undecodable":
            py.write_bytes(b"x = '\xff\xfe'\n")
            undec = True
        else:
            py.write_text("import os\n")
            hooks = {"integer": {}}
        pre_json = rng.random() < 0.3
        if pre_json:
            (cd / "m-dynapyt.json").write_text(json.dumps({"next_iid": 3, "iid_to_location": {}}))
            stats["json_preexisting"] += 1
        pre_orig = rng.random() < 0.15
        if pre_orig:
            (cd / "m.py.orig").write_text("old original\n")

        def snap():
            out = []
            for code, name in ((0, "m.py"), (1, "m.py.orig"), (2, "m-dynapyt.json")):
                p = cd / name
                if p.exists():
                    b = p.read_bytes()
                    try:
                        out.append((code, _enc(b.decode("utf-8"))))
                    except UnicodeDecodeError:
                        out.append((code, "UNDECODABLE"))
            return out

        before = snap()
        buf = io.StringIO()
        try:
            with contextlib.redirect_stdout(buf):
                ret = instrument_file(str(py), hooks)
            raised = None
        except BaseException as e:
            ret, raised = "raised", repr(e)
        after = snap()
        tr = None
        if ret is None:
            text = dict(after)[0]
            assert text.startswith("# DYNAPYT: DO NOT INSTRUMENT")
            tr = (text[len("# DYNAPYT: DO NOT INSTRUMENT"):], dict(after)[2])
            stats["accepted"] += 1
            if "_rt" not in text:
                stats["nothing_to_instrument"] += 1
        else:
            stats["declined_syntax" if kind == "syntax" else ("already_marked" if kind == "marked" else ("undecodable" if undec else "accepted"))] += 0 if kind == "ok" else 1
        rc = {0: 0, 1: 1, None: 2}.get(ret, 9)
        cases.append({"kind": kind, "ret": repr(ret), "raised": raised, "before": [b[0] for b in before], "after": [a[0] for a in after], "pre_json": pre_json, "pre_orig": pre_orig, "hooks": len(hooks)})
        for f in cd.iterdir():
            f.unlink()
        cd.rmdir()
        cl = lambda l: clist(["(%d, %s)" % (c, cstr(v)) for c, v in l])
        coq_cases.append("(%s, (%s, (%s, (%d, %s))))" % (cl(before), cbool(not undec), ("None" if tr is None else "(Some (%s, %s))" % (cstr(tr[0]), cstr(tr[1]))), rc, cl(after)))
    coq = "Definition cases : list (list (nat * string) * (bool * (option (string * string) * (nat * list (nat * string))))) :=\n  %s.\n" % clist(coq_cases)
    coq += "Eval vm_compute in failing ok_files cases.\n"
    return {"name": "files", "cases": cases, "coq": coq, "dist": stats, "impl_failures": sum(1 for c in cases if c["raised"])}


STREAMS["files"] = stream_files
