"""Runs generated cases against the REAL implementation, inside worker processes.

A case (dict):
  files      {relative path: source}
  entry      module name to execute (file <entry>.py at the case root, or a dotted package path)
  instrument list of relative paths to instrument (default: all)
  analyses   [ {cls, hooks: {hook: None | [kind, [patterns]]}, script: {hook: [values]}, conf: {k: v}} ]
  select     None | [hook names]: extra hooks selected at instrumentation time only
  coverage   bool
  want       subset of {"orig", "inst"}
Result (dict): orig / inst run records, instrumentation return codes, id maps.
"""
import warnings

warnings.filterwarnings("ignore", category=SyntaxWarning)
import contextlib
import importlib
import importlib.util
import io
import json
import os
import shutil
import sys
import tempfile
import traceback
from pathlib import Path

from common import REPO, VERIF

for _p in (str(REPO / "src"), str(VERIF / "support")):
    if _p not in sys.path:
        sys.path.insert(0, _p)
sys.dont_write_bytecode = True

_N = [0]


def ana_module_text(analyses, select, pre_select=None):
    out = [
        "from dynapyt.analyses.BaseAnalysis import BaseAnalysis",
        "from dynapyt.instrument.filters import only, ignore",
        "import vrec",
        "",
    ]
    specs = list(analyses)
    if select is not None:
        specs = specs + [{"cls": "VSelect", "hooks": {h: None for h in select}}]
    if pre_select:
        specs = specs + [{"cls": "VPre", "hooks": {h: None for h in pre_select}}]
    done = set()
    for a in specs:
        if a["cls"] in done:
            continue
        done.add(a["cls"])
        out.append("class %s(BaseAnalysis):" % a["cls"])
        out.append("    def __init__(self, tag=%r, **kw):" % (a["cls"] if sum(1 for b in specs if b["cls"] == a["cls"]) > 1 else a.get("tag", a["cls"])))
        out.append("        super().__init__()")
        out.append("        self.tag = tag")
        out.append("        self.kw = kw")
        out.append("        vrec.CONSTRUCTED.append((tag, sorted(kw.items())))")
        for h, flt in a["hooks"].items():
            if flt:
                out.append("    @%s(patterns=%r)" % (flt[0], list(flt[1])))
            out.append("    def %s(self, *args):" % h)
            out.append("        return vrec.record(self.tag, %r, args)" % h)
        out.append("")
    return "\n".join(out)


def _purge(casedir):
    cd = str(casedir)
    for name, m in list(sys.modules.items()):
        f = getattr(m, "__file__", None)
        if f and str(f).startswith(cd):
            del sys.modules[name]
    importlib.invalidate_caches()


def _snapshot_globals(mod):
    import vsupport

    out = {}
    sup = vars(vsupport)
    for k, v in list(vars(mod).items()):
        if k.startswith("_"):
            continue
        if k in sup and sup[k] is v:
            continue
        if type(v).__name__ == "module":
            continue
        if k == "RuntimeEngine":
            continue
        out[k] = vsupport.cr(v)
    return out


def _exec_entry(casedir, entry):
    """Execute module `entry` from casedir; return (stdout, log, globals, exception record)."""
    import vsupport

    _purge(casedir)
    vsupport.reset()
    sys.path.insert(0, str(casedir))
    buf = io.StringIO()
    exc = None
    mod = None
    try:
        rel = entry.replace(".", "/")
        path = casedir / (rel + ".py")
        if not path.exists():
            path = casedir / rel / "__init__.py"
        if "." in entry:
            # make parents importable first
            importlib.import_module(entry.rsplit(".", 1)[0])
        spec = importlib.util.spec_from_file_location(entry, path)
        mod = importlib.util.module_from_spec(spec)
        sys.modules[entry] = mod
        with contextlib.redirect_stdout(buf):
            spec.loader.exec_module(mod)
    except BaseException as e:  # noqa
        exc = {"type": type(e).__name__, "msg": str(e), "args": vsupport.cr(e.args), "id": id(e)}
        exc["_obj"] = e
    finally:
        try:
            sys.path.remove(str(casedir))
        except ValueError:
            pass
    g = _snapshot_globals(mod) if mod is not None else {}
    return buf.getvalue(), [list(x) for x in vsupport.LOG], g, exc


def run_case(case):
    try:
        return _run_case(case)
    except BaseException as e:  # harness failure, reported as such
        return {"harness_error": repr(e) + "\n" + traceback.format_exc()[-1500:], "id": case.get("id")}


def _run_case(case):
    from dynapyt.runtime import RuntimeEngine
    from dynapyt.instrument.instrument import instrument_file
    from dynapyt.utils.hooks import get_hooks_from_analysis
    import vrec
    import vsupport

    _N[0] += 1
    base = Path(tempfile.gettempdir())
    casedir = base / ("case-%d-%d" % (os.getpid(), _N[0]))
    if casedir.exists():
        shutil.rmtree(casedir)
    casedir.mkdir(parents=True)
    res = {"id": case.get("id"), "casedir": str(casedir)}
    try:
        for rel, src in case["files"].items():
            p = casedir / rel
            p.parent.mkdir(parents=True, exist_ok=True)
            p.write_text(src)
        want = case.get("want", ("orig", "inst"))
        entry = case.get("entry", "main")
        if "orig" in want:
            so, lg, gl, ex = _exec_entry(casedir, entry)
            if ex:
                ex.pop("_obj", None)
            res["orig"] = {"stdout": so, "log": lg, "globals": gl, "exc": ex}
        if "inst" not in want:
            return res
        # ---- analyses module + hook selection, the official way
        ananame = "vana_%d_%d" % (os.getpid(), _N[0])
        (casedir / (ananame + ".py")).write_text(ana_module_text(case["analyses"], case.get("select"), case.get("pre_select")))
        sys.path.insert(0, str(casedir))
        importlib.invalidate_caches()
        vrec.reset()
        vrec.CONSTRUCTED.clear()
        classes = ["%s.%s" % (ananame, a["cls"]) for a in case["analyses"]]
        sel_classes = classes + (["%s.VSelect" % ananame] if case.get("select") is not None else [])
        hooks = get_hooks_from_analysis(sel_classes)
        res["selected"] = sorted(hooks)
        # ---- optional history: a first instrumentation with other hooks, then restore the sources (the id maps stay)
        buf = io.StringIO()
        if case.get("pre_select"):
            pre_hooks = get_hooks_from_analysis(["%s.VPre" % ananame])
            first_maps = {}
            for rel in case.get("instrument", sorted(case["files"])):
                with contextlib.redirect_stdout(buf):
                    instrument_file(str(casedir / rel), pre_hooks)
                j = casedir / (rel[:-3] + "-dynapyt.json")
                if j.exists():
                    first_maps[rel] = json.loads(j.read_text())
                o = casedir / (rel + ".orig")
                if o.exists():
                    shutil.copyfile(o, casedir / rel)
                    o.unlink()
            res["first_idmaps"] = first_maps
        # ---- instrument
        rets = {}
        for rel in case.get("instrument", sorted(case["files"])):
            with contextlib.redirect_stdout(buf):
                try:
                    rets[rel] = instrument_file(str(casedir / rel), hooks)
                except BaseException as e:
                    rets[rel] = "RAISED:" + repr(e)
        res["instrument"] = rets
        res["instrument_stdout"] = buf.getvalue()[-2000:]
        res["texts"] = {rel: (casedir / rel).read_text() for rel in case["files"]}
        # ---- run instrumented
        sid = "verif-%d-%d" % (os.getpid(), _N[0])
        os.environ["DYNAPYT_SESSION_ID"] = sid
        covdir = casedir / "cov"
        if case.get("coverage"):
            os.environ["DYNAPYT_COVERAGE"] = str(covdir)
        else:
            os.environ.pop("DYNAPYT_COVERAGE", None)
        af = base / ("dynapyt_analyses-%s.txt" % sid)
        lines = []
        for a, c in zip(case["analyses"], classes):
            conf = "".join(";%s=%s" % (k, v) for k, v in (a.get("conf") or {}).items())
            lines.append(c + conf)
        af.write_text("\n".join(lines))
        old = RuntimeEngine._rt_engine
        if old is not None:
            old.end_execution_called = True
        RuntimeEngine._rt_engine = None
        vrec.reset()
        vrec.CONSTRUCTED.clear()
        vrec.WANT_FRAMES[0] = bool(case.get("frames"))
        for a in case["analyses"]:
            for h, vals in (a.get("script") or {}).items():
                vrec.SCRIPT[(a.get("tag", a["cls"]), h)] = [_mkval(v) for v in vals]
        err = io.StringIO()
        with contextlib.redirect_stderr(err):
            so, lg, gl, ex = _exec_entry(casedir, entry)
            if case.get("activities") and not ex:
                res["activities"] = _run_activities(sys.modules.get(entry), case["activities"])
            rt = RuntimeEngine._rt_engine
            ended_by_program = rt is None
            if rt is not None:
                try:
                    rt.end_execution()
                except BaseException as e:
                    res["end_execution_error"] = repr(e)
        import signal

        signal.signal(signal.SIGTERM, signal.SIG_DFL)
        signal.signal(signal.SIGINT, signal.default_int_handler)
        if af.exists():
            af.unlink()
        if ex:
            ex.pop("_obj", None)
        dels = [list(d) for d in vrec.LOG]
        res["inst"] = {"stdout": so, "log": lg, "globals": gl, "exc": ex, "deliveries": dels, "constructed": list(vrec.CONSTRUCTED), "ended_by_program": ended_by_program, "stderr": err.getvalue()[-500:]}
        if case.get("frames"):
            res["inst"]["frames"] = list(vrec.FRAMES)
        vrec.WANT_FRAMES[0] = False
        # ---- id maps
        idmaps = {}
        for rel in case["files"]:
            j = casedir / (rel[:-3] + "-dynapyt.json")
            if j.exists():
                try:
                    d = json.loads(j.read_text())
                    idmaps[str(casedir / rel) + ".orig"] = {int(k): [v["start_line"], v["start_column"], v["end_line"], v["end_column"]] for k, v in d["iid_to_location"].items()}
                except Exception as e:
                    idmaps[str(casedir / rel) + ".orig"] = "BAD:" + repr(e)
        res["idmaps"] = idmaps
        res["origs"] = {rel: ((casedir / (rel + ".orig")).read_text() if (casedir / (rel + ".orig")).exists() else None) for rel in case["files"]}
        if case.get("coverage"):
            cov = {}
            if covdir.exists():
                for f in covdir.glob("coverage-*.json"):
                    cov[f.name] = json.loads(f.read_text())
            res["coverage"] = cov
        return res
    finally:
        try:
            sys.path.remove(str(casedir))
        except ValueError:
            pass
        _purge(casedir)
        if not case.get("keep"):
            shutil.rmtree(casedir, ignore_errors=True)
        for stray in Path.cwd().glob("-dynapyt.json"):
            stray.unlink()


def _run_activities(mod, spec):
    """spec = {"kind": "threads"|"generators", "acts": [[fn name, arg], ...], "schedule": [activity index, ...]}
    Threads switch ONLY inside hooks (cooperative scheduler driven from the recorder callback)."""
    import threading
    import vrec
    import vsupport

    acts = spec["acts"]
    n = len(acts)
    schedule = list(spec["schedule"])
    state = {"pos": 0}
    owner = []  # activity index per delivery, parallel to vrec.LOG from `base` on
    base = len(vrec.LOG)
    results = [None] * n

    def pick(alive):
        for _ in range(len(schedule) + 1):
            if not schedule:
                break
            c = schedule[state["pos"] % len(schedule)]
            state["pos"] += 1
            if alive[c]:
                return c
        for i in range(n):
            if alive[i]:
                return i
        return None

    if spec["kind"] == "generators":
        gens = [getattr(mod, f)(a) for f, a in acts]
        alive = [True] * n
        cur = [None]

        def cb(tag, hook, args):
            owner.append(cur[0])

        vrec.HOOK_CALLBACK[0] = cb
        outs = [[] for _ in range(n)]
        while any(alive):
            i = pick(alive)
            cur[0] = i
            try:
                outs[i].append(vsupport.cr(next(gens[i])))
            except StopIteration:
                alive[i] = False
        vrec.HOOK_CALLBACK[0] = None
        results = outs
    else:
        sems = [threading.Semaphore(0) for _ in range(n)]
        alive = [True] * n
        tl = threading.local()
        done = threading.Semaphore(0)
        errors = []

        def cb(tag, hook, args):
            me = getattr(tl, "idx", None)
            owner.append(me)
            if me is None:
                return
            nxt = pick(alive)
            if nxt is not None and nxt != me:
                sems[nxt].release()
                sems[me].acquire()

        def body(i):
            tl.idx = i
            sems[i].acquire()
            try:
                results[i] = vsupport.cr(getattr(mod, acts[i][0])(acts[i][1]))
            except BaseException as e:
                errors.append(repr(e))
                results[i] = "EXC:" + type(e).__name__
            alive[i] = False
            nxt = pick(alive)
            if nxt is not None:
                sems[nxt].release()
            else:
                done.release()

        vrec.HOOK_CALLBACK[0] = cb
        ths = [threading.Thread(target=body, args=(i,), daemon=True) for i in range(n)]
        for t in ths:
            t.start()
        first = pick(alive)
        sems[first].release()
        ok = done.acquire(timeout=60)
        vrec.HOOK_CALLBACK[0] = None
        if not ok:
            return {"error": "scheduler deadlock", "errors": errors}
    dels = vrec.LOG[base:]
    return {"results": results, "owner": owner[:len(dels)], "base": base}


def _mkval(v):
    """scripted hook answers: JSON-able specs -> values"""
    if isinstance(v, list) and v and v[0] == "R":
        import vsupport

        def lazy(args):
            return vsupport.r()

        lazy._verif_lazy = True
        return lazy
    if isinstance(v, list) and v and v[0] == "exc":
        import vsupport

        return vsupport.E2(v[1])
    if isinstance(v, list) and v and v[0] == "tuple":
        return tuple(_mkval(x) for x in v[1])
    return v


_POOL = [None]


def pool(n=16):
    import multiprocessing as mp

    if _POOL[0] is None:
        _POOL[0] = mp.get_context("fork").Pool(n, maxtasksperchild=400)
    return _POOL[0]


def run_cases(cases, n=16):
    if not cases:
        return []
    return pool(n).map(run_case, cases, chunksize=max(1, len(cases) // (n * 4)))


def close_pool():
    if _POOL[0] is not None:
        _POOL[0].terminate()
        _POOL[0] = None
