"""Per-property obligations (PROVE) and implementation-side checks (CHECK)."""
import inspect
import itertools
import json
import random
import sys
from pathlib import Path

from common import VERIF, REPO

SUP = VERIF / "support"


def _witness():
    return (SUP / "witness_main.py").read_text(), (SUP / "witness_raise.py").read_text()


def _witness_nested():
    return (SUP / "witness_nested.py").read_text()


def _hier():
    import impl

    h, leaves = impl.all_leaf_hooks()
    names = []

    def walk(d):
        for k, v in d.items():
            names.append(k)
            walk(v)

    walk(h)
    seen = []
    for n in names:
        if n not in seen:
            seen.append(n)
    return h, leaves, seen


def _published():
    import impl  # noqa (sys.path)
    from dynapyt.analyses.TraceAll import TraceAll

    out = {}
    for name, fn in vars(TraceAll).items():
        if callable(fn) and not name.startswith("__"):
            try:
                out[name] = len(inspect.signature(fn).parameters) - 1
            except Exception:
                pass
    return out


EXEC_LEVEL = ("begin_execution", "end_execution", "uncaught_exception")


# =============================================================================================== C09
def prove_C09(ctx):
    ctx.prove(["Properties/C09.v"])


def check_C09(ctx):
    import runner

    ctx.stream("names", 150, 600)
    ctx.stream("used_leaves", 150, 500)
    main_src, raise_src = _witness()
    h, leaves, names = _hier()
    pub = _published()
    cases = []
    for hk in names:
        for mode in ("single", "all"):
            src = raise_src if hk == "uncaught_exception" else main_src
            cases.append({"id": "%s/%s" % (hk, mode), "files": {"main.py": src}, "entry": "main", "want": ("inst",),
                          "analyses": [{"cls": "A0", "hooks": {hk: None}}], "select": (names if mode == "all" else None)})
    # second witness: a hook that fires under all-hooks instrumentation must fire under single-hook instrumentation too
    nested = _witness_nested()
    ncases = []
    for hk in names:
        if hk in EXEC_LEVEL:
            continue
        for mode in ("single", "all"):
            ncases.append({"id": "nested:%s/%s" % (hk, mode), "files": {"main.py": nested}, "entry": "main", "want": ("inst",),
                           "analyses": [{"cls": "A0", "hooks": {hk: None}}], "select": (names if mode == "all" else None)})
    res = runner.run_cases(cases + ncases)
    nres = dict(zip([c["id"] for c in ncases], res[len(cases):]))
    res = res[:len(cases)]
    for hk in names:
        if hk in EXEC_LEVEL:
            continue
        rs, ra = nres["nested:%s/single" % hk], nres["nested:%s/all" % hk]
        if "harness_error" in rs or "harness_error" in ra:
            ctx.broken.append("harness error in C09 nested case %s: %s" % (hk, (rs.get("harness_error") or ra.get("harness_error"))[-300:]))
            continue
        ds = [d for d in _loc_dels(rs, "A0") if d[0] == hk]
        da = [d for d in _loc_dels(ra, "A0") if d[0] == hk]
        ctx.count(2, ["nested:" + hk])
        ctx.impl_traces += 2
        if da and not ds:
            ctx.violation("C09:dead_single:%s" % hk, "hook %s fires %d times on the nested witness under all-hooks instrumentation but never when it is the only hook" % (hk, len(da)), {"case": next(c for c in ncases if c["id"] == "nested:%s/single" % hk)})
        else:
            missing = sorted(set(x[1] for x in da if x[1]) - set(x[1] for x in ds if x[1]))
            if missing:
                lines = nested.splitlines()
                import re as _re

                def seg(loc):
                    (sl, sc, el, ec) = loc[1]
                    return lines[sl - 1][sc:] if sl <= len(lines) else ""

                aug = all(_re.search(r"(\+|-|\*|/|//|%|\*\*|<<|>>|&|\||\^|@)=", seg(m)) and "==" not in seg(m).split("=")[0] for m in missing)
                key = "C09:sites_differ:augassign" if aug else "C09:sites_differ:%s" % hk
                ctx.violation(key, "hook %s: constructs at %r deliver it under all-hooks instrumentation but not when it is the only hook" % (hk, [m[1] for m in missing][:4]), {"case": next(c for c in ncases if c["id"] == "nested:%s/single" % hk)})
    for c, r in zip(cases, res):
        hk, mode = c["id"].split("/")
        if "harness_error" in r:
            ctx.broken.append("harness error in C09 case %s: %s" % (c["id"], r["harness_error"][-300:]))
            continue
        dl = [d for d in r["inst"]["deliveries"] if d[2] == hk]
        problems = []
        if not dl:
            problems.append("never invoked")
        for d in dl:
            args = d[3]
            if hk in pub and len(args) != pub[hk]:
                problems.append("arity %d, published %d" % (len(args), pub[hk]))
                break
            if hk not in EXEC_LEVEL:
                if not (len(args) >= 2 and isinstance(args[0], str) and args[0].endswith(".py.orig") and isinstance(args[1], int)):
                    problems.append("first two arguments are not (original-source path, int id): %r" % (args[:2],))
                    break
        if r["inst"]["exc"] and hk != "uncaught_exception":
            problems.append("witness program failed: %s" % (r["inst"]["exc"],))
        ctx.count(1, [c["id"]], [{"hook": hk, "mode": mode, "deliveries": len(dl), "first": dl[0][3][1:] if dl else None}] if hk in ("add", "_float") and mode == "single" else [])
        ctx.impl_traces += 1
        if problems:
            p0 = problems[0]
            if p0 == "never invoked":
                key = ("C09:exec_level_alone:%s" if (hk in EXEC_LEVEL and mode == "single") else "C09:dead:%s") % hk
            elif p0.startswith("arity"):
                key = "C09:arity:%s" % hk
            elif p0.startswith("first two"):
                a = dl[0][3] if dl else []
                bad = next((d[3] for d in dl if not (len(d[3]) >= 2 and isinstance(d[3][0], str) and isinstance(d[3][1], int))), a)
                swapped = len(bad) >= 2 and isinstance(bad[0], int) and isinstance(bad[1], str)
                key = ("C09:swapped_location:%s" if swapped else "C09:location:%s") % hk
            else:
                key = "C09:witness:%s" % hk
            ctx.violation(key, "hook %s (%s-hook instrumentation): %s" % (hk, mode, "; ".join(problems)),
                          {"case": c, "problems": problems})


# =============================================================================================== shared e2e helpers
def _programs(ctx, n):
    """programs used by the engine-level end-to-end oracles: the witness program plus generated ones"""
    main_src, _ = _witness()
    progs = [("witness", {"main.py": main_src}), ("calls", {"main.py": (SUP / "witness_calls.py").read_text()}), ("nested", {"main.py": _witness_nested()})]
    try:
        import genprog

        rng = random.Random("progs-%d" % ctx.seed)
        for i in range(n):
            progs.append(("gen%d" % i, {"main.py": genprog.gen_source(rng)}))
    except ImportError:
        pass
    return progs


HOOK_POOL = ["integer", "string", "boolean", "literal", "add", "binary_operation", "pre_call", "post_call", "read_identifier", "write",
             "enter_if", "exit_if", "enter_for", "function_enter", "_return", "comparison", "runtime_event", "memory_access", "control_flow_event",
             "begin_execution", "end_execution", "enter_while", "_break", "read_attribute", "read_subscript", "equal", "less_than"]


IID_ARG_HOOKS = ("_return", "_yield", "implicit_return", "_break", "_continue")


def _loc_dels(r, tag=None):
    """deliveries with (path, iid) replaced by (file name, location), optionally for one analysis tag"""
    out = []
    idm = r.get("idmaps", {})
    for d in r["inst"]["deliveries"]:
        if tag is not None and d[0] != tag:
            continue
        args = d[3]
        if len(args) >= 2 and isinstance(args[0], str) and args[0] in idm and isinstance(idm[args[0]], dict) and args[1] in idm[args[0]]:
            loc = (Path(args[0]).name, tuple(idm[args[0]][args[1]]))
            rest = list(args[2:])
            if d[2] in IID_ARG_HOOKS and rest:
                # these hooks carry a second construct id (function / loop): compare it by location too
                try:
                    rest[0] = "loc%r" % (tuple(idm[args[0]][int(rest[0])]),)
                except (KeyError, ValueError, TypeError):
                    pass
            out.append((d[2], loc, tuple(rest)))
        else:
            out.append((d[2], None, tuple(map(str, args))))
    return out


# =============================================================================================== C10
def prove_C10(ctx):
    ctx.prove(["Properties/C10.v"])


def check_C10(ctx):
    import runner

    ctx.stream("dispatch", 150, 1200)
    rng = random.Random("c10-%d" % ctx.seed)
    progs = _programs(ctx, 6 if ctx.quick else 40)
    cases = []
    groups = []
    for pname, files in progs:
        for rep in range(2 if ctx.quick else 4):
            k = rng.choice([2, 2, 3, 4])
            ans = []
            for i in range(k):
                hooks = rng.sample(HOOK_POOL, rng.randrange(1, 6))
                conf = {"opt%d" % i: "v%d" % rng.randrange(9)} if rng.random() < 0.5 else {}
                ans.append({"cls": "A%d" % i, "hooks": {hk: None for hk in hooks}, "conf": conf})
            if rng.random() < 0.3:
                ans[1]["hooks"] = dict(ans[0]["hooks"])  # identical hook sets: order within an event is observable
            if rng.random() < 0.35:
                # the same analysis class listed twice (distinguished by its tag option)
                j = rng.randrange(1, k)
                ans[j] = {"cls": ans[0]["cls"], "tag": "A%d" % j, "hooks": ans[0]["hooks"], "conf": dict(ans[j].get("conf") or {}, tag="A%d" % j)}
            union = sorted(set(hk for a in ans for hk in a["hooks"]))
            order = list(range(k))
            rng.shuffle(order)
            full = {"id": "%s/%d/all" % (pname, rep), "files": files, "want": ("inst",), "analyses": [ans[i] for i in order], "select": union}
            solos = [{"id": "%s/%d/solo%d" % (pname, rep, i), "files": files, "want": ("inst",), "analyses": [ans[i]], "select": union} for i in range(k)]
            groups.append((full, solos, ans, order))
            cases.append(full)
            cases += solos
    res = dict(zip([c["id"] for c in cases], runner.run_cases(cases)))
    for full, solos, ans, order in groups:
        rf = res[full["id"]]
        if "harness_error" in rf:
            ctx.broken.append("harness error C10 %s: %s" % (full["id"], rf["harness_error"][-300:]))
            continue
        ctx.count(1, [full["id"] + json.dumps(full["analyses"], sort_keys=True)], [{"program": full["id"], "analyses": [(a["cls"], sorted(a["hooks"]), a.get("conf")) for a in full["analyses"]], "deliveries": len(rf["inst"]["deliveries"])}])
        ctx.impl_traces += 1
        # (1) each analysis receives what it receives alone
        for i, s in enumerate(solos):
            rs = res[s["id"]]
            if "harness_error" in rs:
                ctx.broken.append("harness error C10 %s" % s["id"])
                continue
            a = _loc_dels(rf, ans[i].get("tag", ans[i]["cls"]))
            b = _loc_dels(rs, ans[i].get("tag", ans[i]["cls"]))
            if a != b:
                j = next((x for x in range(min(len(a), len(b))) if a[x] != b[x]), min(len(a), len(b)))
                ctx.violation("C10:isolation", "analysis A%d receives a different sequence among %d analyses than alone (first difference at %d: %r vs %r)" % (i, len(ans), j, a[j:j + 1], b[j:j + 1]), {"full": full, "solo": s})
        # a program in which the selected hooks instrument nothing never creates the engine: no session to speak of
        if "RuntimeEngine()" not in (rf.get("texts") or {}).get("main.py", ""):
            continue
        # (2) begin first / end last for each analysis that implements them
        for a in full["analyses"]:
            seq = [d[2] for d in rf["inst"]["deliveries"] if d[0] == a.get("tag", a["cls"])]
            if "begin_execution" in a["hooks"] and (seq.count("begin_execution") != 1 or seq[0] != "begin_execution"):
                ctx.violation("C10:begin", "analysis %s: begin_execution not exactly once first: %r" % (a["cls"], seq[:3]), {"full": full})
            if "end_execution" in a["hooks"] and (seq.count("end_execution") != 1 or seq[-1] != "end_execution"):
                ctx.violation("C10:end", "analysis %s: end_execution not exactly once last: %r" % (a["cls"], seq[-3:]), {"full": full})
        # (3) within one event: listed order
        pos = {a.get("tag", a["cls"]): n for n, a in enumerate(full["analyses"])}
        dl = rf["inst"]["deliveries"]
        for x, y in zip(dl, dl[1:]):
            if x[2] == y[2] and x[3] == y[3] and x[0] != y[0] and x[2] not in ("begin_execution", "end_execution"):
                if pos[x[0]] > pos[y[0]] and not any(z[2] == x[2] and z[3] == x[3] and z[0] == y[0] for z in dl[:dl.index(x)][-len(pos):]):
                    ctx.violation("C10:order", "event %s delivered to %s before %s although listed after" % (x[2], x[0], y[0]), {"full": full})
                    break
        for a in full["analyses"]:
            ex = [(t, kw) for t, kw in rf["inst"]["constructed"] if t == a.get("tag", a["cls"])]
            if True:
                want = sorted((k_, v_) for k_, v_ in (a.get("conf") or {}).items() if k_ != "tag")
                if not ex or sorted(map(tuple, ex[-1][1])) != [tuple(x) for x in want]:
                    ctx.violation("C10:options", "analysis %s constructed with %r, configured %r" % (a["cls"], ex, want), {"full": full})


# =============================================================================================== C11
def prove_C11(ctx):
    ctx.prove(["Properties/C11.v"])


FILTERABLE = {"integer": ["1", "2", "6", "0"], "boolean": ["True", "False"], "string": ['"s"', "'x'", '"a"'], "pre_call": ["fn", "decorated", "list", "k", "nosuch", "foo", "bar", "apply"], "post_call": ["fn", "decorated", "list", "k", "nosuch", "foo", "bar", "apply"]}


def check_C11(ctx):
    import runner

    ctx.stream("filters", 150, 800)
    ctx.stream("dispatch", 100, 600)
    ctx.stream("used_leaves", 150, 500)
    rng = random.Random("c11-%d" % ctx.seed)
    progs = _programs(ctx, 6 if ctx.quick else 40)
    cases, groups = [], []
    for pname, files in progs:
        for hk, pats_pool in FILTERABLE.items():
            for kind in ("only", "ignore"):
                pats = rng.sample(pats_pool, rng.randrange(1, 3))
                # the other hook of the same analysis: alternately an ancestor of the filtered hook and a random one
                anc = {"integer": ["literal", "runtime_event"], "boolean": ["literal", "runtime_event"], "string": ["literal", "runtime_event"],
                       "pre_call": ["control_flow_event", "runtime_event"], "post_call": ["control_flow_event", "runtime_event"]}[hk]
                other = rng.choice(anc) if (kind == "only") == (len(groups) % 2 == 0) else rng.choice([x for x in HOOK_POOL if x != hk and x not in EXEC_LEVEL])
                a_f = {"cls": "A0", "hooks": {hk: [kind, pats], other: None}}
                a_u = {"cls": "A0", "hooks": {hk: None, other: None}}
                b = {"cls": "B0", "hooks": {hk: None}}
                cf = {"id": "%s/%s/%s/f" % (pname, hk, kind), "files": files, "analyses": [a_f, b]}
                cu = {"id": "%s/%s/%s/u" % (pname, hk, kind), "files": files, "analyses": [a_u, b]}
                cases += [cf, cu]
                groups.append((cf, cu, hk, kind, pats, other))
    res = dict(zip([c["id"] for c in cases], runner.run_cases(cases)))
    for cf, cu, hk, kind, pats, other in groups:
        rf, ru = res[cf["id"]], res[cu["id"]]
        if "harness_error" in rf or "harness_error" in ru:
            ctx.broken.append("harness error C11 %s: %s" % (cf["id"], (rf.get("harness_error") or ru.get("harness_error"))[-300:]))
            continue
        ctx.count(1, [cf["id"] + repr(pats)], [{"program": cf["id"], "hook": hk, "kind": kind, "patterns": pats}])
        ctx.impl_traces += 2
        f_h = [d for d in _loc_dels(rf, "A0") if d[0] == hk]
        u_h = [d for d in _loc_dels(ru, "A0") if d[0] == hk]
        # subsequence with identical arguments
        it = iter(u_h)
        if not all(any(x == y for y in it) for x in f_h):
            ctx.violation("C11:subsequence", "filtered %s deliveries are not a subsequence of the unfiltered ones" % hk, {"filtered": cf, "unfiltered": cu})
        # the other hook of the same analysis and the other analysis are untouched
        if [d for d in _loc_dels(rf, "A0") if d[0] == other] != [d for d in _loc_dels(ru, "A0") if d[0] == other]:
            ctx.violation("C11:other_hook", "filter on %s changed what hook %s of the same analysis receives" % (hk, other), {"filtered": cf, "unfiltered": cu})
        if _loc_dels(rf, "B0") != _loc_dels(ru, "B0"):
            ctx.violation("C11:other_analysis", "filter on %s of A0 changed what analysis B0 receives" % hk, {"filtered": cf, "unfiltered": cu})
        if (rf["inst"]["stdout"], rf["inst"]["exc"] and rf["inst"]["exc"]["type"], rf["inst"]["globals"]) != (ru["inst"]["stdout"], ru["inst"]["exc"] and ru["inst"]["exc"]["type"], ru["inst"]["globals"]):
            ctx.violation("C11:behaviour", "a filter on %s changed the program's behaviour" % hk, {"filtered": cf, "unfiltered": cu})
        # exactness w.r.t. the name / literal token of the event
        src_lines = cf["files"]["main.py"].splitlines()
        fset = {}
        for d in f_h:
            fset[d] = fset.get(d, 0) + 1
        for d in u_h:
            tok = _token_of(hk, d, src_lines)
            alias = ""
            if hk in ("pre_call", "post_call"):
                # the "name" of a call event is the callee's own name (the documentation says "by function name")
                callee = str(d[2][0] if hk == "pre_call" else (d[2][1] if len(d[2]) > 1 else ""))
                import re as _re

                mm = _re.match(r"<(?:fn|class) (\w+)>", callee)
                name = mm.group(1) if mm else None
                if name is not None and name != tok:
                    alias = ":alias"
                tok = name if name is not None else tok
            if tok is None:
                continue
            listed = tok in pats
            delivered = fset.get(d, 0) > 0
            if delivered:
                fset[d] -= 1
            sub = ""
            if hk in ("pre_call", "post_call"):
                callee = d[2][0] if hk == "pre_call" else (d[2][1] if len(d[2]) > 1 else "")
                sub = ":class_callee" if str(callee).startswith("<class ") else ""
            if kind == "only" and listed and not delivered:
                ctx.violation("C11:only_exact:" + hk + sub + alias, "only(%r): event for %r withheld" % (pats, tok), {"filtered": cf})
            if kind == "ignore" and listed and delivered:
                ctx.violation("C11:ignore_exact:" + hk + sub, "ignore(%r): event for %r delivered" % (pats, tok), {"filtered": cf})
            unrelated = not listed and not any(str(x).strip("'\"") in [p.strip("'\"") for p in pats] for x in d[2])
            if unrelated and kind == "only" and delivered:
                ctx.violation("C11:only_unrelated", "only(%r): unrelated event %r delivered" % (pats, (tok, d[2])), {"filtered": cf})
            if unrelated and kind == "ignore" and not delivered:
                ctx.violation("C11:ignore_unrelated", "ignore(%r): unrelated event %r withheld" % (pats, (tok, d[2])), {"filtered": cf})


def _token_of(hk, d, src_lines):
    """the name / literal token the filter documentation refers to, from the original source"""
    loc = d[1]
    if loc is None:
        return None
    (sl, sc, el, ec) = loc[1]
    if sl != el or sl > len(src_lines):
        return None
    text = src_lines[sl - 1][sc:ec]
    if hk in ("integer", "boolean", "string"):
        return text
    if hk in ("pre_call", "post_call"):
        name = text.split("(")[0]
        return name if name.isidentifier() else None
    return None


# =============================================================================================== C13
def prove_C13(ctx):
    ctx.prove(["Properties/C13.v"])


def check_C13(ctx):
    import runner

    ctx.stream("dispatch", 150, 1200)
    ctx.stream("coverage_merge", 150, 1000)
    rng = random.Random("c13-%d" % ctx.seed)
    progs = _programs(ctx, 8 if ctx.quick else 60)
    cases = []
    for pname, files in progs:
        for rep in range(2):
            k = rng.choice([1, 2, 3])
            ans = [{"cls": rng.choice(["CovA", "CovB"]) if rng.random() < 0.3 else "Cov%d" % i, "tag": "T%d" % i, "hooks": {hk: None for hk in rng.sample([x for x in HOOK_POOL if x not in EXEC_LEVEL], rng.randrange(1, 5))}} for i in range(k)]
            for a in ans:
                if rng.random() < 0.5:
                    fh = rng.choice(sorted(FILTERABLE))
                    a["hooks"][fh] = [rng.choice(["only", "ignore"]), rng.sample(FILTERABLE[fh], 2)]
            # distinct class names required by the analyses module; same class twice is exercised by the dispatch stream
            seen = set()
            for a in ans:
                while a["cls"] in seen:
                    a["cls"] += "x"
                seen.add(a["cls"])
            cases.append({"id": "%s/%d/cov" % (pname, rep), "files": files, "analyses": ans, "coverage": True})
            cases.append({"id": "%s/%d/nocov" % (pname, rep), "files": files, "analyses": ans, "coverage": False})
    res = dict(zip([c["id"] for c in cases], runner.run_cases(cases)))
    for c in cases:
        if not c["coverage"]:
            continue
        r = res[c["id"]]
        rn = res[c["id"][:-3] + "nocov"]
        if "harness_error" in r or "harness_error" in rn:
            ctx.broken.append("harness error C13 %s: %s" % (c["id"], (r.get("harness_error") or rn.get("harness_error"))[-300:]))
            continue
        ctx.count(1, [c["id"] + json.dumps(c["analyses"], sort_keys=True)], [{"program": c["id"], "analyses": [(a["cls"], sorted(a["hooks"])) for a in c["analyses"]]}])
        ctx.impl_traces += 2
        # behaviour unchanged by coverage
        key = lambda x: (x["inst"]["stdout"], x["inst"]["exc"] and (x["inst"]["exc"]["type"], x["inst"]["exc"]["msg"]), x["inst"]["globals"], [(d[0], d[2], d[3][1:]) for d in x["inst"]["deliveries"]])
        if key(r) != key(rn):
            ex = r["inst"]["exc"]
            k_ = "C13:crash:uncaught" if (rn["inst"]["exc"] and ex and ex["type"] != rn["inst"]["exc"]["type"]) else "C13:behaviour"
            ctx.violation(k_, "enabling coverage changed the run: exception %r vs %r" % (ex and (ex["type"], ex["msg"][:80]), rn["inst"]["exc"] and rn["inst"]["exc"]["type"]), {"case": c})
            continue
        # counts = tally of location-carrying deliveries
        tag2cls = {a["tag"]: a["cls"] for a in c["analyses"]}
        tally = {}
        idm = r["idmaps"]
        for d in r["inst"]["deliveries"]:
            args = d[3]
            if len(args) >= 2 and isinstance(args[0], str) and args[0] in idm and isinstance(args[1], int):
                line = idm[args[0]].get(args[1], [0])[0]
                kk = (args[0], str(line), tag2cls[d[0]])
                tally[kk] = tally.get(kk, 0) + 1
        covs = list(r.get("coverage", {}).values())
        if not covs and "RuntimeEngine()" not in (r.get("texts") or {}).get("main.py", ""):
            continue  # nothing was instrumented: no engine, no coverage file
        if len(covs) != 1:
            ctx.violation("C13:files", "expected exactly one coverage file, found %d" % len(covs), {"case": c})
            continue
        flat = {(f, ln, an): n for f, lines in covs[0].items() for ln, ans in lines.items() for an, n in ans.items() if f in idm}
        stray = sorted(f for f in covs[0] if f not in idm)
        if flat != tally:
            diff = [(kk, flat.get(kk), tally.get(kk)) for kk in sorted(set(flat) | set(tally)) if flat.get(kk) != tally.get(kk)][:3]
            ctx.violation("C13:counts", "coverage counts differ from the deliveries received: %r" % (diff,), {"case": c})
        if stray:
            ctx.violation("C13:stray:%s" % ("empty" if stray == [""] else "other"), "coverage has entries for files that are no instrumented source: %r" % (stray,), {"case": c})


# =============================================================================================== C12
def prove_C12(ctx):
    ctx.prove(["Properties/C12.v"], aux=["Properties/C12_refuted.v"])


def _life_causes(body, cov, depth=0):
    """known causes for which the unchanged code breaks the lifecycle grammar"""
    causes = set()

    def escapes(b):  # does an exception escape this module body?
        for it in b:
            if it[0] in ("raise", "evraise"):
                return True
            if it[0] == "exit":
                return False
            if it[0] == "import":
                if escapes(it[1]) and (not it[2] or cov):
                    return True
        return False

    def walk(b, d):
        for it in b:
            if it[0] in ("raise", "evraise"):
                if cov:
                    causes.add("C12:coverage_replaces_exception")
                return
            if it[0] == "exit":
                return
            if it[0] == "import":
                walk(it[1], d + 1)
                if escapes(it[1]):
                    causes.add("C12:handled_reported_uncaught" if (it[2] and not cov) else "C12:uncaught_twice")
                    if not it[2] or cov:
                        return

    walk(body, 0)
    return causes


def _grammar_ok(notes):
    by = {}
    for k, w in notes:
        by.setdefault(k, []).append(w)
    for k, seq in by.items():
        st = 0
        for w in seq:
            if st == 0 and w == "begin":
                st = 1
            elif st == 1 and w == "ev":
                pass
            elif st == 1 and w == "uncaught":
                st = 2
            elif st in (1, 2) and w == "end":
                st = 3
            else:
                return False
        if st != 3:
            return False
    return True


def check_C12(ctx):
    import streams

    n = 64 if ctx.quick else 600
    done = 0
    shard = 0
    while done < n:
        m = min(200, n - done)
        res = streams.run_stream("lifecycle", ctx.seed * 1000 + shard, m, ctx.work)
        shard += 1
        done += m
        st = ctx.streams.setdefault("lifecycle", {"cases": 0, "disagreements": 0, "dist": {}})
        st["cases"] += len(res["cases"])
        for k, v in res["dist"].items():
            st["dist"][k] = st["dist"].get(k, 0) + v
        if res["failing"] is None:
            ctx.broken.append("correspondence stream lifecycle could not be evaluated: " + res["error"][-400:])
            continue
        disagree, model_gram = res["failing"]
        for i in disagree:
            st["disagreements"] += 1
            ctx.broken.append("model/implementation disagree: stream lifecycle case %d (seed %d): %s" % (i, ctx.seed * 1000 + shard - 1, json.dumps(res["cases"][i], default=str)[:500]))
        for i, c in enumerate(res["cases"]):
            ctx.count(1, [json.dumps([c["body"], c["mode"], c["coverage"]])], [{"body": c["body"], "mode": c["mode"], "coverage": c["coverage"], "observed": c["observed"], "outcome": c["outcome"]}])
            ctx.impl_traces += 1
            ok = _grammar_ok(c["observed"]) and c["outcome"] != 3
            # the uncaught report must appear iff an exception left the program
            has_unc = any(w == "uncaught" for _, w in c["observed"])
            if ok and has_unc != (c["outcome"] == 1):
                ok = False
            if c["coverage"] and c["covfiles"] != len({k for k, _ in c["observed"]}) and ok:
                ctx.violation("C12:coverage_files", "%d coverage files for %d engines" % (c["covfiles"], len({k for k, _ in c["observed"]})), {"lifecycle_case": c})
            if c["stray"]:
                ctx.violation("C12:stray_idmap", "a file -dynapyt.json was created in the working directory (coverage accounting of runtime_event('', -1))", {"lifecycle_case": c})
            later = {}
            for k_, w_ in c["observed"]:
                if k_ >= 1:
                    later.setdefault(k_, []).append((k_, w_))
            for k_, seq_ in later.items():
                if not _grammar_ok(seq_):
                    ctx.violation("C12:grammar:later_engine", "engine %d (created after an earlier engine of the same process had ended) is not told begin/end properly: %r" % (k_, [w for _, w in seq_]), {"lifecycle_case": c})
            if not ok:
                causes = _life_causes(c["body"], False)  # coverage no longer changes the lifecycle (fix 61a6cb4)
                if causes:
                    for cause in sorted(causes)[:1]:
                        ctx.violation(cause, "lifecycle grammar broken: observed %r outcome %d" % (c["observed"], c["outcome"]), {"lifecycle_case": c})
                else:
                    ctx.violation("C12:grammar", "lifecycle grammar broken with no known cause: observed %r outcome %d" % (c["observed"], c["outcome"]), {"lifecycle_case": c})


# =============================================================================================== C02
def prove_C02(ctx):
    ctx.prove(["Properties/C02.v"])


def check_C02(ctx):
    import multiprocessing as mp
    import sweep
    import impl

    ctx.stream("files", 80, 600)
    ctx.stream("binds", 200, 2000)
    h, leaves, names = _hier()
    rng = random.Random("c02-%d" % ctx.seed)
    files = sweep.corpus_files()
    families = {}
    for top in h.get("runtime_event", {}):
        sub = h["runtime_event"][top]
        if sub:
            fl = []

            def lv(d):
                for k, v in d.items():
                    if v:
                        lv(v)
                    else:
                        fl.append(k)

            lv(sub)
            families[top] = sorted(set(fl))
    if ctx.quick:
        small = [f for f in files if f.stat().st_size < 40000]
        sample = rng.sample(small, min(150, len(small)))
    else:
        sample = files
    jobs = []
    for f in sample:
        sels = [("all", leaves)]
        fam = rng.choice(sorted(families))
        sels.append(("family:" + fam, families[fam]))
        nsub = 1 if ctx.quick else 3
        for _ in range(nsub):
            hs = [rng.choice(leaves)] if rng.random() < 0.3 else rng.sample(leaves, rng.randrange(2, 12))
            sels.append(("subset:" + ",".join(sorted(hs)), hs))
        if not ctx.quick:
            for fam2 in sorted(families):
                if fam2 != fam:
                    sels.append(("family:" + fam2, families[fam2]))
        for label, hs in sels:
            jobs.append((str(f), {l: {} for l in hs}, label))
    # generated modules: every shape of module prologue (docstring, comments, one or several __future__ lines, blank lines)
    gen_dir = ctx.work.sub("c02gen")
    protos = []
    for doc in ("", '"""module doc"""\n'):
        for fut in ([], ["from __future__ import annotations"], ["from __future__ import annotations", "from __future__ import division"],
                    ["from __future__ import annotations, division", "from __future__ import generator_stop"]):
            for sep in ("", "\n", "# a comment\n"):
                for init in (False, True):
                    body = "import os\nx: int = 1 + 2\n__version__ = '1.0'\n__all__ = ['x']\ndef f(a):\n    return a * 2\ny = f(x)\n"
                    src = doc + sep.join(l + "\n" for l in fut) + sep + body
                    protos.append((src, init))
    for gi, (src, init) in enumerate(protos):
        gd = gen_dir / ("g%d" % gi)
        gd.mkdir()
        gp = gd / ("__init__.py" if init else "m.py")
        gp.write_text(src)
        for label, hs in (("all", leaves), ("family:" + rng.choice(sorted(families)), None), ("single:add", ["add"]), ("single:write", ["write"])):
            if hs is None:
                hs = families[label.split(":")[1]]
            jobs.append((str(gp), {l: {} for l in hs}, "generated-prologue/" + label))
    # regression sources: one per repaired defect / recorded finding of this property, with the hook selection that showed it
    regs = [
        ("for_target_literal", "xs = [(1, 2), (3, 4)]\nfor i, n in xs:\n    t = i + n\nfor (a, b) in xs:\n    pass\n", ["_tuple"]),            # fixed d309581
        ("for_target_literal_all_but_for", "xs = [(1, 2)]\nfor i, n in xs:\n    pass\n", [l for l in leaves if l not in ("enter_for", "normal_exit_for")]),
        ("match_pattern", "class C:\n    RED = 1\nx = 1\nmatch x:\n    case C.RED:\n        y = 1\n    case _:\n        y = 2\n", leaves),   # finding
        ("comprehension_target", "d = {}\nxs = [1, 2]\nys = [1 for d[0] in xs]\n", leaves),                                                  # finding
    ]
    reg_dir = ctx.work.sub("c02reg")
    for name_, src_, hs_ in regs:
        rd = reg_dir / name_
        rd.mkdir()
        rp_ = rd / "m.py"
        rp_.write_text(src_)
        jobs.append((str(rp_), {l: {} for l in hs_}, "regression/" + name_))
    with mp.get_context("fork").Pool(16) as pool:
        res = pool.map(sweep.check_file, jobs, chunksize=2)
    st = {"accepted": 0, "declined": 0, "declined_valid": 0, "files": len(sample), "jobs": len(jobs)}
    for r in res:
        st[r["status"]] = st.get(r["status"], 0) + 1
        if r.get("declined_valid") is not None:
            st["declined_valid"] += 1
        ctx.count(1, [r["file"] + "|" + r["label"]], [{"file": r["file"], "hooks": r["label"][:80], "status": r["status"]}] if r["status"] != "accepted" else [])
        ctx.impl_traces += 1
        for key, what in r["problems"]:
            ctx.violation(key, "%s [%s]: %s" % (r["file"], r["label"][:120], what), {"file": r["file"], "hooks": r["label"], "problem": what})
    ctx.streams["corpus_sweep"] = {"cases": len(jobs), "disagreements": 0, "dist": st}
    ctx.notes["corpus"] = "files available offline: %d (CPython 3.12 stdlib, /venv site-packages, /repo); this run: %d files x hook selections = %d instrumentations" % (len(files), len(sample), len(jobs))


# =============================================================================================== C14
def prove_C14(ctx):
    ctx.prove(["Properties/C14.v"])


def _instr_job(job):
    """instrument (a copy of) the given sources in a fresh subprocess with the given hash seed / mode; return bytes of all files"""
    import subprocess

    d, seed, mode, hooks = job
    code = r"""
import sys, io, contextlib, json
from pathlib import Path
from dynapyt.instrument.instrument import instrument_file, instrument_files
d = Path(sys.argv[1]); mode = sys.argv[2]; hooks = json.loads(sys.argv[3])
files = sorted(str(p) for p in d.rglob('*.py'))
with contextlib.redirect_stdout(io.StringIO()):
    if mode == 'seq':
        for f in files: instrument_file(f, {h: {} for h in hooks})
    elif mode == 'rev':
        for f in reversed(files): instrument_file(f, {h: {} for h in hooks})
    elif mode == 'twice':
        for f in files: instrument_file(f, {h: {} for h in hooks})
        for f in files: instrument_file(f, {h: {} for h in hooks})
    elif mode == 'pool':
        import dynapyt.instrument.instrument as I
        I.get_hooks_from_analysis = lambda analyses: {h: {} for h in hooks}
        instrument_files(files, ['x'])
"""
    from common import env_for_impl

    env = env_for_impl(Path(d).parent / "tmp" if (Path(d).parent / "tmp").exists() else None)
    env["PYTHONHASHSEED"] = str(seed)
    p = subprocess.run([sys.executable, "-c", code, d, mode, json.dumps(hooks)], env=env, capture_output=True, text=True, timeout=600)
    out = {}
    for f in sorted(Path(d).rglob("*")):
        if f.is_file():
            out[str(f.relative_to(d))] = f.read_bytes()
    return {"rc": p.returncode, "files": out, "stderr": p.stderr[-300:]}


def check_C14(ctx):
    import shutil
    from multiprocessing.pool import ThreadPool

    ctx.stream("files", 60, 400)
    ctx.stream("iids", 100, 600)
    h, leaves, names = _hier()
    rng = random.Random("c14-%d" % ctx.seed)
    progs = _programs(ctx, 4 if ctx.quick else 30)
    extra = (SUP / "witness_sitesens.py")
    srcs = dict((n, f["main.py"]) for n, f in progs)
    if extra.exists():
        srcs["sitesens"] = extra.read_text()
    srcs["crlf"] = "x = 1\r\ny = x + 2\r\ndef f(a):\r\n    return a * 2\r\nz = f(y)\r\n"
    srcs["cr_mixed"] = "x = 1\ny = [x,\r\n     2]\n"
    base = ctx.work.sub("c14")
    groups = []
    jobs = []
    gi = 0
    for rep in range(2 if ctx.quick else 6):
        chosen = rng.sample(sorted(srcs), min(len(srcs), rng.randrange(2, 5)))
        if rep == 0 and "crlf" not in chosen:
            chosen.append("crlf")
        hooks = leaves if rep % 2 == 0 else rng.sample(leaves, rng.randrange(3, 20))
        variants = [("seq", 0), ("seq", 1), ("seq", 12345), ("rev", 3), ("pool", 7), ("twice", 5)]
        dirs = []
        for (mode, seed) in variants:
            d = base / ("g%d-%s-%d" % (gi, mode, seed))
            (d / "pkg").mkdir(parents=True)
            for i, n in enumerate(chosen):
                (d / ("pkg" if i % 2 else ".") / ("%s.py" % n)).write_bytes(srcs[n].encode())
            dirs.append(d)
            jobs.append((str(d), seed, mode, list(hooks)))
        groups.append((gi, chosen, hooks, variants, dirs))
        gi += 1
    with ThreadPool(12) as tp:
        res = tp.map(_instr_job, jobs)
    ri = 0
    for gi, chosen, hooks, variants, dirs in groups:
        rs = res[ri:ri + len(variants)]
        ri += len(variants)

        def norm(r, d):
            # file contents with the absolute directory replaced (the path is embedded in the instrumented text and id map)
            return {k: v.replace(str(d).encode(), b"<DIR>") for k, v in r["files"].items()}

        ref = norm(rs[0], dirs[0])
        ctx.count(len(variants), ["g%d:%s:%d" % (gi, ",".join(chosen), len(hooks))], [{"files": chosen, "hooks": len(hooks), "variants": variants, "outputs": sorted(ref)}])
        ctx.impl_traces += len(variants)
        for (mode, seed), r, d in zip(variants, rs, dirs):
            if r["rc"] != 0:
                ctx.violation("C14:crash:%s" % mode, "instrumentation (%s, hash seed %d) failed: %s" % (mode, seed, r["stderr"]), {"files": chosen, "hooks": hooks, "mode": mode, "seed": seed})
                continue
            cur = norm(r, d)
            if cur != ref:
                diff = sorted(k for k in set(cur) | set(ref) if cur.get(k) != ref.get(k))
                kind = {"seq": "hash_seed", "rev": "file_order", "pool": "worker_pool", "twice": "idempotence"}[mode]
                ctx.violation("C14:%s" % kind, "instrumenting %r with %d hooks (%s, hash seed %d) differs from the sequential seed-0 result in %r" % (chosen, len(hooks), mode, seed, diff[:4]), {"files": {n: srcs[n] for n in chosen}, "hooks": hooks, "mode": mode, "seed": seed, "differs": diff})
        # restore: copying the preserved originals back gives the original bytes
        d0 = dirs[0]
        for i, n in enumerate(chosen):
            p = d0 / ("pkg" if i % 2 else ".") / ("%s.py" % n)
            o = Path(str(p) + ".orig")
            if not o.exists() or o.read_bytes() != srcs[n].encode():
                ctx.violation("C14:restore", "preserved original of %s missing or different" % n, {"file": n})
    shutil.rmtree(base, ignore_errors=True)


# =============================================================================================== C15
def prove_C15(ctx):
    ctx.prove(["Properties/C15.v"])


def check_C15(ctx):
    import runner

    ctx.stream("dispatch", 100, 600)
    src = (SUP / "witness_threads.py").read_text()
    rng = random.Random("c15-%d" % ctx.seed)
    cases, groups = [], []
    ncase = 10 if ctx.quick else 80
    for ci in range(ncase):
        kind = "threads" if ci % 3 != 2 else "generators"
        if kind == "threads":
            acts = [[rng.choice(["w0", "w1", "w2", "w3"]), rng.randrange(1, 4)] for _ in range(rng.choice([2, 2, 3]))]
        else:
            acts = [[rng.choice(["g0", "g1", "g2", "g2"]), rng.randrange(1, 4)] for _ in range(rng.choice([2, 3]))]
        n = len(acts)
        if ci < 4 and ctx.quick or (not ctx.quick and ci < 20):
            # short workloads: enumerate a family of schedules exhaustively (all words of length 4 over the activities)
            scheds = [list(w) for w in itertools.product(range(n), repeat=3)]
        else:
            scheds = [[rng.randrange(n) for _ in range(rng.randrange(2, 12))] for _ in range(3)]
        cov = ci % 2 == 0
        hooks = rng.sample([x for x in HOOK_POOL if x not in EXEC_LEVEL], rng.randrange(2, 8)) + ["runtime_event"] * (ci % 4 == 0) + ["enter_with", "exit_with"] * (ci % 2 == 1)
        ans = [{"cls": "A0", "hooks": {h_: None for h_ in hooks}}]
        solo = {"id": "c15/%d/solo" % ci, "files": {"main.py": src}, "analyses": ans, "coverage": cov, "want": ("inst",),
                "activities": {"kind": kind, "acts": acts, "schedule": [i for i in range(n) for _ in range(10000)][:0] or []}}
        # solo = run activities one after the other: schedule that sticks to the lowest alive index
        solo["activities"]["schedule"] = []
        cs = []
        for si, sch in enumerate(scheds):
            c = {"id": "c15/%d/s%d" % (ci, si), "files": {"main.py": src}, "analyses": ans, "coverage": cov, "want": ("inst",),
                 "activities": {"kind": kind, "acts": acts, "schedule": sch}}
            cs.append(c)
        cases += [solo] + cs
        groups.append((solo, cs))
    res = dict(zip([c["id"] for c in cases], runner.run_cases(cases)))

    def per_activity(r):
        a = r.get("activities") or {}
        if "error" in a or "owner" not in a:
            return None
        dl = _loc_dels(r)
        base = a["base"]
        out = {}
        for d, o in zip(dl[base:], a["owner"]):
            out.setdefault(o, []).append(d)
        return out

    def cov_total(r):
        t = {}
        for f, cv in (r.get("coverage") or {}).items():
            for fn, lines in cv.items():
                for ln, an in lines.items():
                    for c_, n_ in an.items():
                        t[(Path(fn).name, ln, c_)] = t.get((Path(fn).name, ln, c_), 0) + n_
        return t

    for solo, cs in groups:
        rs = res[solo["id"]]
        if "harness_error" in rs or rs["inst"]["exc"]:
            ctx.broken.append("harness error C15 %s: %s" % (solo["id"], (rs.get("harness_error") or str(rs["inst"]["exc"]))[-300:]))
            continue
        ps = per_activity(rs)
        for c in cs:
            r = res[c["id"]]
            if "harness_error" in r or r["inst"]["exc"]:
                ctx.broken.append("harness error C15 %s: %s" % (c["id"], (r.get("harness_error") or str(r["inst"]["exc"]))[-300:]))
                continue
            ctx.count(1, [json.dumps(c["activities"]) + json.dumps(sorted(c["analyses"][0]["hooks"]))], [{"activities": c["activities"], "hooks": sorted(c["analyses"][0]["hooks"]), "coverage": c["coverage"]}])
            ctx.impl_traces += 1
            pa = per_activity(r)
            if pa is None or ps is None:
                ctx.violation("C15:deadlock", "activities did not complete under schedule %r: %r" % (c["activities"]["schedule"], r.get("activities")), {"case": c})
                continue
            if r["activities"]["results"] != rs["activities"]["results"]:
                ctx.violation("C15:results", "results under schedule %r differ from the solo results: %r vs %r" % (c["activities"]["schedule"], r["activities"]["results"], rs["activities"]["results"]), {"case": c, "solo": solo})
            for i in range(len(c["activities"]["acts"])):
                if pa.get(i, []) != ps.get(i, []):
                    a_, b_ = pa.get(i, []), ps.get(i, [])
                    j = next((x for x in range(min(len(a_), len(b_))) if a_[x] != b_[x]), min(len(a_), len(b_)))
                    ctx.violation("C15:events", "activity %d (%s) contributes a different event subsequence under schedule %r than alone (first difference at %d: %r vs %r)" % (i, c["activities"]["acts"][i][0], c["activities"]["schedule"], j, a_[j:j + 1], b_[j:j + 1]), {"case": c, "solo": solo})
                    break
            if c["coverage"] and cov_total(r) != cov_total(rs):
                ctx.violation("C15:coverage", "coverage totals under schedule %r differ from the sequential run" % (c["activities"]["schedule"],), {"case": c, "solo": solo})


# =============================================================================================== C08
def prove_C08(ctx):
    ctx.prove(["Properties/C08.v"])


def check_C08(ctx):
    import runner

    ctx.stream("used_leaves", 150, 600)
    h, leaves, names = _hier()
    rng = random.Random("c08-%d" % ctx.seed)
    progs = _programs(ctx, 6 if ctx.quick else 50)
    # loops whose else clause reports events of its own: the order of a loop's exit events relative to them must not
    # depend on the other hooks (repaired defect 1983539)
    progs.append(("forelse", {"main.py": "out = []\nfor u in [1, 2]:\n    out.append(u)\nelse:\n    i = 0\n    while i < 2:\n        i += 1\n    for w in [3]:\n        out.append(w)\n    else:\n        out.append(9)\n"}))
    fam = {}

    def lv(d, acc):
        for k, v in d.items():
            if v:
                lv(v, acc)
            else:
                acc.append(k)

    def walk(d):
        for k, v in d.items():
            if v:
                a = []
                lv(v, a)
                fam[k] = sorted(set(a))
                walk(v)

    walk(h)
    cases, groups = [], []
    cand = [x for x in names if x not in EXEC_LEVEL]
    # which hooks fire at all in each program (one all-hooks run per program)
    probe = [{"id": "%s/probe" % pname, "files": files, "want": ("inst",), "analyses": [{"cls": "A0", "hooks": {n_: None for n_ in cand}}]} for pname, files in progs]
    fired = {}
    for pc, pr in zip(probe, runner.run_cases(probe)):
        fired[pc["id"].split("/")[0]] = sorted(set(d[2] for d in (pr.get("inst") or {}).get("deliveries", []))) if "harness_error" not in pr else []
    for pname, files in progs:
        pool_ = [x for x in fired.get(pname, []) if x in cand] or cand
        hs = rng.sample(pool_, min(len(pool_), 5 if ctx.quick else 10))
        # hooks whose payload or placement depends on instrumenter-side stacks / on other rewrites: always compared
        for must in ("_break", "_continue", "exit_for", "exit_while", "_return", "function_exit", "exception", "read_identifier", "pre_call", "add"):
            if must in pool_ and must not in hs and (pname in ("nested", "witness") or rng.random() < 0.4):
                hs.append(must)
        if pname == "forelse":
            hs = [x for x in ("exit_control_flow", "exit_for", "normal_exit_for", "normal_exit_while", "exit_while") if x in pool_]
        for hk in hs:
            supersets = [("all", names)]
            f_ = [k for k, v in fam.items() if hk in v or hk == k]
            if f_:
                g = rng.choice(f_)
                supersets.append(("family:" + g, sorted(set(fam[g] + [hk]))))
            supersets.append(("random", sorted(set(rng.sample(cand, rng.randrange(2, 10)) + [hk]))))
            solo = {"id": "%s/%s/solo" % (pname, hk), "files": files, "want": ("inst",), "analyses": [{"cls": "A0", "hooks": {hk: None}}]}
            cases.append(solo)
            for label, sup in supersets:
                c = {"id": "%s/%s/%s" % (pname, hk, label), "files": files, "want": ("inst",), "analyses": [{"cls": "A0", "hooks": {hk: None}}], "select": sup}
                cases.append(c)
                groups.append((solo, c, hk, label))
            # generic hook vs the set of its leaves (instrumentation must be identical)
            if hk in fam:
                c2 = {"id": "%s/%s/leaves" % (pname, hk), "files": files, "want": ("inst",), "analyses": [{"cls": "A0", "hooks": {hk: None}}], "select": fam[hk]}
                cases.append(c2)
                groups.append((solo, c2, hk, "its-leaves"))
    res = dict(zip([c["id"] for c in cases], runner.run_cases(cases)))
    for solo, c, hk, label in groups:
        rs, rc = res[solo["id"]], res[c["id"]]
        if "harness_error" in rs or "harness_error" in rc:
            ctx.broken.append("harness error C08 %s: %s" % (c["id"], (rs.get("harness_error") or rc.get("harness_error"))[-300:]))
            continue
        ctx.count(1, [c["id"] + json.dumps(c.get("select"))], [{"program": c["id"], "hook": hk, "superset": label, "n_selected": len(c.get("select") or [])}])
        ctx.impl_traces += 2
        a = [d for d in _loc_dels(rs, "A0") if d[0] == hk]
        b = [d for d in _loc_dels(rc, "A0") if d[0] == hk]
        if label == "its-leaves" and rs.get("selected") != rc.get("selected"):
            ctx.violation("C08:generic_selection:%s" % hk, "selecting %s selects %d leaves, selecting its leaves selects %d" % (hk, len(rs.get("selected") or []), len(rc.get("selected") or [])), {"solo": solo, "full": c})
        if a != b:
            j = next((x for x in range(min(len(a), len(b))) if a[x] != b[x]), min(len(a), len(b)))
            sa, sb = set(x[1] for x in a), set(x[1] for x in b)
            src = c["files"]["main.py"].splitlines()

            def seg(loc):
                if not loc:
                    return ""
                (sl, sc, el, ec) = loc[1]
                return src[sl - 1][sc:(ec if el == sl else None)] if sl <= len(src) else ""

            extra = sorted(sb - sa)
            lost = sorted(sa - sb)
            cls = _c08_class(hk, [seg(x) for x in extra], [seg(x) for x in lost], a, b)
            more = []
            precise = False
            if cls.startswith("sites_differ") and extra and not lost:
                # sites that only fire in the larger selection because a known eager evaluation reaches them: later
                # comparators of a chain under a comparison hook, the message of an assert under the _assert hook
                sel_ = set(c.get("select") or [])
                for g_ in list(sel_):
                    sel_ |= set(fam.get(g_, []))        # a generic name selects its leaves
                trig = {"chain_eager": bool(sel_ & {"comparison", "equal", "not_equal", "less_than", "less_than_equal", "greater_than", "greater_than_equal", "_in", "not_in", "_is", "is_not"}),
                        "assert_msg_eager": "_assert" in sel_}
                kinds = [_eager_site("\n".join(src), x[1]) for x in extra if x]
                if kinds and all(kinds) and all(trig[k_] for k_ in kinds):
                    ks = sorted(set(kinds))
                    cls, more = "crosstalk:" + ks[0], ["crosstalk:" + k_ for k_ in ks[1:]]
                    precise = True
            if not precise and not cls.startswith("crosstalk"):
                # downstream consequences of the same eager evaluations: the eagerly evaluated region has effects of its
                # own (it calls, logs, creates recorder objects, raises), so everything after it may differ
                sel_ = set(c.get("select") or [])
                for g_ in list(sel_):
                    sel_ |= set(fam.get(g_, []))
                solo_ = {hk} | set(fam.get(hk, []))
                cmp_ = {"equal", "not_equal", "less_than", "less_than_equal", "greater_than", "greater_than_equal", "_in", "not_in", "_is", "is_not"}
                trig = {"chain_eager": bool(sel_ & cmp_) and not (solo_ & cmp_), "assert_msg_eager": "_assert" in sel_ and "_assert" not in solo_}
                ks = sorted(k_ for k_ in _eager_effects("\n".join(src)) if trig[k_])
                if ks:
                    cls, more = "crosstalk:" + ks[0], ["crosstalk:" + k_ for k_ in ks[1:]]
            if "cannot access free variable" in json.dumps([rs.get("inst"), rc.get("inst")], default=str):
                # a hooked read of a not-yet-bound function local fails with NameError instead of UnboundLocalError
                # (KNOWN_FINDINGS unbound_local_thunk): whether the read is hooked depends on the selection
                cls = "crosstalk:unbound_local_thunk"
            ctx.violation("C08:%s" % cls, "hook %s receives a different sequence when instrumented within %s (%d hooks) than alone: first difference at %d: %r vs %r; extra sites %r lost sites %r" % (
                hk, label, len(c.get("select") or []), j, a[j:j + 1], b[j:j + 1], [seg(x)[:30] for x in extra][:3], [seg(x)[:30] for x in lost][:3]), {"solo": solo, "full": c})
            for cls2 in more:
                ctx.violation("C08:%s" % cls2, "hook %s receives a different sequence when instrumented within %s than alone (extra sites %r)" % (hk, label, [seg(x)[:30] for x in extra][:3]), {"solo": solo, "full": c})


def _eager_site(text, loc):
    """'chain_eager' if the (sl, sc, el, ec) location lies in a comparator after the first of a comparison chain,
    'assert_msg_eager' if it lies in the message of an assert, else None"""
    import ast as _ast

    try:
        tree = _ast.parse(text)
    except SyntaxError:
        return None
    l = tuple(loc)

    def inside(n):
        return (n.lineno, n.col_offset) <= (l[0], l[1]) and (l[2], l[3]) <= (n.end_lineno, n.end_col_offset)

    for n in _ast.walk(tree):
        if isinstance(n, _ast.Assert) and n.msg is not None and inside(n.msg):
            return "assert_msg_eager"
    for n in _ast.walk(tree):
        if isinstance(n, _ast.Compare) and len(n.ops) >= 2 and inside(n):
            return "chain_eager"
    return None


def _eager_effects(text):
    """the kinds of eager evaluation whose region can have effects of its own: an assert message that is more than a
    constant or a name; a comparison chain of two or more links in which a later link has a non-constant operand"""
    import ast as _ast

    try:
        tree = _ast.parse(text)
    except SyntaxError:
        return set()
    out = set()
    for n in _ast.walk(tree):
        if isinstance(n, _ast.Assert) and n.msg is not None and not isinstance(n.msg, (_ast.Constant, _ast.Name)):
            out.add("assert_msg_eager")
        if isinstance(n, _ast.Compare) and len(n.ops) >= 2 and not all(isinstance(x, _ast.Constant) for x in n.comparators):
            out.add("chain_eager")
    return out


def _in_chain(text, locs):
    """are all these (sl, sc, el, ec) locations inside a comparison chain of two or more links?"""
    import ast as _ast

    try:
        tree = _ast.parse(text)
    except SyntaxError:
        return False
    spans = [(n.lineno, n.col_offset, n.end_lineno, n.end_col_offset) for n in _ast.walk(tree) if isinstance(n, _ast.Compare) and len(n.ops) >= 2]

    def inside(l, s_):
        return (s_[0], s_[1]) <= (l[0], l[1]) and (l[2], l[3]) <= (s_[2], s_[3])

    return bool(locs) and all(any(inside(tuple(l), s_) for s_ in spans) for l in locs)


def _c08_class(hk, extra_segs, lost_segs, a, b):
    import re as _re

    aug = _re.compile(r"(\+|-|\*|/|//|%|\*\*|<<|>>|&|\||\^|@)=")
    if extra_segs and not lost_segs and all(aug.search(s) for s in extra_segs):
        return "crosstalk:augassign"
    if not extra_segs and not lost_segs:
        return "args_differ:%s" % hk
    return "sites_differ:%s" % hk


# =============================================================================================== C03 (operator matrix)
def prove_C03(ctx):
    ctx.prove(["Properties/C03.v"])


BIN_TOK = {"add": "+", "bit_and": "&", "bit_or": "|", "bit_xor": "^", "divide": "/", "floor_divide": "//", "left_shift": "<<", "matrix_multiply": "@", "modulo": "%", "multiply": "*", "power": "**", "right_shift": ">>", "subtract": "-"}
BIN_LOG = {"add": "add", "bit_and": "and", "bit_or": "or", "bit_xor": "xor", "divide": "truediv", "floor_divide": "floordiv", "left_shift": "lshift", "matrix_multiply": "matmul", "modulo": "mod", "multiply": "mul", "power": "pow", "right_shift": "rshift", "subtract": "sub"}
CMP_TOK = {"equal": "==", "greater_than": ">", "greater_than_equal": ">=", "less_than": "<", "less_than_equal": "<=", "not_equal": "!=", "_in": "in", "not_in": "not in", "_is": "is", "is_not": "is not"}
UN_TOK = {"bit_invert": "~", "minus": "-", "plus": "+", "_not": "not "}


def check_C03(ctx):
    import runner

    ctx.stream("names", 150, 600)
    check_e2e(ctx, "C03")
    h, leaves, names = _hier()
    cases, meta = [], []
    kinds = [("rec", "r()", "r()"), ("int", "k(6)", "k(3)"), ("mixed", "r()", "k(2)"), ("bool", "k(True)", "k(False)")]
    ctxs = ["{e}", "[{e}][0]", "(lambda: {e})()", "f_({e})", "({e} if k(1) else None)"]
    pre = "from vsupport import *\ndef f_(x):\n    return x\n"
    for hk, tok in list(BIN_TOK.items()) + list(CMP_TOK.items()):
        for kn, la, ra in kinds:
            if hk == "matrix_multiply" and kn != "rec":
                continue
            if hk in ("_in", "not_in") and kn != "rec":
                ra_ = "[" + ra + "]"
            else:
                ra_ = ra
            for ci, cx in enumerate(ctxs if not ctx.quick else ctxs[:2]):
                e = "%s %s %s" % (la, tok, ra_)
                src = pre + "res = " + cx.format(e=e) + "\n"
                for mode in ("single", "all"):
                    cases.append({"id": "%s/%s/%d/%s" % (hk, kn, ci, mode), "files": {"main.py": src}, "analyses": [{"cls": "A0", "hooks": {hk: None}}], "select": names if mode == "all" else None})
                    meta.append((hk, "bin" if hk in BIN_TOK else "cmp", kn, mode))
    for hk, tok in UN_TOK.items():
        for kn, a in (("rec", "r()"), ("int", "k(5)"), ("bool", "k(True)")):
            src = pre + "res = %s%s\n" % (tok, a)
            for mode in ("single", "all"):
                cases.append({"id": "%s/%s/0/%s" % (hk, kn, mode), "files": {"main.py": src}, "analyses": [{"cls": "A0", "hooks": {hk: None}}], "select": names if mode == "all" else None})
                meta.append((hk, "un", kn, mode))
    # boolean operators: truthy / falsy left operand; the right operand must be evaluated only when needed
    for hk, tok in (("_and", "and"), ("_or", "or")):
        for lt in (True, False):
            for kn, mk in (("rec", "r(%s)" % lt), ("int", "k(%d)" % (1 if lt else 0))):
                src = pre + "res = %s %s k(7)\n" % (mk, tok)
                for mode in ("single", "all"):
                    cases.append({"id": "%s/%s%s/0/%s" % (hk, kn, lt, mode), "files": {"main.py": src}, "analyses": [{"cls": "A0", "hooks": {hk: None}}], "select": names if mode == "all" else None})
                    meta.append((hk, "bool", kn, mode))
    res = runner.run_cases(cases)
    for c, (hk, cat, kn, mode), r in zip(cases, meta, res):
        if "harness_error" in r:
            ctx.broken.append("harness error C03 %s: %s" % (c["id"], r["harness_error"][-300:]))
            continue
        ctx.count(1, [c["id"]], [{"id": c["id"], "source": c["files"]["main.py"].splitlines()[-1]}] if mode == "single" and kn == "rec" else [])
        ctx.impl_traces += 1
        o, i = r["orig"], r["inst"]
        # transparency of the operator evaluation itself
        if (o["log"], o["globals"].get("res"), o["exc"] and o["exc"]["type"]) != (i["log"], i["globals"].get("res"), i["exc"] and i["exc"]["type"]):
            extra_bool = [x for x in i["log"] if x[0] == "bool"]
            key = "C03:double_truth_test:%s" % hk if (cat == "bool" and len(extra_bool) > len([x for x in o["log"] if x[0] == "bool"])) else "C03:operator_semantics:%s" % hk
            ctx.violation(key, "%s: instrumented evaluation differs from the original: log %r vs %r, result %r vs %r" % (c["id"], i["log"][:6], o["log"][:6], i["globals"].get("res"), o["globals"].get("res")), {"case": c})
            continue
        ev = [d for d in i["deliveries"] if d[2] == hk]
        if o["exc"]:
            continue
        if len(ev) != 1:
            ctx.violation("C03:count:%s" % hk, "%s: %d %s events for one evaluation" % (c["id"], len(ev), hk), {"case": c})
            continue
        args = ev[0][3][2:]
        # operands and result are the very objects the program computed
        want_res = o["globals"].get("res")
        if cat in ("bin", "cmp", "bool"):
            opnds = [x for x in o["log"] if x[0] in ("new", "k")]
            if c["id"].split("/")[2] == "4" and opnds and list(opnds[0]) == ["k", 1]:
                opnds = opnds[1:]  # context 4 evaluates its own condition k(1) before the operands
            l_ = ("R%d" % opnds[0][1]) if opnds[0][0] == "new" else repr(opnds[0][1])
            if len(opnds) > 1:
                r_ = ("R%d" % opnds[1][1]) if opnds[1][0] == "new" else repr(opnds[1][1])
                if hk in ("_in", "not_in") and kn != "rec":
                    r_ = "[" + r_ + "]"
            else:
                r_ = None
            got_l, got_r, got_res = args[0], args[1], args[2]
            if got_l != l_ or (r_ is not None and got_r != r_) or got_res != want_res:
                ctx.violation("C03:operands:%s" % hk, "%s: event carries (%s, %s, %s), the program computed (%s, %s, %s)" % (c["id"], got_l, got_r, got_res, l_, r_, want_res), {"case": c})
        else:
            opnds = [x for x in o["log"] if x[0] in ("new", "k")]
            a_ = ("R%d" % opnds[0][1]) if opnds[0][0] == "new" else repr(opnds[0][1])
            if args[0] != a_ or args[1] != want_res:
                ctx.violation("C03:operands:%s" % hk, "%s: event carries (%s, %s), the program computed (%s, %s)" % (c["id"], args[0], args[1], a_, want_res), {"case": c})


# =============================================================================================== C06 (locations)
def prove_C06(ctx):
    ctx.prove(["Properties/C06.v"])


# libcst node kinds the documentation of each hook refers to (matchers for the framework's own locator)
def _kinds():
    import libcst.matchers as m

    K = {}
    K.update({"integer": [m.Integer()], "_float": [m.Float()], "imaginary": [m.Imaginary()], "boolean": [m.Name()], "none": [m.Name()],
              "string": [m.SimpleString(), m.ConcatenatedString(), m.FormattedString()],
              "dictionary": [m.Dict(), m.DictComp()], "_list": [m.List(), m.ListComp()], "_tuple": [m.Tuple()], "_set": [m.Set()]})
    K["literal"] = sum((K[x] for x in ["integer", "_float", "imaginary", "boolean", "none", "string", "dictionary", "_list", "_tuple", "_set"]), [])
    for h_ in list(BIN_TOK):
        K[h_] = [m.BinaryOperation(), m.AugAssign()]
        K[h_ + "_assign"] = [m.AugAssign()]
    K["_and"] = K["_or"] = [m.BooleanOperation()]
    for h_ in UN_TOK:
        K[h_] = [m.UnaryOperation()]
    for h_ in CMP_TOK:
        K[h_] = [m.Comparison()]
    K["comparison"] = [m.Comparison()]
    K["unary_operation"] = [m.UnaryOperation()]
    K["augmented_assignment"] = [m.AugAssign()]
    K["binary_operation"] = [m.BinaryOperation(), m.BooleanOperation(), m.AugAssign()]
    K["operation"] = K["binary_operation"] + K["unary_operation"] + K["comparison"]
    K["read_identifier"] = [m.Name()]
    K["read_attribute"] = [m.Attribute()]
    K["read_subscript"] = [m.Subscript()]
    K["read"] = [m.Name(), m.Attribute(), m.Subscript()]
    K["write"] = [m.Assign(), m.AnnAssign(), m.AugAssign()]
    K["delete"] = [m.Del()]
    K["memory_access"] = K["read"] + K["write"] + K["delete"]
    K["pre_call"] = K["post_call"] = [m.Call()]
    K["function_enter"] = K["function_exit"] = K["implicit_return"] = [m.FunctionDef(), m.Lambda()]
    K["_return"] = [m.Return()]
    K["_yield"] = [m.Yield()]
    K["enter_if"] = K["exit_if"] = [m.If(), m.IfExp()]
    K["enter_while"] = K["normal_exit_while"] = [m.While()]
    K["enter_for"] = K["normal_exit_for"] = [m.For(), m.CompFor()]
    K["exit_while"] = [m.While()]
    K["exit_for"] = [m.For(), m.CompFor()]
    K["_break"] = [m.Break()]
    K["_continue"] = [m.Continue()]
    K["enter_control_flow"] = K["exit_control_flow"] = [m.If(), m.IfExp(), m.While(), m.For(), m.CompFor()]
    K["_assert"] = [m.Assert()]
    K["_raise"] = [m.Raise()]
    K["enter_try"] = K["clean_exit_try"] = K["exception"] = [m.Try()]
    K["enter_with"] = K["exit_with"] = [m.WithItem()]
    K["enter_decorator"] = K["exit_decorator"] = [m.Decorator()]
    K["control_flow_event"] = K["enter_control_flow"] + K["_assert"] + K["_raise"] + K["enter_try"] + K["enter_with"] + K["pre_call"] + K["function_enter"] + K["_return"] + K["_yield"] + K["enter_decorator"] + K["_break"] + K["_continue"]
    K["runtime_event"] = K["literal"] + K["operation"] + K["control_flow_event"] + K["memory_access"]
    return K


def check_C06(ctx):
    import runner
    import libcst as cst
    import libcst.matchers as m
    from dynapyt.utils.nodeLocator import get_node_by_location
    from dynapyt.instrument.IIDs import Location

    ctx.stream("iids", 150, 800)
    ctx.stream("files", 60, 400)
    h, leaves, names = _hier()
    K = _kinds()
    progs = _programs(ctx, 8 if ctx.quick else 60)
    layout = (SUP / "witness_layout.py")
    if layout.exists():
        progs.append(("layout", {"main.py": layout.read_text()}))
    rng = random.Random("c06-%d" % ctx.seed)
    cases = []
    for pname, files in progs:
        cases.append({"id": "%s/all" % pname, "files": files, "want": ("inst",), "analyses": [{"cls": "A0", "hooks": {n: None for n in names if n not in EXEC_LEVEL}}]})
        cand = [n for n in names if n not in EXEC_LEVEL]
        sub = rng.sample(cand, 6)
        cases.append({"id": "%s/sub" % pname, "files": files, "want": ("inst",), "analyses": [{"cls": "A0", "hooks": {n: None for n in sub}}]})
        # one construct family at a time (hooks of a single statement kind), and a single leaf
        fams = [["enter_while", "exit_while", "normal_exit_while"], ["enter_for", "exit_for", "normal_exit_for"], ["enter_if", "exit_if"],
                ["_break", "_continue"], ["enter_try", "clean_exit_try", "exception"], ["function_enter", "function_exit", "_return"],
                ["read_identifier", "read_attribute", "read_subscript"], ["write", "delete"], ["pre_call", "post_call"]]
        for fi, fam_ in enumerate(rng.sample(fams, 3)):
            cases.append({"id": "%s/fam%d" % (pname, fi), "files": files, "want": ("inst",), "analyses": [{"cls": "A0", "hooks": {n: None for n in fam_}}]})
        # a history: instrument for some hooks, restore the source, re-instrument for more hooks (the id map is re-loaded and extended)
        first = rng.sample(cand, 5)
        cases.append({"id": "%s/hist" % pname, "files": files, "want": ("inst",), "pre_select": first,
                      "analyses": [{"cls": "A0", "hooks": {n: None for n in sorted(set(first + rng.sample(cand, 8)))}}]})
    res = runner.run_cases(cases)
    for c, r in zip(cases, res):
        if "harness_error" in r:
            ctx.broken.append("harness error C06 %s: %s" % (c["id"], r["harness_error"][-300:]))
            continue
        src = c["files"]["main.py"]
        if (r.get("origs") or {}).get("main.py") != src:
            ctx.violation("C06:orig_bytes", "the preserved original differs from the file before instrumentation", {"case": c})
            continue
        for rel, fm in (r.get("first_idmaps") or {}).items():
            later = idm_all = r["idmaps"].get(next((k for k in r["idmaps"] if k.endswith(rel + ".orig")), ""), {})
            for k_, v_ in fm["iid_to_location"].items():
                was = [v_["start_line"], v_["start_column"], v_["end_line"], v_["end_column"]]
                if isinstance(later, dict) and later.get(int(k_)) != was:
                    ctx.violation("C06:id_changed_meaning", "id %s meant %r after the first instrumentation and %r after re-load + re-instrumentation" % (k_, was, later.get(int(k_)) if isinstance(later, dict) else later), {"case": c})
                    break
        tree = cst.parse_module(src)
        # the framework's locator (utils/nodeLocator.Exact) returns the node whose PositionProvider extent equals the
        # stored location; resolved once per source here (the locator itself re-wraps the tree on every call)
        wrapper = cst.metadata.MetadataWrapper(tree, unsafe_skip_copy=True)
        posmap = {}
        for node, pos in wrapper.resolve(cst.metadata.PositionProvider).items():
            posmap.setdefault((pos.start.line, pos.start.column, pos.end.line, pos.end.column), []).append(node)
        idm = r["idmaps"]
        seen = set()
        nd = 0
        for d in r["inst"]["deliveries"]:
            hk, args = d[2], d[3]
            if hk in EXEC_LEVEL:
                continue
            nd += 1
            if not (len(args) >= 2 and isinstance(args[0], str) and isinstance(args[1], int)):
                ctx.violation("C06:args:%s" % hk, "first two arguments of %s are %r" % (hk, args[:2]), {"case": c})
                continue
            if not args[0].endswith("main.py.orig") or args[0] not in idm:
                ctx.violation("C06:path:%s" % hk, "event path %r is not the preserved original of the instrumented file" % (args[0],), {"case": c})
                continue
            loc = idm[args[0]].get(args[1]) if isinstance(idm[args[0]], dict) else None
            if loc is None:
                ctx.violation("C06:unknown_id:%s" % hk, "id %r of a %s event is not in the stored id map" % (args[1], hk), {"case": c})
                continue
            key = (hk, tuple(loc))
            if key in seen:
                continue
            seen.add(key)
            want = K.get(hk)
            if want is None:
                continue
            found = None
            cands = posmap.get(tuple(loc), [])
            for mt in want:
                for node in cands:
                    if m.matches(node, mt):
                        found = node
                        break
                if found is not None:
                    break
            if found is None:
                node = cands[0] if cands else None
                sl = loc[0]
                line = src.splitlines()[sl - 1] if sl <= len(src.splitlines()) else ""
                kind = "no_node" if node is None else "wrong_kind"
                cls = _c06_class(src, loc, hk, kind)
                ctx.violation("C06:%s" % cls, "%s event at %r: the locator finds %s in the preserved original (line: %r)" % (hk, tuple(loc), "no node with exactly this extent" if node is None else "a %s" % type(node).__name__, line.strip()[:80]), {"case": c, "hook": hk, "loc": loc})
        ctx.count(1, [c["id"]], [{"program": c["id"], "deliveries": nd, "distinct_locations": len(seen)}])
        ctx.impl_traces += 1


def _c06_class(src, loc, hk, kind):
    """root-cause class of a location mismatch"""
    lines = src.splitlines()
    sl = loc[0]
    # known: inline `if c: break|continue` is canonicalised BEFORE positions are taken, shifting every later line
    import re as _re

    shift = sum(1 for ln in lines[:loc[2]] if _re.match(r"\s*(if|elif) .*:\s*(break|continue)\s*$", ln))
    if shift:
        return "shifted_by_inline_break"
    return "%s:%s" % (kind, hk)


# =============================================================================================== end-to-end three-way (C01 C03 C04 C05 C07)
E2E_BITS = {"C01": 8, "C03": 64, "C04": 128, "C05": 256, "C07": 32}
OVERRIDABLE = ["integer", "boolean", "string", "add", "subtract", "multiply", "less_than", "equal", "read_identifier", "read_attribute", "read_subscript",
               "write", "post_call", "enter_if", "enter_while", "_return", "_assert", "_break", "_continue", "literal", "binary_operation", "comparison", "function_exit",
               "enter_control_flow", "enter_for"]


def e2e_cases(ctx, pid, n):
    import genprog

    h, leaves, names = _hier()
    rng = random.Random("e2e-%s-%d" % (pid, ctx.seed))
    cand = [x for x in leaves if x not in EXEC_LEVEL]
    fam = {}

    def lv(d, acc):
        for k_, v_ in d.items():
            if v_:
                lv(v_, acc)
            else:
                acc.append(k_)

    def walk(d):
        for k_, v_ in d.items():
            if v_:
                a = []
                lv(v_, a)
                fam[k_] = sorted(set(a) - set(EXEC_LEVEL))
                walk(v_)

    walk(h)
    cases, rcases = [], []
    for i in range(n):
        prog = genprog.gen_program(rng)
        mode = rng.choice(["all", "all", "family", "subset", "single"])
        if mode == "all":
            hooks = cand
        elif mode == "family":
            hooks = fam[rng.choice(sorted(fam))]
        elif mode == "single":
            hooks = [rng.choice(cand)]
        else:
            hooks = rng.sample(cand, rng.randrange(2, 15))
        ans = [{"cls": "A0", "hooks": {x: None for x in hooks}}]
        # generic (non-leaf) hooks are implemented by the analysis as well in half of the cases: their deliveries and
        # their placement relative to the operands are part of the comparison
        if rng.random() < 0.5:
            generic = [x for x in names if x not in leaves and x not in EXEC_LEVEL]
            for gx in rng.sample(generic, rng.randrange(1, len(generic) + 1)):
                ans[0]["hooks"][gx] = None
        if pid == "C07":
            # one-shot overriding analysis: at occurrence k of hook h return v
            hk = rng.choice([x for x in OVERRIDABLE])
            k = rng.randrange(0, 3)
            val = rng.choice([True, False]) if hk in ("enter_if", "enter_while", "_assert", "_break", "_continue", "boolean", "enter_control_flow") else rng.choice([0, 1, 5, 7])
            if hk == "string":
                val = "zz"
            ans = [{"cls": "A0", "hooks": {x: None for x in set(hooks) | {hk}}, "script": {hk: [None] * k + [val]}}]
        elif rng.random() < 0.3:
            extra = rng.sample(cand, rng.randrange(1, 6))
            ans.append({"cls": "A1", "hooks": {x: None for x in extra}})
        c = {"prog": prog, "analyses": ans, "coverage": False, "mode": mode}
        cases.append(c)
        rcases.append({"id": "%s/%d" % (pid, i), "files": {"main.py": prog["source"]}, "analyses": ans})
    return cases, rcases


def check_e2e(ctx, pid):
    import runner
    import e2e

    n = 60 if ctx.quick else 1200
    bit = E2E_BITS[pid]
    done = 0
    shard = 0
    st = ctx.streams.setdefault("e2e_three_way", {"cases": 0, "disagreements": 0, "dist": {"agree": 0, "known_deviation": 0, "outside_model": 0, "hook_modes": {}}})
    first = True
    while done < n:
        if first:
            # the corpus of hand-written / minimised cases runs first (refutation witnesses of the guard clauses included)
            import corpus

            h_, leaves_, names_ = _hier()
            cases, rcases = corpus.cases(pid, [x for x in leaves_ if x not in EXEC_LEVEL])
            if pid == "C07":
                # systematic one-shot overrides: every overridable hook x occurrence 0/1 x a falsy and a truthy value
                oc, orc = corpus.override_cases(pid, OVERRIDABLE, [x for x in leaves_ if x not in EXEC_LEVEL])
                fc, frc = corpus.override_for_cases(pid, [x for x in leaves_ if x not in EXEC_LEVEL])
                cases, rcases = cases + oc + fc, rcases + orc + frc
            m = 0
            res = runner.run_cases(rcases)
            metas, err = e2e.three_way(ctx.work, cases, res, "%s_corpus" % pid)
            first = False
            if not err:
                seen = {c["mode"].split(":", 1)[1]: (meta.get("code", -1), meta.get("clauses") or []) for c, meta in zip(cases, metas)}
                ctx.notes["corpus_verdicts"] = {k_: list(v_) for k_, v_ in seen.items()}
                for w_ in corpus.WITNESSES:
                    code_, cl_ = seen.get(w_, (-1, []))
                    # a witness must still be a witness on the implementation: same behaviour as the model (no bits 1/2),
                    # deviating from the reference (bit 32) with its own clause flagged
                    if code_ < 0 or code_ & 3 or not (code_ & 32) or w_ not in cl_:
                        ctx.broken.append("refutation witness %s no longer behaves as recorded (verdict bits %d, clauses %s): the implementation or the model changed" % (w_, code_, cl_))
        else:
            m = min(100, n - done)
            ctx.seed_shift = shard
            cases, rcases = e2e_cases(_Shift(ctx, shard), pid, m)
            res = runner.run_cases(rcases)
            metas, err = e2e.three_way(ctx.work, cases, res, "%s_%d" % (pid, shard))
            shard += 1
        done += m
        if err:
            ctx.broken.append("three-way comparison could not be evaluated: " + err[-400:])
            continue
        for c, rc, meta in zip(cases, rcases, metas):
            st["cases"] += 1
            st["dist"]["hook_modes"][c["mode"]] = st["dist"]["hook_modes"].get(c["mode"], 0) + 1
            if meta.get("skip"):
                ctx.broken.append("harness problem in %s: %s" % (rc["id"], meta["skip"][:300]))
                continue
            code = meta.get("code", -1)
            ctx.count(1, [c["prog"]["source"] + json.dumps(c["analyses"], sort_keys=True)],
                      [{"program": c["prog"]["source"], "hooks": c["mode"], "analyses": [(a["cls"], len(a["hooks"]), a.get("script")) for a in c["analyses"]], "verdict_bits": code, "failing_guard_clauses": meta.get("clauses")}])
            ctx.impl_traces += 2
            if code < 0:
                ctx.broken.append("no verdict for case %s" % rc["id"])
                continue
            if code & 16:
                st["dist"]["outside_model"] += 1
                # outside the model's data semantics: only the implementation-side transparency oracle applies
                if pid == "C01" and code & 8 and not meta.get("clauses"):
                    ctx.violation("C01:transparency", "instrumented run differs from the original run (case outside the Coq model's data semantics)", {"case": rc})
                continue
            if code & 3:
                st["disagreements"] += 1
                which = ("original program: MiniPy semantics vs CPython" if code & 1 else "") + (" instrumented program: model of instrumenter+runtime vs DynaPyt" if code & 2 else "")
                ctx.broken.append("model/implementation disagree (%s) on case %s seed %d: %s" % (which.strip(), rc["id"], ctx.seed, rc["files"]["main.py"][:300].replace("\n", " | ")))
                if (code & 2) and not (code & 1) and (code & bit):
                    # the search for a failing input ends here: on this program the implementation also deviates from the
                    # reference semantics in this property's observation, and not in the way the model of the known
                    # deviations predicts
                    ctx.violation("%s:deviation" % pid, "the implementation deviates from the reference semantics (verdict bits %d) and from the model of its known behaviour: %s" % (code, rc["files"]["main.py"][:400].replace("\n", " | ")), {"case": rc, "bits": code, "clauses": meta.get("clauses"), "e2e_case": _e2e_min(c)})
                continue
            if code & bit:
                cl = meta.get("clauses") or []
                if cl:
                    st["dist"]["known_deviation"] += 1
                    for x in cl:
                        ctx.violation("%s:%s" % (pid, x), "%s: the implementation deviates from the reference semantics on a program with the known situation %r (verdict bits %d)" % (pid, cl, code), {"case": rc, "clauses": cl, "bits": code, "e2e_case": _e2e_min(c)})
                else:
                    ctx.violation("%s:deviation" % pid, "the implementation deviates from the reference semantics with no known cause (verdict bits %d): %s" % (code, rc["files"]["main.py"][:400].replace("\n", " | ")), {"case": rc, "bits": code, "e2e_case": _e2e_min(c)})
            else:
                st["dist"]["agree"] += 1


def _e2e_min(c):
    """what the replay needs to judge the case again: the program (source, Coq term, spans) and the analyses"""
    pr = c["prog"]
    return {"prog": {"source": pr["source"], "coq": pr["coq"], "spans": {str(k_): list(v_) for k_, v_ in pr["spans"].items()}},
            "analyses": c["analyses"], "coverage": c.get("coverage", False), "mode": c.get("mode")}


class _Shift:
    """a view of the context with a shifted seed (one per shard)"""

    def __init__(self, ctx, k):
        self.seed = ctx.seed * 1000 + k


def prove_C01(ctx):
    ctx.prove(["Properties/C01.v"])


def check_transparency_rich(ctx):
    """Implementation-side oracle for programs outside MiniPy (support/rich/*.py: parameter kinds, closures, generators,
    classes, name mangling, with, one-line if/else in loops, comprehensions, site-sensitive builtins): standard output,
    final module-level values and the uncaught exception of the instrumented run equal those of the original run, for
    all hooks, every hook family, and single hooks."""
    import runner

    h, leaves, names = _hier()
    cand = [x for x in leaves if x not in EXEC_LEVEL]
    fam = {}

    def lv(d, acc):
        for k_, v_ in d.items():
            if v_:
                lv(v_, acc)
            else:
                acc.append(k_)

    def walk(d):
        for k_, v_ in d.items():
            if v_:
                a = []
                lv(v_, a)
                fam[k_] = sorted(set(a) - set(EXEC_LEVEL))
                walk(v_)

    walk(h)
    rng = random.Random("rich-%d" % ctx.seed)
    sels = [("all", cand)] + [("family:" + k_, v_) for k_, v_ in sorted(fam.items()) if v_]
    singles = cand if not ctx.quick else rng.sample(cand, 16)
    sels += [("single:" + x, [x]) for x in singles]
    if not ctx.quick:
        sels += [("subset:%d" % i, rng.sample(cand, rng.randrange(2, 20))) for i in range(40)]
    cases = []
    for path in sorted((VERIF / "support" / "rich").glob("*.py")):
        src = path.read_text()
        for name, hooks in sels:
            cases.append({"id": "rich/%s/%s" % (path.stem, name), "files": {"main.py": src}, "entry": "main",
                          "analyses": [{"cls": "A0", "hooks": {x: None for x in hooks}}]})
    res = runner.run_cases(cases)
    st = ctx.streams.setdefault("transparency_rich_programs", {"cases": 0, "disagreements": 0, "dist": {}})
    for c, r in zip(cases, res):
        st["cases"] += 1
        if "harness_error" in r:
            ctx.broken.append("harness error in %s: %s" % (c["id"], r["harness_error"][-300:]))
            continue
        o, i = r["orig"], r["inst"]
        ctx.count(1, [c["id"]])
        ctx.impl_traces += 2
        diffs = []
        if o["stdout"] != i["stdout"]:
            diffs.append("stdout")
        if o["globals"] != i["globals"]:
            ks = sorted(k_ for k_ in set(o["globals"]) | set(i["globals"]) if o["globals"].get(k_) != i["globals"].get(k_))
            diffs.append("globals " + ",".join(ks[:5]))
        eo = (o["exc"] or {}).get("type"), (o["exc"] or {}).get("msg")
        ei = (i["exc"] or {}).get("type"), (i["exc"] or {}).get("msg")
        if eo != ei:
            diffs.append("exception %r vs %r" % (eo, ei))
        if diffs:
            st["disagreements"] += 1
            hk_ = set(c["analyses"][0]["hooks"])
            ctx.violation("C01:transparency:%s:%s" % (c["id"].split("/")[1], "with_decorator_hooks" if hk_ & {"enter_decorator", "exit_decorator"} else "other_hooks"), "instrumented run of support/rich/%s.py with hooks %s differs from the original run: %s" % (
                c["id"].split("/")[1], c["id"].split("/", 2)[2], "; ".join(diffs)[:300]), {"case": c})


def check_C01(ctx):
    check_transparency_rich(ctx)
    check_e2e(ctx, "C01")


def prove_C04(ctx):
    ctx.prove(["Properties/C04.v"])


def check_C04(ctx):
    check_e2e(ctx, "C04")


def prove_C05(ctx):
    ctx.prove(["Properties/C05.v"])


def check_C05(ctx):
    import c05

    c05.check(ctx, VERIF)
    check_e2e(ctx, "C05")


def prove_C07(ctx):
    ctx.prove(["Properties/C07.v"])


def check_C07(ctx):
    check_e2e(ctx, "C07")


def prove_C16(ctx):
    ctx.prove(["Properties/C16.v"])


def check_C16(ctx):
    import c16

    c16.check(ctx)


# =============================================================================================== registry
def _todo(ctx):
    pass


PROVE = {"C16": prove_C16, "C01": prove_C01, "C04": prove_C04, "C05": prove_C05, "C07": prove_C07, "C03": prove_C03, "C06": prove_C06, "C08": prove_C08, "C15": prove_C15, "C02": prove_C02, "C14": prove_C14, "C09": prove_C09, "C10": prove_C10, "C11": prove_C11, "C12": prove_C12, "C13": prove_C13}
CHECK = {"C16": check_C16, "C01": check_C01, "C04": check_C04, "C05": check_C05, "C07": check_C07, "C03": check_C03, "C06": check_C06, "C08": check_C08, "C15": check_C15, "C02": check_C02, "C14": check_C14, "C09": check_C09, "C10": check_C10, "C11": check_C11, "C12": check_C12, "C13": check_C13}


def replay(ctx, payload):
    """re-run exactly the recorded failing case against the current implementation"""
    import runner

    v = payload.get("violation") or {}
    rp = v.get("replay") or {}
    cases = [x for x in (rp.get("case"), rp.get("full"), rp.get("filtered"), rp.get("unfiltered"), rp.get("solo")) if isinstance(x, dict) and "files" in x]
    if not cases:
        print("replay: nothing executable recorded (%s); no-failing-input-found replays name the broken obligation:" % payload.get("kind"))
        for b in payload.get("no_longer_checks", []):
            print("  " + b)
        return 1
    for c in cases:
        c["keep"] = False
    res = runner.run_cases(cases)
    runner.close_pool()
    if rp.get("e2e_case") and ctx.pid in E2E_BITS:
        # judge the recorded input again, three ways, on the current tree
        import e2e

        ec = rp["e2e_case"]
        ec["prog"]["spans"] = {int(k_): tuple(v_) for k_, v_ in ec["prog"]["spans"].items()}
        metas, err = e2e.three_way(ctx.work, [ec], [res[0]], "replay")
        code = metas[0].get("code", -1) if not err else -1
        cl = metas[0].get("clauses") or []
        bit = E2E_BITS[ctx.pid]
        print("replay verdict bits %s, guard clauses %s%s" % (code, cl, (" (" + err[-200:] + ")") if err else ""))
        failing = code < 0 or (code & 3) or ((code & bit) and not cl)
        if failing:
            print("VIOLATION property=%s replay=%s" % (ctx.pid, payload.get("_path", "")))
            return 1
        print("replay: the recorded input no longer fails (or only in a recorded way)")
        return 0
    for c, r in zip(cases, res):
        print(json.dumps({"case": c["id"], "exc": (r.get("inst") or {}).get("exc"), "deliveries": len((r.get("inst") or {}).get("deliveries", [])), "instrument": r.get("instrument")}, default=str)[:2000])
    print("recorded violation: %s -- %s" % (v.get("key"), v.get("what")))
    return 1
