#!/venv/bin/python
"""./check Cxx [--tier quick|thorough] [--replay FILE]   (cwd = /verif)

1 translate (tools/extract.py -> coq/Gen)   2 prove (make Properties/Cxx.vo)   3 correspond (streams)
4 property oracles on the implementation (also the search for a failing input)   5 verdict + evidence
"""
import argparse
import json
import os
import sys
import time
import traceback
from pathlib import Path

sys.path.insert(0, str(Path(__file__).resolve().parent))
from common import (VERIF, COQ, REPO, Work, Lock, run_extract, coq_make, parse_assumptions, theorems_in, hygiene,
                    load_findings, write_evidence, write_replay)


class Ctx:
    def __init__(self, pid, tier, seed, work):
        self.pid, self.tier, self.seed, self.work = pid, tier, seed, work
        self.quick = tier == "quick"
        self.obligations = []       # theorem names that must compile
        self.discharged = []
        self.broken = []            # broken proof obligations / tables / correspondence streams (strings)
        self.violations = []        # concrete failing inputs: {key, what, replay}
        self.known_seen = {}        # finding id -> what
        self.evaluations = 0
        self.distinct = set()
        self.samples = []
        self.streams = {}
        self.notes = {}
        self.axioms = []
        self.closed = 0
        self.aux_broken = []
        self.impl_traces = 0

    # ---- step 2
    def prove(self, files, aux=()):
        for f in files:
            self.obligations += ["%s:%s" % (f, t) for t in theorems_in(f)]
        targets = [f[:-2] + ".vo" for f in files] + ["Concrete/CVal.vo", "Concrete/Run.vo"]  # the stream / e2e checkers
        r = coq_make(targets, force=list(files) + list(aux))
        ass = parse_assumptions(r["log"])
        self.closed += ass["closed"]
        self.axioms += ass["axiom_blocks"]
        if r["ok"]:
            self.discharged += [o for o in self.obligations if o not in self.discharged]
        else:
            failed = r["failed"] or ["(make failed)"]
            for f in files:
                vo = f[:-2] + ".vo"
                if (COQ / vo).exists():
                    self.discharged += ["%s:%s" % (f, t) for t in theorems_in(f)]
            for fl in failed:
                msg = "proof obligation broken: %s" % fl
                for (ef, line, err) in r["errors"]:
                    if ef[:-2] + ".vo" == fl or True:
                        msg += " | %s:%s %s" % (ef, line, " ".join(err.split())[:300])
                        break
                self.broken.append(msg)
        if aux:
            r2 = coq_make([f[:-2] + ".vo" for f in aux])
            if not r2["ok"]:
                self.aux_broken += r2["failed"]
        self.notes["make_wall_s"] = round(r["wall_s"], 1)

    # ---- step 3
    def stream(self, name, n_quick, n_thorough):
        import streams

        n = n_quick if self.quick else n_thorough
        total = 0
        shard = 400
        i = 0
        while total < n:
            m = min(shard, n - total)
            res = streams.run_stream(name, self.seed * 1000 + i, m, self.work)
            i += 1
            total += m
            st = self.streams.setdefault(name, {"cases": 0, "disagreements": 0, "dist": {}})
            st["cases"] += len(res["cases"])
            for k, v in (res.get("dist") or {}).items():
                if isinstance(v, (int, float)):
                    st["dist"][k] = st["dist"].get(k, 0) + v
            self.evaluations += len(res["cases"])
            self.impl_traces += len(res["cases"])
            for c in res["cases"][:2]:
                if len(self.samples) < 6:
                    self.samples.append({"stream": name, "case": _short(c)})
            for c in res["cases"]:
                self.distinct.add(name + ":" + json.dumps(c, sort_keys=True, default=str)[:400])
            if res["failing"] is None:
                self.broken.append("correspondence stream %s could not be evaluated: %s" % (name, res["error"][-400:]))
                continue
            off = 0
            for sub, fl in enumerate(res["failing"]):
                for idx in fl:
                    st["disagreements"] += 1
                    case = res["cases"][idx + (res.get("n_sub", [0])[0] if sub == 1 else 0)] if idx < len(res["cases"]) else None
                    self.broken.append("model/implementation disagree: stream %s case %d (seed %d): %s" % (name, idx, self.seed * 1000 + i - 1, _short(case)))
            if res.get("impl_failures"):
                self.violations.append({"key": "%s:stream:%s" % (self.pid, name), "what": "implementation-only oracle of stream %s failed %d times" % (name, res["impl_failures"]), "replay": {"stream": name, "seed": self.seed * 1000 + i - 1}})

    def violation(self, key, what, replay):
        self.violations.append({"key": key, "what": what, "replay": replay})

    def count(self, n, distinct_keys=(), samples=()):
        self.evaluations += n
        for k in distinct_keys:
            self.distinct.add(k)
        for s in samples:
            if len(self.samples) < 8:
                self.samples.append(s)


def _short(c):
    s = json.dumps(c, default=str)
    return s if len(s) < 600 else s[:600] + "..."


def finish(ctx, t0):
    findings = [f for f in load_findings() if f.get("property") == ctx.pid and "fixed" not in f]
    known = {f["id"]: f for f in findings}
    new = []
    seen_known = {}
    for v in ctx.violations:
        fid = None
        for f in findings:
            if v["key"] == f["id"] or v["key"] in f.get("also", []) or any(v["key"].startswith(p) for p in f.get("prefixes", [])):
                fid = f["id"]
                break
        if fid:
            seen_known.setdefault(fid, v["what"])
        else:
            new.append(v)
    rc = 0
    lines = []
    if new:
        v = new[0]
        rp = write_replay(ctx.pid, {"property": ctx.pid, "seed": ctx.seed, "tier": ctx.tier, "kind": "failing-input", "violation": v, "other_new_violations": [x["key"] for x in new[1:20]],
                                    "other_new_violation_details": [{"key": x["key"], "what": x["what"][:600], "replay": x["replay"]} for x in new[1:6]], "broken": ctx.broken})
        lines.append("VIOLATION property=%s replay=%s" % (ctx.pid, rp))
        for x in new[:10]:
            lines.append("  new violation: %s -- %s" % (x["key"], x["what"][:300]))
        rc = 1
    elif ctx.broken:
        rp = write_replay(ctx.pid, {"property": ctx.pid, "seed": ctx.seed, "tier": ctx.tier, "kind": "no-failing-input-found", "no_longer_checks": ctx.broken})
        lines.append("VIOLATION property=%s replay=%s no-failing-input-found" % (ctx.pid, rp))
        for b in ctx.broken[:10]:
            lines.append("  broken: %s" % b[:400])
        rc = 1
    else:
        for fid, what in sorted(seen_known.items()):
            lines.append("KNOWN-FINDING: property=%s %s -- %s" % (ctx.pid, fid, known[fid].get("what_fails", what)[:240]))
    trusted = [
        "Coq 8.16.1 kernel incl. vm_compute (no native_compute); coqc full .vo build",
        "axioms reported by Print Assumptions: %s" % ("none (all %d printed theorems closed under the global context)" % ctx.closed if not ctx.axioms else "; ".join(ctx.axioms)),
        "translator tools/extract.py (tables by import/introspection/probing of the current tree)",
        "correspondence harness: generated cases evaluated by vm_compute inside Coq vs the real implementation",
        "Section variables (assumed interfaces): see DESIGN.md section 9",
    ]
    cov = {
        "obligations": len(ctx.obligations),
        "discharged": len(set(ctx.discharged) & set(ctx.obligations)),
        "checker_cmd": "make -C coq -j16 Properties/%s.vo (coqc %s)" % (ctx.pid, "8.16.1"),
        "trusted_base": trusted,
        "evaluations": ctx.evaluations,
        "distinct_nontrivial": len(ctx.distinct),
        "rule": "cases are generated from VERIF_SEED; distinct = distinct serialised inputs; trivial cases (empty programs / empty op lists) are not generated",
        "traces_validated_against_impl": ctx.impl_traces,
        "samples": ctx.samples or [{"note": "obligations only", "obligations": ctx.obligations[:5]}],
        "streams": ctx.streams,
        "theorems": ctx.obligations,
        "broken": ctx.broken[:20],
        "aux_refutation_files_not_compiling": ctx.aux_broken,
        "known_findings_observed": sorted(seen_known),
        "notes": ctx.notes,
    }
    write_evidence(ctx.pid, ctx.tier, ctx.seed, cov, ["DESIGN.md section 9 (trusted base)", "model scope: DESIGN.md section 7 / %s" % ctx.pid], time.time() - t0, len(new) + (1 if (ctx.broken and not new) else 0))
    for l in lines:
        print(l)
    print("%s %s: obligations %d/%d, evaluations %d, new violations %d, broken %d, known findings seen %d, %.1fs" % (
        ctx.pid, ctx.tier, cov["discharged"], cov["obligations"], ctx.evaluations, len(new), len(ctx.broken), len(seen_known), time.time() - t0))
    return rc


def main():
    ap = argparse.ArgumentParser()
    ap.add_argument("pid")
    ap.add_argument("--tier", default=os.environ.get("VERIF_TIER", "quick"))
    ap.add_argument("--replay")
    a = ap.parse_args()
    seed = int(os.environ.get("VERIF_SEED", "0") or 0)
    tier = a.tier if a.tier in ("quick", "thorough") else "quick"
    t0 = time.time()
    os.chdir(VERIF)
    import props

    with Work(a.pid) as work:
        ctx = Ctx(a.pid, tier, seed, work)
        if a.replay:
            payload = json.loads(Path(a.replay).read_text())
            payload["_path"] = a.replay
            return props.replay(ctx, payload)
        try:
            with Lock():
                ex = run_extract(work)
                if not ex["ok"]:
                    ctx.broken.append("translator failed: " + ex["log"][-500:])
                for m in ex["missing"]:
                    ctx.broken.append("translator: " + m)
                bad = hygiene()
                for b in bad:
                    ctx.broken.append("hygiene: " + b)
                props.PROVE[a.pid](ctx)
            props.CHECK[a.pid](ctx)
        except Exception as e:
            ctx.broken.append("check crashed: %r %s" % (e, traceback.format_exc()[-800:]))
        finally:
            try:
                import runner

                runner.close_pool()
            except Exception:
                pass
        return finish(ctx, t0)


if __name__ == "__main__":
    sys.exit(main())
