"""C05, implementation-side oracle for constructs outside MiniPy (keyword/star arguments, methods, constructors):
on support/rich/r_calls.py every frame of a function of the file is entered by a call expression of the file, so the
multisets of callees of pre_call, of function_enter names, of function_exit names and of callees of post_call coincide,
and every post_call carries the value the matching function_exit reported."""
import collections
import re

USER = ("inc", "mul", "scale", "fact", "noop", "early", "get", "varargs", "__init__")


def _callee(s):
    m = re.match(r"<fn (\w+)>$", str(s))
    if m:
        return m.group(1)
    m = re.match(r"<class (\w+)>$", str(s))
    if m:
        return "__init__"
    return None


def check(ctx, VERIF):
    import runner

    src = (VERIF / "support" / "rich" / "r_calls.py").read_text()
    sets = [["pre_call", "post_call", "function_enter", "function_exit", "_return", "implicit_return"],
            ["pre_call", "function_enter"], ["post_call", "function_exit"]]
    cases = [{"id": "C05/calls/%d" % i, "files": {"main.py": src}, "entry": "main", "analyses": [{"cls": "A0", "hooks": {h: None for h in hs}}]} for i, hs in enumerate(sets)]
    res = runner.run_cases(cases)
    st = ctx.streams.setdefault("call_balance_rich", {"cases": 0, "disagreements": 0, "dist": {}})
    for c, r, hs in zip(cases, res, sets):
        st["cases"] += 1
        if "harness_error" in r:
            ctx.broken.append("harness error in %s: %s" % (c["id"], r["harness_error"][-300:]))
            continue
        ctx.count(1, [c["id"]])
        ctx.impl_traces += 1
        cnt = {h: collections.Counter() for h in ("pre_call", "post_call", "function_enter", "function_exit")}
        for d in r["inst"]["deliveries"]:
            tag, _s, hook, args = d
            if hook == "pre_call":
                n = _callee(args[2])
            elif hook == "post_call":
                n = _callee(args[3])
            elif hook == "function_enter":
                n = str(args[3]).strip("'")
            elif hook == "function_exit":
                n = str(args[2]).strip("'")
            else:
                continue
            if n in USER:
                cnt[hook][n] += 1
        st["dist"]["events"] = st["dist"].get("events", 0) + sum(sum(x.values()) for x in cnt.values())
        present = [h for h in cnt if h in hs]
        ref = cnt[present[0]]
        for h in present[1:]:
            if cnt[h] != ref:
                diff = {k: (ref.get(k, 0), cnt[h].get(k, 0)) for k in set(ref) | set(cnt[h]) if ref.get(k, 0) != cnt[h].get(k, 0)}
                st["disagreements"] += 1
                ctx.violation("C05:unbalanced:%s_vs_%s" % (present[0], h), "on support/rich/r_calls.py the functions reported by %s and by %s differ (function: counts) %s" % (present[0], h, diff), {"case": c})
        if not sum(ref.values()):
            ctx.broken.append("call-balance oracle saw no events for %s" % hs)
