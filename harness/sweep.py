"""C02 corpus sweep: real-world modules through the real instrument_file, checked for the clauses of C02."""
import ast
import contextlib
import inspect
import io
import os
import shutil
import sys
import tempfile
import traceback
from pathlib import Path

from common import REPO, VERIF

for _p in (str(REPO / "src"), str(VERIF / "support")):
    if _p not in sys.path:
        sys.path.insert(0, _p)

MARKER = "# DYNAPYT: DO NOT INSTRUMENT"


def corpus_files():
    roots = [Path("/root/.pyenv/versions/3.12.1/lib/python3.12"), Path("/venv/lib/python3.12/site-packages"), REPO]
    out = []
    for r in roots:
        if not r.exists():
            continue
        for p in r.rglob("*.py"):
            s = str(p)
            if "/site-packages/" in s and r.name != "site-packages":
                continue
            if "/lib2to3/tests/data" in s or "/test/badsyntax" in s or "bad_coding" in s or "/tests/end2end" in s:
                continue
            out.append(p)
    return sorted(set(out))


def _sigs():
    from dynapyt.runtime import RuntimeEngine

    return {n: inspect.signature(f) for n, f in vars(RuntimeEngine).items() if callable(f) and not n.startswith("__")}


_SIGS = {}


def check_file(job):
    """job = (source path, hooks dict, label) -> dict(problems=[(key, what)], status)"""
    src_path, hooks, label = job
    from dynapyt.instrument.instrument import instrument_file

    if not _SIGS:
        _SIGS.update(_sigs())
    d = Path(tempfile.mkdtemp(prefix="sweep-"))
    res = {"file": str(src_path), "label": label, "problems": [], "status": "?"}
    try:
        name = "__init__.py" if Path(src_path).name == "__init__.py" else "m.py"
        p = d / name
        try:
            data = Path(src_path).read_bytes()
        except Exception as e:
            res["status"] = "unreadable"
            return res
        p.write_bytes(data)
        valid = True
        try:
            txt = data.decode("utf-8")
            compile(txt, str(p), "exec")
        except Exception:
            valid = False
        res["valid"] = valid
        buf = io.StringIO()
        try:
            with contextlib.redirect_stdout(buf), contextlib.redirect_stderr(io.StringIO()):
                ret = instrument_file(str(p), hooks)
        except BaseException as e:
            res["problems"].append(("C02:raises:%s" % type(e).__name__, "instrument_file raised %r" % (e,)))
            res["status"] = "raised"
            return res
        after = p.read_bytes()
        orig = d / (name + ".orig")
        if ret in (0, 1):
            res["status"] = "declined"
            if after != data:
                res["problems"].append(("C02:declined_modified", "declined (ret %r) but the file changed" % ret))
            if ret == 1 and valid and MARKER.encode() not in data and not (b"\r" in data):
                res["declined_valid"] = buf.getvalue()[-300:]
            return res
        res["status"] = "accepted"
        if not orig.exists() or orig.read_bytes() != data:
            res["problems"].append(("C02:orig_missing_or_different", "accepted but the preserved original is missing or differs"))
        try:
            out = after.decode("utf-8")
        except Exception as e:
            res["problems"].append(("C02:output_encoding", repr(e)))
            return res
        if not out.startswith(MARKER):
            res["problems"].append(("C02:marker_first", "output does not start with the marker"))
        if not valid:
            return res
        try:
            tree = ast.parse(out)
            compile(out, str(p), "exec")
        except SyntaxError as e:
            import re as _re

            msg = _re.sub(r"'[^']*'", "'*'", (e.msg or "").split("(")[0].strip())
            line = (e.text or "").strip()[:160]
            ctx = ""
            if _re.match(r"case\b", line) or " pattern" in (e.msg or ""):
                ctx = "match_pattern:"          # a pattern of a match statement was rewritten
            elif _re.match(r"for\s+\(?\s*_rt\._", line):
                ctx = "for_target:"             # the target of a for STATEMENT was rewritten into a call (repaired: d309581)
            elif _re.search(r"\bfor\s+\(?\s*_rt\._", line):
                ctx = "comprehension_target:"   # the target of a comprehension / async for was rewritten into a call
            res["problems"].append(("C02:uncompilable:%s%s" % (ctx, msg[:60]), "instrumented output does not compile: %s at line %s: %s" % (e.msg, e.lineno, line)))
            return res
        except Exception as e:
            res["problems"].append(("C02:uncompilable:%s" % type(e).__name__, repr(e)[:200]))
            return res
        # __future__ imports first
        seen_other = False
        body = tree.body
        for i, n in enumerate(body):
            if i == 0 and isinstance(n, ast.Expr) and isinstance(getattr(n, "value", None), ast.Constant) and isinstance(n.value.value, str):
                continue
            if isinstance(n, ast.ImportFrom) and n.module == "__future__":
                if seen_other:
                    res["problems"].append(("C02:future_first", "a __future__ import follows other statements"))
                    break
            else:
                seen_other = True
        # every _rt.X(...) binds
        for n in ast.walk(tree):
            if isinstance(n, ast.Call) and isinstance(n.func, ast.Attribute) and isinstance(n.func.value, ast.Name) and n.func.value.id == "_rt":
                nm = n.func.attr
                if nm not in _SIGS:
                    res["problems"].append(("C02:unknown_entry:%s" % nm, "call of _rt.%s which is no runtime entry point" % nm))
                    continue
                if any(isinstance(a, ast.Starred) for a in n.args) or any(k.arg is None for k in n.keywords):
                    continue
                try:
                    _SIGS[nm].bind(None, *([0] * len(n.args)), **{k.arg: 0 for k in n.keywords})
                except TypeError as e:
                    res["problems"].append(("C02:does_not_bind:%s" % nm, "_rt.%s(%d positional, %r) does not bind: %s" % (nm, len(n.args), [k.arg for k in n.keywords], e)))
        return res
    except BaseException as e:
        res["problems"].append(("C02:harness", repr(e) + traceback.format_exc()[-300:]))
        return res
    finally:
        shutil.rmtree(d, ignore_errors=True)
