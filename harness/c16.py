"""C16: partial, multi-module instrumentation (see harness/multi.py for the generated packages).

Oracles on the real implementation, per package and per subset S of its files:
  transparent   stdout / entry-module globals / uncaught exception equal those of the uninstrumented package;
  only-S        every delivery carries the path of a file of S (the preserved original `<file>.orig`);
  attributed    that path is the file of the interpreter frame that was executing (taken inside the hook);
  model         the (file, construct) sequence delivered under S is what Engine/Modules.v computes from the
                sequence delivered when every file is instrumented (evaluated inside Coq);
  metadata      the dunder assignments of every instrumented __init__.py are still plain top-level statements.
"""
import ast
import json
import random

from common import CASE_HEADER, clist, coq_eval

EXEC_LEVEL = ("begin_execution", "end_execution", "uncaught_exception")
META_NAMES = ("__version__", "__author__", "__all__", "__license__", "__email__")


def _steps(r, files):
    """deliveries -> [(file index, construct key)], skipping execution-level hooks; also checks path / frame"""
    names = sorted(files)
    out, bad_path, bad_frame = [], [], []
    keys = {}
    frames = r["inst"].get("frames") or []
    for k, d in enumerate(r["inst"]["deliveries"]):
        tag, _seq, hook, args = d
        if hook in EXEC_LEVEL:
            continue
        if len(args) < 2 or not isinstance(args[0], str):
            bad_path.append((hook, args[:2]))
            continue
        path = args[0]
        if hook == "runtime_event" and path == "" and args[1] == -1:
            continue  # known finding C06:path:runtime_event
        rel = None
        for n in names:
            if path.endswith("/" + n + ".orig"):
                rel = n
        if rel is None:
            bad_path.append((hook, path))
            continue
        fr = frames[k] if k < len(frames) else None
        if fr is not None and not fr.endswith("/" + rel):
            bad_frame.append((hook, rel, fr))
        key = (rel, hook, args[1])
        out.append((names.index(rel), keys.setdefault(key, len(keys))))
    return out, bad_path, bad_frame, keys


def check(ctx):
    import multi
    import runner

    import impl

    _h, leaves = impl.all_leaf_hooks()
    cand = [x for x in leaves if x not in EXEC_LEVEL]
    n = 3 if ctx.quick else 25
    rng = random.Random("c16-%d" % ctx.seed)
    st = ctx.streams.setdefault("packages_x_subsets", {"cases": 0, "disagreements": 0, "dist": {"packages": 0, "subsets": 0, "deliveries": 0}})
    coq_items = []
    coq_meta = []
    for pi in range(n):
        pk = multi.gen_package(rng)
        files = pk["files"]
        names = sorted(files)
        subs = multi.subsets(files, rng, ctx.quick)
        if names not in subs:
            subs.append(names)
        cases = []
        for si, sel in enumerate(subs):
            cases.append({"id": "C16/%d/%d" % (pi, si), "files": files, "entry": "main", "instrument": sel, "frames": True,
                          "analyses": [{"cls": "A0", "hooks": {x: None for x in cand}}]})
        res = runner.run_cases(cases)
        st["dist"]["packages"] += 1
        full = None
        for sel, c, r in zip(subs, cases, res):
            if sel == names and "harness_error" not in r:
                full = r
        base = None
        for sel, c, r in zip(subs, cases, res):
            st["cases"] += 1
            st["dist"]["subsets"] += 1
            if "harness_error" in r:
                ctx.broken.append("harness error in %s (files %s): %s" % (c["id"], sel, r["harness_error"][-300:]))
                continue
            ctx.count(1, [json.dumps(files, sort_keys=True) + json.dumps(sel)],
                      [{"package_files": names, "instrumented": sel, "imports": [l for l in files["main.py"].splitlines() if "import" in l][:4]}])
            ctx.impl_traces += 2
            o, i = r["orig"], r["inst"]
            # ---- transparent
            diffs = []
            if o["stdout"] != i["stdout"]:
                diffs.append("stdout %r vs %r" % (o["stdout"][-80:], i["stdout"][-80:]))
            if o["globals"] != i["globals"]:
                diffs.append("globals " + ",".join(sorted(k for k in set(o["globals"]) | set(i["globals"]) if o["globals"].get(k) != i["globals"].get(k))[:5]))
            if ((o["exc"] or {}).get("type"), (o["exc"] or {}).get("msg")) != ((i["exc"] or {}).get("type"), (i["exc"] or {}).get("msg")):
                diffs.append("exception %r vs %r" % (o["exc"], i["exc"]))
            if diffs:
                ctx.violation("C16:behaviour", "instrumenting %s of %s changes the program's behaviour: %s" % (sel, names, "; ".join(diffs)[:300]), {"case": c})
            # ---- only-S, attributed
            steps, bad_path, bad_frame, _ = _steps(r, files)
            st["dist"]["deliveries"] += len(steps)
            for (f_idx, _k) in steps:
                if names[f_idx] not in sel:
                    ctx.violation("C16:foreign_event", "an event carries the path of %s which was not instrumented (instrumented: %s)" % (names[f_idx], sel), {"case": c})
                    break
            if bad_path:
                ctx.violation("C16:bad_path", "events without the path of a file of the program: %s" % (bad_path[:3],), {"case": c})
            if bad_frame:
                ctx.violation("C16:misattributed", "event path differs from the file of the executing frame: %s" % (bad_frame[:3],), {"case": c})
            # ---- metadata
            for rel in sel:
                if rel.endswith("__init__.py"):
                    try:
                        tree = ast.parse(r["texts"][rel])
                    except SyntaxError as e:
                        ctx.violation("C16:init_syntax", "instrumented %s does not parse: %s" % (rel, e), {"case": c})
                        continue
                    want = [l.split("=")[0].strip() for l in files[rel].splitlines() if l.split("=")[0].strip() in META_NAMES]
                    plain = set()
                    for node in tree.body:
                        if isinstance(node, ast.Assign) and len(node.targets) == 1 and isinstance(node.targets[0], ast.Name) and isinstance(node.value, (ast.Constant, ast.List)):
                            if not isinstance(node.value, ast.List) or all(isinstance(e, ast.Constant) for e in node.value.elts):
                                plain.add(node.targets[0].id)
                    missing = [w for w in want if w not in plain]
                    if missing:
                        ctx.violation("C16:metadata", "metadata assignments %s of %s are no longer plain top-level statements after instrumentation" % (missing, rel), {"case": c})
            # ---- model: deliveries(S) = delivered S (deliveries(all))
            if full is not None:
                fsteps, _, _, fkeys = _steps(full, files)
                # re-key the subset run with the keys of the full run
                ok = True
                ssteps = []
                frames = r["inst"].get("frames") or []
                for d in r["inst"]["deliveries"]:
                    tag, _seq, hook, args = d
                    if hook in EXEC_LEVEL or len(args) < 2 or not isinstance(args[0], str):
                        continue
                    if hook == "runtime_event" and args[0] == "" and args[1] == -1:
                        continue
                    rel = next((nm for nm in names if args[0].endswith("/" + nm + ".orig")), None)
                    if rel is None:
                        continue
                    k = fkeys.get((rel, hook, args[1]))
                    if k is None:
                        ok = False
                        break
                    ssteps.append((names.index(rel), k))
                if not ok:
                    ctx.violation("C16:new_event", "instrumenting only %s delivers an event that the fully instrumented program does not" % (sel,), {"case": c})
                else:
                    coq_items.append((clist(["(%d, %d)" % x for x in fsteps]), clist([str(names.index(x)) for x in sel]), clist(["(%d, %d)" % x for x in ssteps])))
                    coq_meta.append((c, sel, names, pi))
    # one evaluation per package: the full run is defined once, every subset refers to it
    import re

    by_pkg = {}
    for item, meta in zip(coq_items, coq_meta):
        by_pkg.setdefault(meta[3], []).append((item, meta))
    for pi_, lst in sorted(by_pkg.items()):
        full_txt = lst[0][0][0]
        text = CASE_HEADER + "From DV Require Import Engine.Modules.\n"
        text += "Definition full : list step := %s.\n" % full_txt
        text += "Definition cases : list (list nat * list step) :=\n  %s.\n" % clist(["(%s, %s)" % (it[1], it[2]) for it, _m in lst])
        text += "Eval vm_compute in map (fun c => ok_subset full (fst c) (snd c)) cases.\n"
        ev = coq_eval(ctx.work, "cases_c16_%d" % pi_, text, timeout=900)
        if not ev["ok"]:
            ctx.broken.append("C16 model evaluation failed for package %d: %s" % (pi_, ev["error"][-300:]))
            continue
        vals = re.findall(r"true|false", ev["values"][0]) if ev["values"] else []
        if len(vals) != len(lst):
            ctx.broken.append("C16 model evaluation returned %d verdicts for %d cases (package %d)" % (len(vals), len(lst), pi_))
        for v, (_it, (c, sel, names, _pi)) in zip(vals, lst):
            if v == "false":
                st["disagreements"] += 1
                ctx.violation("C16:not_projection", "the events delivered with %s instrumented are not the events of the fully instrumented program restricted to those files (order or multiplicity differs)" % (sel,), {"case": c})
