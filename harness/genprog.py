"""Generator, printer and Coq emitter for MiniPy programs (coq/Py/Syntax.v).

AST (plain tuples, first component = constructor):
  expr:  ("const", nid, kind, value) | ("name", nid, x) | ("un", nid, op, e) | ("bin", nid, op, a, b) | ("bool", nid, op, a, b)
         | ("cmp", nid, a, [(op, e), ...]) | ("ifexp", nid, c, a, b) | ("attr", nid, e, x) | ("sub", nid, e, i)
         | ("call", nid, f, [args]) | ("list", nid, [es]) | ("tuple", nid, [es])
  target: ("tname", x) | ("tattr", nid, e, x) | ("tsub", nid, e, i)
  stmt:  ("expr", e) | ("assign", nid, [targets], e) | ("aug", nid, target, op, e) | ("if", nid, c, body, orelse)
         | ("while", nid, c, body, orelse) | ("for", nid, x, it, body, orelse) | ("break", nid) | ("continue", nid) | ("pass",)
         | ("assert", nid, c, msg|None) | ("raise", nid, e|None, cause|None) | ("try", nid, body, [(ty|None, name|None, body)], orelse, final)
         | ("return", nid, e|None) | ("def", nid, fid, name)
  program: {"funs": [ {nid, name, params, locals, body} ], "main": [stmts]}
"""
import random

from common import cstr, clist, cbool

UN = {"UInvert": "~", "UMinus": "-", "UNot": "not ", "UPlus": "+"}
BIN = {"BAdd": "+", "BBitAnd": "&", "BBitOr": "|", "BBitXor": "^", "BDivide": "/", "BFloorDivide": "//", "BLeftShift": "<<",
       "BMatrixMultiply": "@", "BModulo": "%", "BMultiply": "*", "BPower": "**", "BRightShift": ">>", "BSubtract": "-"}
BOOL = {"BAnd": "and", "BOr": "or"}
CMP = {"CEqual": "==", "CGreaterThan": ">", "CGreaterThanEqual": ">=", "CIn": "in", "CIs": "is", "CLessThan": "<",
       "CLessThanEqual": "<=", "CNotEqual": "!=", "CIsNot": "is not", "CNotIn": "not in"}
KIND_OF = {"const": None, "name": "Name", "un": "UnaryOperation", "bin": "BinaryOperation", "bool": "BooleanOperation", "cmp": "Comparison",
           "ifexp": "IfExp", "attr": "Attribute", "sub": "Subscript", "call": "Call", "list": "List", "tuple": "Tuple"}
CONST_KIND = {"int": "Integer", "str": "SimpleString", "bool": "Name", "none": "Name", "float": "Float"}


# ------------------------------------------------------------------------------------------------- printer
class Printer:
    """renders a program; records for every nid the start position and libcst node kind of its construct"""

    def __init__(self):
        self.lines = []
        self.starts = {}  # nid -> (line, col, kind)

    def atom(self, e):
        return e[0] in ("const", "name", "call", "attr", "sub", "list", "tuple")

    def expr(self, e, line, col, paren=False):
        """returns text; records starts with absolute (line, col) given that the text begins at col"""
        t = e[0]
        if paren and not self.atom(e):
            return "(" + self.expr(e, line, col + 1) + ")"
        if t == "const":
            _, n, k, v = e
            s = {"int": lambda: str(v), "str": lambda: "'%s'" % v, "bool": lambda: "True" if v else "False", "none": lambda: "None", "float": lambda: v}[k]()
            if k == "int" and v < 0:
                s = "(%s)" % s  # keep the literal a single Integer? a negative literal is a unary minus in Python: generator never emits negatives
            self.starts[n] = (line, col, CONST_KIND[k])
            return s
        if t == "name":
            self.starts[e[1]] = (line, col, "Name")
            return e[2]
        if t == "un":
            _, n, op, a = e
            self.starts[n] = (line, col, "UnaryOperation")
            tok = UN[op]
            return tok + self.expr(a, line, col + len(tok), paren=True)
        if t in ("bin", "bool"):
            _, n, op, a, b = e
            self.starts[n] = (line, col, "BinaryOperation" if t == "bin" else "BooleanOperation")
            tok = (BIN if t == "bin" else BOOL)[op]
            l = self.expr(a, line, col, paren=True)
            r = self.expr(b, line, col + len(l) + len(tok) + 2, paren=True)
            return "%s %s %s" % (l, tok, r)
        if t == "cmp":
            _, n, a, links = e
            self.starts[n] = (line, col, "Comparison")
            s = self.expr(a, line, col, paren=True)
            for op, x in links:
                tok = CMP[op]
                s += " " + tok + " "
                s += self.expr(x, line, col + len(s), paren=True)
            return s
        if t == "ifexp":
            _, n, c, a, b = e
            self.starts[n] = (line, col, "IfExp")
            sa = self.expr(a, line, col, paren=True)
            sc = self.expr(c, line, col + len(sa) + 4, paren=True)
            sb = self.expr(b, line, col + len(sa) + 4 + len(sc) + 6, paren=True)
            return "%s if %s else %s" % (sa, sc, sb)
        if t == "attr":
            _, n, a, x = e
            self.starts[n] = (line, col, "Attribute")
            return self.expr(a, line, col, paren=True) + "." + x
        if t == "sub":
            _, n, a, i = e
            self.starts[n] = (line, col, "Subscript")
            sa = self.expr(a, line, col, paren=True)
            return sa + "[" + self.expr(i, line, col + len(sa) + 1) + "]"
        if t == "call":
            _, n, f, args = e
            self.starts[n] = (line, col, "Call")
            s = self.expr(f, line, col, paren=True) + "("
            for j, a in enumerate(args):
                if j:
                    s += ", "
                s += self.expr(a, line, col + len(s))
            return s + ")"
        if t in ("list", "tuple"):
            _, n, es = e
            self.starts[n] = (line, col + (1 if t == "tuple" else 0), "List" if t == "list" else "Tuple")  # libcst excludes a node's own parentheses
            o, c = ("[", "]") if t == "list" else ("(", ")")
            s = o
            for j, a in enumerate(es):
                if j:
                    s += ", "
                s += self.expr(a, line, col + len(s))
            if t == "tuple" and len(es) == 1:
                s += ","
            return s + c
        raise ValueError(e)

    def target(self, t, line, col):
        if t[0] == "tname":
            return t[1]
        if t[0] == "tattr":
            _, n, e, x = t
            self.starts[n] = (line, col, "Attribute")
            return self.expr(e, line, col, paren=True) + "." + x
        _, n, e, i = t
        self.starts[n] = (line, col, "Subscript")
        se = self.expr(e, line, col, paren=True)
        return se + "[" + self.expr(i, line, col + len(se) + 1) + "]"

    def emit(self, ind, text):
        self.lines.append("    " * ind + text)

    def cur(self):
        return len(self.lines) + 1

    def block(self, ss, ind):
        if not ss:
            self.emit(ind, "pass")
        for s in ss:
            self.stmt(s, ind)

    def stmt(self, s, ind):
        line, col = self.cur(), 4 * ind
        t = s[0]
        if t == "expr":
            self.emit(ind, self.expr(s[1], line, col))
        elif t == "assign":
            _, n, ts, e = s
            self.starts[n] = (line, col, "Assign")
            txt = ""
            for tg in ts:
                txt += self.target(tg, line, col + len(txt)) + " = "
            self.emit(ind, txt + self.expr(e, line, col + len(txt)))
        elif t == "aug":
            _, n, tg, op, e = s
            self.starts[n] = (line, col, "AugAssign")
            txt = self.target(tg, line, col) + " " + BIN[op] + "= "
            self.emit(ind, txt + self.expr(e, line, col + len(txt)))
        elif t == "if":
            _, n, c, body, orelse = s
            self.starts[n] = (line, col, "If")
            self.emit(ind, "if " + self.expr(c, line, col + 3) + ":")
            self.block(body, ind + 1)
            if orelse:
                self.emit(ind, "else:")
                self.block(orelse, ind + 1)
        elif t == "while":
            _, n, c, body, orelse = s
            self.starts[n] = (line, col, "While")
            self.emit(ind, "while " + self.expr(c, line, col + 6) + ":")
            self.block(body, ind + 1)
            if orelse:
                self.emit(ind, "else:")
                self.block(orelse, ind + 1)
        elif t == "for":
            _, n, x, it, body, orelse = s
            self.starts[n] = (line, col, "For")
            pre = "for %s in " % x
            self.emit(ind, pre + self.expr(it, line, col + len(pre)) + ":")
            self.block(body, ind + 1)
            if orelse:
                self.emit(ind, "else:")
                self.block(orelse, ind + 1)
        elif t == "break":
            self.starts[s[1]] = (line, col, "Break")
            self.emit(ind, "break")
        elif t == "continue":
            self.starts[s[1]] = (line, col, "Continue")
            self.emit(ind, "continue")
        elif t == "pass":
            self.emit(ind, "pass")
        elif t == "assert":
            _, n, c, m = s
            self.starts[n] = (line, col, "Assert")
            txt = "assert " + self.expr(c, line, col + 7)
            if m is not None:
                txt += ", " + self.expr(m, line, col + len(txt) + 2)
            self.emit(ind, txt)
        elif t == "raise":
            _, n, e, ca = s
            self.starts[n] = (line, col, "Raise")
            txt = "raise"
            if e is not None:
                txt += " " + self.expr(e, line, col + 6)
                if ca is not None:
                    txt += " from " + self.expr(ca, line, col + len(txt) + 6)
            self.emit(ind, txt)
        elif t == "try":
            _, n, body, hs, orelse, final = s
            self.starts[n] = (line, col, "Try")
            self.emit(ind, "try:")
            self.block(body, ind + 1)
            for ty, name, hb in hs:
                l2 = self.cur()
                txt = "except"
                if ty is not None:
                    txt += " " + self.expr(ty, l2, col + 7)
                    if name is not None:
                        txt += " as " + name
                self.emit(ind, txt + ":")
                self.block(hb, ind + 1)
            if orelse:
                self.emit(ind, "else:")
                self.block(orelse, ind + 1)
            if final:
                self.emit(ind, "finally:")
                self.block(final, ind + 1)
        elif t == "return":
            _, n, e = s
            self.starts[n] = (line, col, "Return")
            self.emit(ind, "return" + ("" if e is None else " " + self.expr(e, line, col + 7)))
        elif t == "def":
            _, n, fid, name = s
            fd = self.funs[fid]
            self.starts[n] = (line, col, "FunctionDef")
            self.emit(ind, "def %s(%s):" % (name, ", ".join(fd["params"])))
            self.block(fd["body"], ind + 1)
        else:
            raise ValueError(s)

    def program(self, prog):
        self.funs = prog["funs"]
        self.emit(0, "from vsupport import *")
        for s in prog["main"]:
            self.stmt(s, 0)
        return "\n".join(self.lines) + "\n"


def resolve_spans(src, starts):
    """nid -> (sl, sc, el, ec) through libcst's own PositionProvider; name sources through QualifiedNameProvider"""
    import libcst as cst
    from libcst.metadata import MetadataWrapper, PositionProvider, QualifiedNameProvider, QualifiedNameSource

    w = MetadataWrapper(cst.parse_module(src), unsafe_skip_copy=True)
    pos = w.resolve(PositionProvider)
    qn = w.resolve(QualifiedNameProvider)
    by = {}
    for node, p in pos.items():
        by.setdefault((p.start.line, p.start.column, type(node).__name__), []).append((node, p))
    spans, nsrc = {}, {}
    for n, (l, c, k) in starts.items():
        cands = by.get((l, c, k), [])
        if len(cands) != 1:
            raise ValueError("printer/parse mismatch for nid %d at %r: %d candidates" % (n, (l, c, k), len(cands)))
        node, p = cands[0]
        spans[n] = (p.start.line, p.start.column, p.end.line, p.end.column)
        if k == "Name":
            q = qn.get(node, set())
            q = q() if callable(q) else q
            src_ = "NNone"
            for x in q:
                src_ = {QualifiedNameSource.LOCAL: "NLocal", QualifiedNameSource.BUILTIN: "NBuiltin", QualifiedNameSource.IMPORT: "NImport"}[x.source]
                break
            nsrc[n] = src_
    return spans, nsrc


# ------------------------------------------------------------------------------------------------- Coq emission
def coq_expr(e, nsrc):
    t = e[0]
    if t == "const":
        _, n, k, v = e
        c = {"int": lambda: "(KInt (%d)%%Z)" % v, "str": lambda: "(KStr %s)" % cstr(v), "bool": lambda: "(KBool %s)" % cbool(v), "none": lambda: "KNone", "float": lambda: "(KFloat %s)" % cstr(v)}[k]()
        return "(EConst %d %s)" % (n, c)
    if t == "name":
        return "(EName %d %s %s)" % (e[1], cstr(e[2]), nsrc.get(e[1], "NNone"))
    if t == "un":
        return "(EUn %d %s %s)" % (e[1], e[2], coq_expr(e[3], nsrc))
    if t == "bin":
        return "(EBin %d %s %s %s)" % (e[1], e[2], coq_expr(e[3], nsrc), coq_expr(e[4], nsrc))
    if t == "bool":
        return "(EBool %d %s %s %s)" % (e[1], e[2], coq_expr(e[3], nsrc), coq_expr(e[4], nsrc))
    if t == "cmp":
        r = "Cnil"
        for op, x in reversed(e[3]):
            r = "(Ccons %s %s %s)" % (op, coq_expr(x, nsrc), r)
        return "(ECmp %d %s %s)" % (e[1], coq_expr(e[2], nsrc), r)
    if t == "ifexp":
        return "(EIfExp %d %s %s %s)" % (e[1], coq_expr(e[2], nsrc), coq_expr(e[3], nsrc), coq_expr(e[4], nsrc))
    if t == "attr":
        return "(EAttr %d %s %s)" % (e[1], coq_expr(e[2], nsrc), cstr(e[3]))
    if t == "sub":
        return "(ESub %d %s %s)" % (e[1], coq_expr(e[2], nsrc), coq_expr(e[3], nsrc))
    if t in ("call", "list", "tuple"):
        es = e[3] if t == "call" else e[2]
        r = "Enil"
        for x in reversed(es):
            r = "(Econs %s %s)" % (coq_expr(x, nsrc), r)
        if t == "call":
            return "(ECall %d %s %s)" % (e[1], coq_expr(e[2], nsrc), r)
        return "(%s %d %s)" % ("EList" if t == "list" else "ETuple", e[1], r)
    raise ValueError(e)


def coq_oexpr(e, nsrc):
    return "None" if e is None else "(Some %s)" % coq_expr(e, nsrc)


def coq_target(t, nsrc):
    if t[0] == "tname":
        return "(TName %s)" % cstr(t[1])
    if t[0] == "tattr":
        return "(TAttr %d %s %s)" % (t[1], coq_expr(t[2], nsrc), cstr(t[3]))
    return "(TSub %d %s %s)" % (t[1], coq_expr(t[2], nsrc), coq_expr(t[3], nsrc))


def coq_stmts(ss, nsrc):
    r = "Snil"
    for s in reversed(ss):
        r = "(Scons %s %s)" % (coq_stmt(s, nsrc), r)
    return r


def coq_stmt(s, nsrc):
    t = s[0]
    if t == "expr":
        return "(SExpr %s)" % coq_expr(s[1], nsrc)
    if t == "assign":
        return "(SAssign %d %s %s)" % (s[1], clist([coq_target(x, nsrc) for x in s[2]]), coq_expr(s[3], nsrc))
    if t == "aug":
        return "(SAug %d %s %s %s)" % (s[1], coq_target(s[2], nsrc), s[3], coq_expr(s[4], nsrc))
    if t in ("if", "while"):
        return "(%s %d %s %s %s)" % ("SIf" if t == "if" else "SWhile", s[1], coq_expr(s[2], nsrc), coq_stmts(s[3], nsrc), coq_stmts(s[4], nsrc))
    if t == "for":
        return "(SFor %d %s %s %s %s)" % (s[1], cstr(s[2]), coq_expr(s[3], nsrc), coq_stmts(s[4], nsrc), coq_stmts(s[5], nsrc))
    if t == "break":
        return "(SBreak %d)" % s[1]
    if t == "continue":
        return "(SContinue %d)" % s[1]
    if t == "pass":
        return "SPass"
    if t == "assert":
        return "(SAssert %d %s %s)" % (s[1], coq_expr(s[2], nsrc), coq_oexpr(s[3], nsrc))
    if t == "raise":
        return "(SRaise %d %s %s)" % (s[1], coq_oexpr(s[2], nsrc), coq_oexpr(s[3], nsrc))
    if t == "try":
        hs = "Hnil"
        for ty, name, hb in reversed(s[3]):
            hs = "(Hcons %s %s %s %s)" % (coq_oexpr(ty, nsrc), "None" if name is None else "(Some %s)" % cstr(name), coq_stmts(hb, nsrc), hs)
        return "(STry %d %s %s %s %s)" % (s[1], coq_stmts(s[2], nsrc), hs, coq_stmts(s[4], nsrc), coq_stmts(s[5], nsrc))
    if t == "return":
        return "(SReturn %d %s)" % (s[1], coq_oexpr(s[2], nsrc))
    if t == "def":
        return "(SDef %d %d %s)" % (s[1], s[2], cstr(s[3]))
    raise ValueError(s)


def coq_program(prog, nsrc):
    funs = clist(["{| f_nid := %d; f_name := %s; f_params := %s; f_locals := %s; f_body := %s |}" % (
        f["nid"], cstr(f["name"]), clist([cstr(p) for p in f["params"]]), clist([cstr(p) for p in f["locals"]]), coq_stmts(f["body"], nsrc)) for f in prog["funs"]])
    return "{| p_funs := %s; p_main := %s |}" % (funs, coq_stmts(prog["main"], nsrc))


# ------------------------------------------------------------------------------------------------- random generation
class Gen:
    def __init__(self, rng, features=None):
        self.rng = rng
        self.n = 0
        self.funs = []
        self.feat = features or {}

    def nid(self):
        self.n += 1
        return self.n

    # ---- expressions; `env` = {"int": [names], "rec": [...], "list": [...], "fun": [(name, arity)]}
    def int_e(self, env, d):
        r = self.rng
        ch = r.random()
        if d <= 0 or ch < 0.25:
            if env["int"] and r.random() < 0.5:
                return ("name", self.nid(), r.choice(env["int"]))
            return ("const", self.nid(), "int", r.choice([0, 1, 2, 3, 5, 7]))
        if ch < 0.35:
            return ("call", self.nid(), ("name", self.nid(), "k"), [("const", self.nid(), "int", r.randrange(0, 9))])
        if ch < 0.7:
            op = r.choice(["BAdd", "BSubtract", "BMultiply", "BFloorDivide", "BModulo", "BBitAnd", "BBitOr", "BBitXor"] + (["BLeftShift", "BRightShift"] if self.feat.get("shifts", True) else []))
            a = self.int_e(env, d - 1)
            if op in ("BLeftShift", "BRightShift"):
                b = ("const", self.nid(), "int", r.randrange(0, 3))
            elif op in ("BFloorDivide", "BModulo") and r.random() < 0.85:
                b = ("const", self.nid(), "int", r.choice([1, 2, 3]))
            else:
                b = self.int_e(env, d - 1)
            return ("bin", self.nid(), op, a, b)
        if ch < 0.78:
            return ("un", self.nid(), r.choice(["UMinus", "UPlus", "UInvert"]), self.int_e(env, d - 1))
        if ch < 0.88:
            return ("ifexp", self.nid(), self.bool_e(env, d - 1), self.int_e(env, d - 1), self.int_e(env, d - 1))
        if ch < 0.94 and env["list"]:
            return ("sub", self.nid(), ("name", self.nid(), r.choice(env["list"])), ("const", self.nid(), "int", r.randrange(0, 2)))
        if env["fun"] and self.feat.get("calls", True):
            f, ar = r.choice(env["fun"])
            return ("call", self.nid(), ("name", self.nid(), f), [self.int_e(env, d - 1) for _ in range(ar)])
        return ("const", self.nid(), "int", r.randrange(0, 9))

    def bool_e(self, env, d):
        r = self.rng
        ch = r.random()
        if d <= 0 or ch < 0.5:
            links = [(r.choice(["CEqual", "CLessThan", "CLessThanEqual", "CGreaterThan", "CGreaterThanEqual", "CNotEqual"]), self.int_e(env, d - 1))]
            if self.feat.get("chains", True) and r.random() < 0.2:
                links.append((r.choice(["CLessThan", "CEqual", "CNotEqual"]), self.int_e(env, d - 1)))
            return ("cmp", self.nid(), self.int_e(env, d - 1), links)
        if ch < 0.62:
            return ("un", self.nid(), "UNot", self.bool_e(env, d - 1) if r.random() < 0.7 else self.int_e(env, d - 1))
        if ch < 0.85:
            # operands of and/or in (possibly) test position: recorders only when the feature is on, because the
            # instrumented code tests the truth of the deciding operand twice there (known finding)
            op_e = self.any_truthy if self.feat.get("rec_in_tests", False) else (lambda e_, d_: r.choice([self.bool_e, self.int_e])(e_, d_))
            return ("bool", self.nid(), r.choice(["BAnd", "BOr"]), op_e(env, d - 1), op_e(env, d - 1))
        if ch < 0.92 and env["list"]:
            return ("cmp", self.nid(), self.int_e(env, d - 1), [(r.choice(["CIn", "CNotIn"]), ("name", self.nid(), r.choice(env["list"])))])
        return ("const", self.nid(), "bool", r.random() < 0.5)

    def any_truthy(self, env, d):
        r = self.rng
        ch = r.random()
        if ch < 0.4:
            return self.bool_e(env, d)
        if ch < 0.7:
            return self.int_e(env, d)
        return self.rec_e(env, d)

    def rec_e(self, env, d):
        r = self.rng
        ch = r.random()
        if d <= 0 or ch < 0.3:
            if env["rec"] and r.random() < 0.6:
                return ("name", self.nid(), r.choice(env["rec"]))
            args = [] if r.random() < 0.7 else [("const", self.nid(), "bool", r.random() < 0.5)]
            return ("call", self.nid(), ("name", self.nid(), "r"), args)
        if ch < 0.55:
            op = r.choice(list(BIN))
            if op == "BPower":
                op = "BAdd"
            a, b = self.rec_e(env, d - 1), self.any_e(env, d - 1)
            if r.random() < 0.3:
                a, b = self.int_e(env, d - 1), self.rec_e(env, d - 1)
                if op == "BMatrixMultiply":
                    op = "BSubtract"
            return ("bin", self.nid(), op, a, b)
        if ch < 0.65:
            return ("attr", self.nid(), self.rec_e(env, d - 1), r.choice(["foo", "bar", "v"]))
        if ch < 0.75:
            return ("sub", self.nid(), self.rec_e(env, d - 1), self.any_e(env, d - 1))
        if ch < 0.83:
            return ("call", self.nid(), self.rec_e(env, d - 1), [self.any_e(env, d - 1) for _ in range(r.randrange(0, 3))])
        if ch < 0.9:
            return ("un", self.nid(), r.choice(["UMinus", "UPlus", "UInvert"]), self.rec_e(env, d - 1))
        if ch < 0.95:
            # a boolean operation on recorders inside an arithmetic context (value position: truth tested once)
            return ("bin", self.nid(), "BAdd", ("bool", self.nid(), r.choice(["BAnd", "BOr"]), self.rec_e(env, d - 1), self.any_e(env, d - 1)), self.rec_e(env, d - 1))
        op = r.choice(["CEqual", "CLessThan", "CGreaterThanEqual", "CNotEqual"])
        return ("cmp", self.nid(), self.rec_e(env, d - 1), [(op, self.any_e(env, d - 1))])

    def any_e(self, env, d):
        r = self.rng
        ch = r.random()
        if ch < 0.45:
            return self.int_e(env, d)
        if ch < 0.65:
            return self.rec_e(env, d)
        if ch < 0.75:
            return self.bool_e(env, d)
        if ch < 0.83:
            return ("const", self.nid(), "str", r.choice(["s", "ab", "x1"]))
        if ch < 0.88:
            return ("const", self.nid(), "none", None)
        if ch < 0.94:
            return ("list", self.nid(), [self.int_e(env, d - 1) for _ in range(r.randrange(0, 3))])
        return ("tuple", self.nid(), [self.int_e(env, d - 1) for _ in range(r.randrange(1, 3))])

    # ---- statements
    def fresh_name(self, env, kind):
        pool = {"int": ["a", "b", "c", "d", "n"], "rec": ["p", "q", "o"], "list": ["xs", "ys"]}[kind]
        return self.rng.choice(pool)

    def block(self, env, d, inloop, infun, n=None):
        n = n if n is not None else self.rng.randrange(1, 4)
        out = []
        for _ in range(n):
            out += self.stmt(env, d, inloop, infun)
        return out

    def stmt(self, env, d, inloop, infun):
        r = self.rng
        ch = r.random()
        E = 2
        if ch < 0.3 or d <= 0:
            kind = r.choice(["int", "int", "rec", "list"])
            x = self.fresh_name(env, kind)
            if kind == "int":
                e = self.int_e(env, E)
            elif kind == "rec":
                e = self.rec_e(env, E)
            else:
                e = ("list", self.nid(), [self.int_e(env, 1) for _ in range(r.randrange(1, 4))])
            for kk in ("int", "rec", "list"):
                if x in env[kk] and kk != kind:
                    env[kk].remove(x)
            if x not in env[kind]:
                env[kind].append(x)
            ts = [("tname", x)]
            if kind == "int" and r.random() < 0.1:
                y = self.fresh_name(env, "int")
                if y != x:
                    if y not in env["int"]:
                        env["int"].append(y)
                    ts.append(("tname", y))
            return [("assign", self.nid(), ts, e)]
        if ch < 0.36 and env["rec"]:
            o = ("name", self.nid(), r.choice(env["rec"]))
            tg = ("tattr", self.nid(), o, r.choice(["foo", "v"])) if r.random() < 0.5 else ("tsub", self.nid(), o, self.int_e(env, 1))
            return [("assign", self.nid(), [tg], self.any_e(env, E))]
        if ch < 0.44 and [v for v in env["int"] if not v.startswith("i")] and self.feat.get("aug", True):
            x = r.choice([v for v in env["int"] if not v.startswith("i")])  # loop counters are only touched by their own increment
            op = r.choice(["BAdd", "BSubtract", "BMultiply", "BBitOr"])
            return [("aug", self.nid(), ("tname", x), op, self.int_e(env, 1))]
        if ch < 0.5:
            return [("expr", r.choice([self.int_e, self.rec_e])(env, E))]
        if ch < 0.62:
            c = self.any_truthy(env, E)
            body = self.block(dict((k, list(v)) for k, v in env.items()), d - 1, inloop, infun)
            orelse = self.block(dict((k, list(v)) for k, v in env.items()), d - 1, inloop, infun) if r.random() < 0.5 else []
            return [("if", self.nid(), c, body, orelse)]
        if ch < 0.7 and self.feat.get("while", True):
            self.nctr = getattr(self, "nctr", 0) + 1
            i = "i%d" % self.nctr      # every while loop has its own counter, only touched by its own increment
            init = ("assign", self.nid(), [("tname", i)], ("const", self.nid(), "int", 0))
            cond = ("cmp", self.nid(), ("name", self.nid(), i), [("CLessThan", ("const", self.nid(), "int", r.randrange(1, 4)))])
            env2 = dict((k, list(v)) for k, v in env.items())
            if i not in env2["int"]:
                env2["int"].append(i)
            inc = ("aug", self.nid(), ("tname", i), "BAdd", ("const", self.nid(), "int", 1)) if self.feat.get("aug", True) else \
                ("assign", self.nid(), [("tname", i)], ("bin", self.nid(), "BAdd", ("name", self.nid(), i), ("const", self.nid(), "int", 1)))
            body = [inc] + self.block(env2, d - 1, True, infun)
            orelse = self.block(env2, d - 1, inloop, infun, 1) if r.random() < 0.3 else []
            if i not in env["int"]:
                env["int"].append(i)
            return [init, ("while", self.nid(), cond, body, orelse)]
        if ch < 0.78 and self.feat.get("for", True):
            x = r.choice(["u", "t"])
            if env["list"] and r.random() < 0.5:
                it = ("name", self.nid(), r.choice(env["list"]))
                kind = "int"
            elif r.random() < 0.6:
                it = ("list", self.nid(), [self.int_e(env, 1) for _ in range(r.randrange(0, 4))])
                kind = "int"
            else:
                it = self.rec_e(env, 1)
                kind = "rec"
            env2 = dict((k, list(v)) for k, v in env.items())
            for kk in ("int", "rec", "list"):
                if x in env2[kk]:
                    env2[kk].remove(x)
            env2[kind].append(x)
            body = self.block(env2, d - 1, True, infun)
            orelse = self.block(dict((k, list(v)) for k, v in env.items()), d - 1, inloop, infun, 1) if r.random() < 0.3 else []
            for kk in ("int", "rec", "list"):   # the loop variable may be unbound or of either kind afterwards
                if x in env[kk]:
                    env[kk].remove(x)
            return [("for", self.nid(), x, it, body, orelse)]
        if ch < 0.82 and inloop:
            c = self.bool_e(env, 1)
            return [("if", self.nid(), c, [(r.choice(["break", "continue"]), self.nid())], [])]
        if ch < 0.88 and self.feat.get("try", True):
            env2 = dict((k, list(v)) for k, v in env.items())
            body = self.block(env2, d - 1, inloop, infun)
            if r.random() < 0.6:
                body.append(r.choice([
                    ("expr", ("call", self.nid(), ("name", self.nid(), "boom"), [("const", self.nid(), "int", r.randrange(1, 5))])),
                    ("raise", self.nid(), ("call", self.nid(), ("name", self.nid(), r.choice(["E1", "E2", "ValueError"])), [("const", self.nid(), "int", r.randrange(1, 5))]), None),
                    ("assign", self.nid(), [("tname", "z")], ("bin", self.nid(), "BFloorDivide", self.int_e(env, 1), ("const", self.nid(), "int", 0))),
                ]))
            hs = []
            for _ in range(r.randrange(0, 3)):
                ty = r.choice([None, "E1", "E2", "Exception", "ZeroDivisionError", "ValueError"])
                name = "ex" if (ty is not None and r.random() < 0.5) else None
                hb = self.block(dict((k, list(v)) for k, v in env.items()), d - 1, inloop, infun, 1)
                if r.random() < 0.15:
                    hb.append(("raise", self.nid(), None, None))
                hs.append((None if ty is None else ("name", self.nid(), ty), name, hb))
                if ty is None:
                    break
            orelse = self.block(dict((k, list(v)) for k, v in env.items()), d - 1, inloop, infun, 1) if (hs and r.random() < 0.3) else []
            final = self.block(dict((k, list(v)) for k, v in env.items()), d - 1, inloop, infun, 1) if (not hs or r.random() < 0.3) else []
            return [("try", self.nid(), body, hs, orelse, final)]
        if ch < 0.91 and self.feat.get("assert", True):
            msg = None if r.random() < 0.5 else r.choice([self.int_e, self.rec_e, lambda e_, d_: ("const", self.nid(), "str", "msg")])(env, 1)
            return [("assert", self.nid(), self.any_truthy(env, 1), msg)]
        if ch < 0.93 and infun:
            return [("return", self.nid(), None if r.random() < 0.2 else self.int_e(env, E))]
        if ch < 0.97 and not infun and self.feat.get("defs", True) and len(self.funs) < 3:
            return self.fundef(env, d)
        return [("expr", self.int_e(env, E))]

    def fundef(self, env, d):
        r = self.rng
        name = "f%d" % len(self.funs)
        params = ["x", "y"][: r.randrange(0, 3)]
        fid = len(self.funs)
        self.funs.append(None)
        env2 = {"int": list(params) + [v for v in env["int"] if v not in ("a", "b", "c", "d", "n", "z") and not v.startswith("i")], "rec": [], "list": [], "fun": list(env["fun"])}
        # globals readable inside; names assigned inside become locals -> only read names never assigned in the body
        nid = self.nid()
        body = self.block(env2, min(d - 1, 2), False, True)
        if r.random() < 0.7:
            body.append(("return", self.nid(), self.int_e(env2, 1)))
        assigned = set()
        collect_assigned(body, assigned)
        locals_ = sorted(assigned - set(params))
        self.funs[fid] = {"nid": nid, "name": name, "params": params, "locals": locals_, "body": body}
        env["fun"].append((name, len(params)))
        return [("def", nid, fid, name)]

    def program(self):
        env = {"int": [], "rec": [], "list": [], "fun": []}
        main = self.block(env, self.feat.get("depth", 3), False, False, self.rng.randrange(2, 7))
        return {"funs": self.funs, "main": main}


def collect_assigned(ss, acc):
    for s in ss:
        t = s[0]
        if t == "assign":
            for tg in s[2]:
                if tg[0] == "tname":
                    acc.add(tg[1])
        elif t == "aug" and s[2][0] == "tname":
            acc.add(s[2][1])
        elif t in ("if", "while"):
            collect_assigned(s[3], acc)
            collect_assigned(s[4], acc)
        elif t == "for":
            acc.add(s[2])
            collect_assigned(s[4], acc)
            collect_assigned(s[5], acc)
        elif t == "try":
            collect_assigned(s[2], acc)
            for ty, name, hb in s[3]:
                if name:
                    acc.add(name)
                collect_assigned(hb, acc)
            collect_assigned(s[4], acc)
            collect_assigned(s[5], acc)


def uses_unbound_locals(prog):
    return False


def gen_program(rng, features=None):
    """returns dict(ast, source, spans, nsrc, coq)"""
    for _ in range(50):
        g = Gen(rng, features)
        prog = g.program()
        pr = Printer()
        src = pr.program(prog)
        try:
            compile(src, "<gen>", "exec")
            spans, nsrc = resolve_spans(src, pr.starts)
        except (SyntaxError, ValueError):
            continue
        return {"ast": prog, "source": src, "spans": spans, "nsrc": nsrc, "coq": coq_program(prog, nsrc), "nodes": g.n}
    raise RuntimeError("generator failed to produce a valid program")


def gen_source(rng):
    return gen_program(rng)["source"]
