"""Access to the REAL implementation (imported from $VERIF_REPO/src, default /repo/src)."""
import contextlib
import io
import os
import sys
import tempfile
from pathlib import Path

from common import REPO, VERIF

for p in (str(REPO / "src"), str(VERIF / "support")):
    if p not in sys.path:
        sys.path.insert(0, p)

_COUNTER = [0]


def restore_signals():
    """RuntimeEngine installs end_execution as SIGINT/SIGTERM handler: undo, so that worker pools can be terminated"""
    import signal

    signal.signal(signal.SIGTERM, signal.SIG_DFL)
    signal.signal(signal.SIGINT, signal.default_int_handler)


def fresh_engine(analyses_lines=("vrec.Rec",), coverage_dir=None):
    """Create a RuntimeEngine through its real constructor (analyses file, env, singleton)."""
    from dynapyt.runtime import RuntimeEngine
    import vrec

    _COUNTER[0] += 1
    sid = "verif-%d-%d" % (os.getpid(), _COUNTER[0])
    os.environ["DYNAPYT_SESSION_ID"] = sid
    if coverage_dir:
        os.environ["DYNAPYT_COVERAGE"] = str(coverage_dir)
    else:
        os.environ.pop("DYNAPYT_COVERAGE", None)
    af = Path(tempfile.gettempdir()) / ("dynapyt_analyses-%s.txt" % sid)
    af.write_text("\n".join(analyses_lines))
    old = RuntimeEngine._rt_engine
    if old is not None:
        old.end_execution_called = True  # silence the stale engine
    RuntimeEngine._rt_engine = None
    vrec.reset()
    with contextlib.redirect_stderr(io.StringIO()):
        rt = RuntimeEngine()
    restore_signals()
    af.unlink()
    return rt


def retire(rt):
    """Make a used engine inert (its atexit/__del__ hooks become no-ops)."""
    from dynapyt.runtime import RuntimeEngine

    rt.end_execution_called = True
    if RuntimeEngine._rt_engine is rt:
        RuntimeEngine._rt_engine = None


def instrument_text(src, hooks, path):
    """Real instrument_code on `src` as file `path` (must exist); returns (text|None, iid->loc, stdout)."""
    from dynapyt.instrument.instrument import instrument_code
    from dynapyt.instrument.IIDs import IIDs

    iids = IIDs(str(path))
    buf = io.StringIO()
    with contextlib.redirect_stdout(buf):
        out = instrument_code(src, str(path), iids, hooks)
    return out, iids, buf.getvalue()


def all_leaf_hooks():
    import json
    import importlib.resources as pr
    with pr.files("dynapyt.utils").joinpath("hierarchy.json").open("r") as f:
        h = json.load(f)

    def _leaves(d):
        for k, v in d.items():
            if v:
                yield from _leaves(v)
            else:
                yield k

    return h, sorted(set(_leaves(h)))
