"""Generated multi-module packages for C16 (partial instrumentation).

A package = main.py (entry), util.py, pkg/__init__.py (with metadata assignments), pkg/a.py, pkg/b.py, and
optionally pkg/sub/__init__.py + pkg/sub/c.py.  Modules import each other in the styles the property lists
(absolute, from-import, relative, import inside a function), inherit across modules and pass callbacks across
the instrumented/uninstrumented border.  Every module-level and function-level action appends to TRACE (a list
owned by util.py, never instrumented code's own invention) so that behaviour is observable.
"""
import random

META = ['__version__ = "1.2.3"', '__author__ = "someone"', '__all__ = ["a", "b"]', '__license__ = "MIT"', '__email__ = "a@b.c"']


def gen_package(rng):
    n_extra = rng.randrange(0, 2)
    style = {k: rng.choice(v) for k, v in {
        "main_util": ["import util", "from util import record, apply, Base", "import util as u"],
        "main_a": ["from pkg import a", "import pkg.a", "from pkg.a import fa, Child"],
        "a_b": ["from . import b", "from .b import fb", "from pkg import b", "import pkg.b"],
        "b_util": ["import util", "from util import record"],
        "lazy": ["top", "function"],
    }.items()}
    k1, k2, k3 = rng.randrange(1, 9), rng.randrange(1, 9), rng.randrange(2, 5)
    files = {}
    files["util.py"] = '''TRACE = []
def record(*x):
    TRACE.append(x)
    return x[-1]
def apply(f, *args):
    record("apply", len(args))
    return f(*args)
class Base:
    kind = "base"
    def __init__(self, v):
        self.v = record("Base.__init__", v)
    def describe(self):
        return (self.kind, self.v)
    def twice(self):
        return self.v * 2
record("util loaded", %d)
''' % k1
    metas = rng.sample(META, rng.randrange(2, len(META) + 1))
    files["pkg/__init__.py"] = "\n".join(metas) + '''
import util
util.record("pkg loaded", __version__ if "__version__" in dir() else None)
DEFAULT = %d
def pkg_helper(x):
    return util.record("pkg_helper", x + DEFAULT)
''' % k2
    # b
    b_imp = style["b_util"]
    rec_b = "util.record" if b_imp == "import util" else "record"
    files["pkg/b.py"] = b_imp + '''
%(rec)s("b loaded", 0)
def fb(x):
    y = x + %(k)d
    if y %% 2 == 0:
        return %(rec)s("fb even", y)
    return %(rec)s("fb odd", y * 2)
def gen_b(n):
    for i in range(n):
        yield %(rec)s("gen_b", i)
class Mixin:
    def mixed(self):
        return %(rec)s("mixed", self.v + 1)
''' % {"rec": rec_b, "k": k3}
    # a
    ab = style["a_b"]
    fb_call = {"from . import b": "b.fb", "from .b import fb": "fb", "from pkg import b": "b.fb", "import pkg.b": "pkg.b.fb"}[ab]
    mixin = {"from . import b": "b.Mixin", "from .b import fb": None, "from pkg import b": "b.Mixin", "import pkg.b": "pkg.b.Mixin"}[ab]
    a_src = ["import util"]
    if style["lazy"] == "top":
        a_src.append(ab)
        if mixin is None:
            a_src.append("from .b import Mixin")
            mixin = "Mixin"
        lazy_imp = ""
    else:
        a_src.append("from .b import Mixin")
        mixin = "Mixin"
        lazy_imp = "    " + ab + "\n"
    a_src.append('''util.record("a loaded", 1)
class Child(util.Base, %(mixin)s):
    kind = "child"
    def describe(self):
        base = super().describe()
        return util.record("Child.describe", base + (self.twice(),))
def fa(x, cb=None):
%(lazy)s    r = %(fb)s(x)
    if cb is not None:
        r = util.apply(cb, r)
    return util.record("fa", r)
def make(v):
    return Child(v)
''' % {"mixin": mixin, "lazy": lazy_imp, "fb": fb_call})
    files["pkg/a.py"] = "\n".join(a_src)
    if n_extra:
        files["pkg/sub/__init__.py"] = '__version__ = "0.1"\n__all__ = ["c"]\n'
        files["pkg/sub/c.py"] = '''from .. import b
from ...util import record if False else None
''' if False else '''from .. import b
import util
def fc(x):
    return util.record("fc", b.fb(x) + 1)
'''
    # main
    mu, ma = style["main_util"], style["main_a"]
    U = {"import util": "util.", "from util import record, apply, Base": "", "import util as u": "u."}[mu]
    A = {"from pkg import a": "a.", "import pkg.a": "pkg.a.", "from pkg.a import fa, Child": ""}[ma]
    make = {"from pkg import a": "a.make", "import pkg.a": "pkg.a.make", "from pkg.a import fa, Child": "Child"}[ma]
    main = [mu, ma, "import pkg"]
    if n_extra:
        main.append("from pkg.sub import c")
    main.append('''def cb(v):
    return %(U)srecord("callback in main", v - 1)
out = []
out.append(%(A)sfa(%(k1)d))
out.append(%(A)sfa(%(k2)d, cb))
out.append(%(A)sfa(3, cb=lambda v: v * 10))
obj = %(make)s(%(k3)d)
out.append(obj.describe())
out.append(obj.mixed())
out.append(%(U)sapply(cb, 5))
out.append(pkg.pkg_helper(1))
out.append([x for x in ("__version__", "__author__", "__all__", "__license__", "__email__") if hasattr(pkg, x)])
out.append(getattr(pkg, "__version__", None))
import pkg.b as bb
out.append(list(bb.gen_b(2)))
out.append([bb.fb(i) for i in range(2)])
''' % {"U": U, "A": A, "make": make, "k1": k1, "k2": k2, "k3": k3})
    if n_extra:
        main.append("out.append(c.fc(2))")
    main.append('''import util as _u
trace = list(_u.TRACE)
print(out)
print(len(trace))
''')
    if rng.random() < 0.3:
        main.append('raise KeyError("end of main %d" % len(out))')
    files["main.py"] = "\n".join(main) + "\n"
    return {"files": files, "metas": metas}


def subsets(files, rng, quick):
    names = sorted(files)
    alls = []
    n = len(names)
    for mask in range(1 << n):
        alls.append([names[i] for i in range(n) if mask >> i & 1])
    if quick:
        pick = [[], names] + [[x] for x in names]
        pick += rng.sample(alls, min(4, len(alls)))
    else:
        pick = alls
    seen, out = set(), []
    for s in pick:
        t = tuple(s)
        if t not in seen:
            seen.add(t)
            out.append(list(s))
    return out
