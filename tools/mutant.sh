#!/bin/bash
# usage: tools/mutant.sh <patch.diff> <demo.py|-> <check ids...>
# applies the patch to /repo, runs the baseline tests + demo + the given checks, and restores /repo.
patch=$1; demo=$2; shift 2
cd /repo || exit 2
git diff --quiet || { echo "repo dirty"; exit 2; }
git apply "$patch" || { echo "patch does not apply"; exit 2; }
trap 'git -C /repo checkout -- . ; git -C /repo clean -fdq tests >/dev/null 2>&1' EXIT
echo "== tests with mutant"; timeout 900 /venv/bin/python -m pytest -q -p no:cacheprovider --timeout=900 tests 2>&1 | tail -1
if [ "$demo" != "-" ]; then echo "== demo with mutant"; (cd /tmp && PYTHONPATH=/repo/src timeout 300 /venv/bin/python "$demo" 2>&1 | grep -v conda | tail -3; echo "demo exit ${PIPESTATUS[0]}"); fi
for c in "$@"; do echo "== check $c"; (cd /verif && ./check $c 2>&1 | grep -E "VIOLATION|new violation|broken:|quick:" | cut -c1-260 | head -8); done
