#!/venv/bin/python
"""Development aid for coq/Py/Sem.v (which takes ~8 min to compile): writes a SCRATCH copy in which the long proofs are
replaced by `Admitted.` so that one proof can be developed with a 10-20 s edit/compile loop.

    mkdir -p /tmp/dev && cp /verif/coq/Py/Sem.v /tmp/dev/SemEdit.v
    tools/semdev.py <lemma names to keep un-admitted ...>      # writes /tmp/dev/SemDev.v from /tmp/dev/SemEdit.v
    cd /tmp/dev && coqc -Q /verif/coq DV -Q /tmp/dev Dev -w -all SemDev.v

Edit /tmp/dev/SemEdit.v; when the proof is done copy it back to coq/Py/Sem.v and do ONE full build. Never put the
scratch copy under /verif/coq (the hygiene scan rejects `Admitted`).  Caveat: an admitted lemma inside a section is
generalised over all section variables, so apply such lemmas with `eapply ...; eauto`, not positionally."""
import re
import sys

src = open('/tmp/dev/SemEdit.v').read()
L = src.split('\n')
KEEP = tuple(sys.argv[1:])
PREFIX = ('sim_', 'quiet_', 'beq_', 'raise_builtin_bind', 'mklist_ret', 'tuple_meq', 'truth_true', 'sim2_', 'hquiet_', 's2_', 'eng_', 'heq_',
          'gen_ne', 'cov_ne', 'cov_us_ne', 'notify_state', 'filter_mkd', 'vis2', 'lookup_', 'simS_', 'payload_', 'grows_')
out = []
i = 0
last = None
n = 0
start = next(k for k, l in enumerate(L) if 'Section Refinement.' in l)
while i < len(L):
    l = L[i]
    mm = re.match(r'\s*(Lemma|Theorem)\s+(\w+)', l)
    if mm:
        last = mm.group(2)
    if i > start and re.match(r'\s*Proof\.', l) and 'Qed.' not in l and last not in KEEP and not (last or '').startswith(PREFIX):
        j = i
        while 'Qed.' not in L[j]:
            j += 1
        if j - i >= 2:
            out.append(re.sub(r'Proof\..*', 'Admitted.', l))
            i = j + 1
            n += 1
            continue
    out.append(l)
    i += 1
open('/tmp/dev/SemDev.v', 'w').write('\n'.join(out))
print('admitted', n)
