#!/bin/bash
# usage: tools/runall.sh "<seeds>" [checks...]  -- runs quick checks and prints verdict lines
seeds=${1:-0}; shift
checks=${@:-$(python3 -c "import json;print(' '.join(c['property_id'] for c in json.load(open('/verif/MANIFEST.json'))['checks']))")}
cd /verif
for s in $seeds; do for c in $checks; do
  out=$(VERIF_SEED=$s ./check $c 2>&1); rc=$?
  echo "seed=$s $c rc=$rc $(echo "$out" | tail -1 | cut -c1-150)"
  echo "$out" | grep -E "new violation|broken:" | cut -c1-260 | sort | uniq -c | sort -rn | head -6
done; done
