#!/bin/bash
# usage: tools/goal.sh <file.v relative to coq/> <line>  -- show the goal right before the given line
f=$1; line=$2
cd /verif/coq
tmp=$(dirname $f)/_goal_tmp.v
awk -v L=$line 'NR==L{print "Show."} {print}' $f > $tmp
timeout 300 coqc -Q . DV -w -all $tmp 2>&1 | awk '/^1 goal|^[0-9]+ goals/{p=1} p' | grep -v "^  p_\|^  val : \|^  world : \|^  as_fun\|^  mk_fun\|^  v_filt\|^  v_is_int\|^  line_of\|^  analyses\|^  modpath\|^  funs :" | head -${3:-60}
rm -f $tmp $(dirname $f)/_goal_tmp.vo $(dirname $f)/_goal_tmp.glob $(dirname $f)/._goal_tmp.aux
