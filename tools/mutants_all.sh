#!/bin/bash
# re-validate every seeded change: apply, run the check of its property, restore; prints DETECTED / MISSED per change
cd /verif
for d in seeded/*/; do
  id=$(basename $d)
  prop=$(/venv/bin/python -c "import json;print(json.load(open('$d/meta.json'))['property'])")
  out=$(tools/mutant.sh /verif/$d/patch.diff - $prop 2>&1)
  if echo "$out" | grep -q "VIOLATION property=$prop"; then
    kind=$(echo "$out" | grep "VIOLATION property=$prop" | grep -q "no-failing-input-found" && echo "DETECTED(no-failing-input)" || echo "DETECTED(failing-input)")
  else kind="MISSED"; fi
  echo "$id $prop $kind $(echo "$out" | grep -E "passed|failed" | head -1)"
done
